"""Checker self-test: single-instance edits of a scratch copy of /repo on which a rule must fire
(breaking variants) or stay silent (benign twins).  Catalogue in fv/mutants.py."""

from __future__ import annotations

import importlib
import os
import shutil
import sys
import tempfile
from concurrent.futures import ProcessPoolExecutor
from pathlib import Path

from .core import REPO, AnalysisError, Repo, Report


def _copy_repo(dst: Path) -> None:
    for name in ("compile.py", "dsl_compiler", "lib", "doc", "example_programs", "README.md", "LANGUAGE_SPEC.md"):
        src = REPO / name
        if src.is_dir():
            shutil.copytree(src, dst / name, ignore=shutil.ignore_patterns("__pycache__", "tests", "*.pyc", "*.png", "*.gif"))
        elif src.exists():
            shutil.copy2(src, dst / name)


def _run_one(args):
    prop, mid, rel, old, new, count, expect, needle = args
    tmp = Path(tempfile.mkdtemp(prefix="fvself_"))
    try:
        _copy_repo(tmp)
        p = tmp / rel
        s = p.read_text()
        if s.count(old) < 1 or (count and s.count(old) != count):
            return (mid, "stale", f"pattern occurs {s.count(old)}x in {rel}, expected {count or '>=1'}")
        p.write_text(s.replace(old, new) if not count else s.replace(old, new))
        mod = importlib.import_module(f"fv.rules.{prop.lower()}")
        rep = Report(prop, "selftest")
        try:
            repo = Repo(tmp)
            mod.run(repo, rep, "quick")
        except AnalysisError as e:
            # fail-closed: the check would stop with exit 2 (no VIOLATION line); counted apart from reported violations
            return (mid, "stopped" if expect == "fire" else "noisy", f"analysis-error: {e}")
        except SyntaxError as e:
            return (mid, "stale", f"variant does not parse: {e}")
        from .core import load_known

        known, _ = load_known(prop)
        bad = [o for o in rep.obs if o.status != "ok" and o.key() not in known]
        if expect == "fire":
            hit = [o for o in bad if needle in o.construct or needle in o.detail or needle in o.rule or needle in (o.rule + ' ' + o.construct)]
            if hit:
                return (mid, "fired", hit[0].rule + " " + hit[0].construct)
            return (mid, "missed", f"{len(bad)} other reports" if bad else "no report")
        if bad:
            return (mid, "noisy", bad[0].rule + " " + bad[0].construct)
        return (mid, "silent", "")
    finally:
        shutil.rmtree(tmp, ignore_errors=True)


def collect(prop: str) -> tuple[dict, list]:
    """Run the catalogue for one property; returns (summary for the evidence file, problems)."""
    from . import mutants

    cat = [m for m in mutants.CATALOGUE if m[0] == prop]
    if not cat:
        return {"variants": 0}, []
    with ProcessPoolExecutor(max_workers=min(16, len(cat))) as ex:
        results = list(ex.map(_run_one, cat))
    n_fire = sum(1 for m in cat if m[6] == "fire")
    summary = {
        "variants": len(cat),
        "breaking_fired": f"{sum(1 for _m, st, _d in results if st == 'fired')}/{n_fire}",
        "breaking_stopped_exit2": sum(1 for _m, st, _d in results if st == "stopped"),
        "benign_silent": f"{sum(1 for _m, st, _d in results if st == 'silent')}/{len(cat) - n_fire}",
        "results": {m: f"{st}: {d}"[:160] for m, st, d in results},
    }
    problems = [(m, st, d) for m, st, d in results if st in ("missed", "noisy", "stale")]
    return summary, problems


def whole_tree_variants(prop: str, baseline: list) -> tuple[dict, list]:
    """Run the rule set on the five behaviour-preserving whole-tree variants (fv/variants.py) and compare every obligation
    (rule, construct, status) with the run on the tree itself.  Any difference is a checker defect (problem kind `noisy`)."""
    import tempfile as _tf

    from . import variants

    base = sorted((o.rule, o.construct, o.status) for o in baseline)
    summary: dict = {}
    problems: list = []
    mod = importlib.import_module(f"fv.rules.{prop.lower()}")
    for kind, make in (("rename-locals", variants.make_rename), ("hoist-arguments", variants.make_extract), ("invert-guards", variants.make_invert), ("reorder-assignments", variants.make_reorder), ("early-exit-to-else", variants.make_elsify)):
        tmp = Path(_tf.mkdtemp(prefix="fvvar_"))
        try:
            n = make(REPO, tmp)
            rep = Report(prop, "selftest")
            try:
                mod.run(Repo(tmp), rep, "quick")
                got = sorted((o.rule, o.construct, o.status) for o in rep.obs)
                same = got == base
                diff = [x for x in got if x not in base][:2] + [x for x in base if x not in got][:2]
                summary[kind] = f"{n} edits; obligations {'identical' if same else 'DIFFER: ' + str(diff)[:200]}"
                if not same:
                    problems.append((f"variant:{kind}", "noisy", str(diff)[:200]))
            except AnalysisError as e:
                summary[kind] = f"{n} edits; analysis error: {e}"
                problems.append((f"variant:{kind}", "noisy", f"analysis-error: {e}"))
        finally:
            shutil.rmtree(tmp, ignore_errors=True)
    return summary, problems


def _replay_on_base(prop: str, mod, d: Path) -> str:
    import json
    import subprocess
    import tempfile as _tf

    try:
        base = json.loads((d / "meta.json").read_text())["confirmation"]["tree_head"]
    except Exception:  # noqa: BLE001
        return "not applicable to this tree (no base recorded)"
    tmp = Path(_tf.mkdtemp(prefix="fvbase_"))
    try:
        ar = subprocess.run(f"git -C {REPO} archive {base} compile.py dsl_compiler lib doc README.md LANGUAGE_SPEC.md | tar -x -C {tmp}", shell=True, capture_output=True, text=True)
        if ar.returncode != 0:
            return f"not applicable to this tree (base {base} not in the repository's history)"

        def keys() -> set | None:
            rep = Report(prop, "selftest")
            try:
                mod.run(Repo(tmp), rep, "quick")
            except AnalysisError:
                return None
            except Exception:  # noqa: BLE001
                return None
            return {(o.rule, o.construct) for o in rep.obs if o.status == "violated"}

        before = keys()
        r = subprocess.run(["patch", "-p1", "-s", "-f", "-i", str(d / "patch.diff")], cwd=tmp, capture_output=True, text=True)
        if r.returncode != 0:
            return f"not applicable (does not apply to its recorded base {base})"
        # the source model is cached per path: use a fresh Repo object
        after = keys()
        if before is None:
            return f"not applicable to this tree (today's rules do not parse base {base})"
        if after is None:
            return f"analysis stops on base {base} + seed (fail-closed)"
        new = sorted(after - before)
        if new:
            return f"reported on its base {base}: {new[0][0]} {new[0][1][:80]}"
        return f"MISSED on its base {base}"
    finally:
        shutil.rmtree(tmp, ignore_errors=True)


def _recorded_as_missed(d: Path, prop: str) -> str | None:
    """A kept seed is a confirmed defect; whether the checks report it is recorded next to it (`detected_by` in meta.json, from the seed matrix).  A seed that was
    recorded as not reported by its own property is listed as such, it is not a regression of the checker."""
    import json

    try:
        meta = json.loads((d / "meta.json").read_text())
    except Exception:  # noqa: BLE001
        return None
    det = meta.get("detected_by")
    if det is not None and prop not in det:
        why = meta.get("why_missed") or "recorded as not reported by this property when the seed matrix was run"
        return f"not reported ({why}; reported by {det or 'no check'})"
    return None


def seeded_variants(prop: str) -> tuple[dict, list]:
    """Apply every confirmed seeded defect kept under /verif/seeded/<prop>/ to a scratch copy of the tree and require the property's
    own rule set to report a violation.  A patch that no longer applies (the code it touches was repaired or moved since) is
    reported as `not applicable`, not as a failure."""
    import subprocess
    import tempfile as _tf

    from .core import VERIF, load_known

    root = VERIF / "seeded" / prop
    summary: dict = {}
    problems: list = []
    if not root.is_dir():
        return summary, problems
    mod = importlib.import_module(f"fv.rules.{prop.lower()}")
    known, _ = load_known(prop)
    for d in sorted(p for p in root.iterdir() if (p / "patch.diff").exists()):
        tmp = Path(_tf.mkdtemp(prefix="fvseed_"))
        try:
            _copy_repo(tmp)
            r = subprocess.run(["patch", "-p1", "-s", "-f", "-i", str(d / "patch.diff")], cwd=tmp, capture_output=True, text=True)
            if r.returncode != 0:
                # The touched code changed since the seed was written (usually: it was repaired).  Replay the seed on the tree it was written
                # against — taken from /repo's own history — and require a violation that the same tree *without* the seed does not have.
                summary[d.name] = _replay_on_base(prop, mod, d)
                if summary[d.name].startswith("MISSED"):
                    rec = _recorded_as_missed(d, prop)
                    if rec:
                        summary[d.name] = rec
                    else:
                        problems.append((f"seed:{prop}/{d.name}", "missed", "seeded defect not reported on its base tree"))
                continue
            rep = Report(prop, "selftest")
            try:
                mod.run(Repo(tmp), rep, "quick")
            except AnalysisError as e:
                summary[d.name] = f"analysis stops (fail-closed): {str(e)[:100]}"
                continue
            bad = [o for o in rep.obs if o.status == "violated" and o.key() not in known]
            if bad:
                summary[d.name] = f"reported: {bad[0].rule} {bad[0].construct[:90]}"
            else:
                # The patch still applies but nothing is reported on today's tree.  A seed is a defect of the tree it was written and confirmed on; a later repair
                # elsewhere can make the same change harmless (the line it removes became redundant).  Replay it on its recorded base before calling it missed.
                on_base = _replay_on_base(prop, mod, d)
                if on_base.startswith("reported"):
                    summary[d.name] = "not reported on today's tree (the change was written against another tree); " + on_base
                elif on_base.startswith("MISSED") or on_base.startswith("not applicable to this tree (no base"):
                    rec = _recorded_as_missed(d, prop)
                    if rec:
                        summary[d.name] = rec
                    else:
                        summary[d.name] = "MISSED"
                        problems.append((f"seed:{prop}/{d.name}", "missed", "seeded defect not reported"))
                else:
                    summary[d.name] = "not reported on today's tree; " + on_base
        finally:
            shutil.rmtree(tmp, ignore_errors=True)
    return summary, problems


def run_for(prop: str) -> int:
    try:
        from . import mutants
    except ImportError:
        print(f"SELFTEST {prop}: no catalogue")
        return 0
    cat = [m for m in mutants.CATALOGUE if m[0] == prop]
    if not cat:
        print(f"SELFTEST {prop}: no catalogue entries")
        return 0
    jobs = min(16, len(cat))
    with ProcessPoolExecutor(max_workers=jobs) as ex:
        results = list(ex.map(_run_one, cat))
    fired = sum(1 for _m, st, _d in results if st == "fired")
    silent = sum(1 for _m, st, _d in results if st == "silent")
    n_fire = sum(1 for m in cat if m[6] == "fire")
    n_silent = len(cat) - n_fire
    problems = [(m, st, d) for m, st, d in results if st in ("missed", "noisy", "stale")]
    for m, st, d in results:
        print(f"  selftest {m}: {st} {d}")
    print(f"SELFTEST {prop} fired {fired}/{n_fire}, silent {silent}/{n_silent}")
    if problems:
        print(f"ANALYSIS-ERROR property={prop}: checker self-test failed: " + "; ".join(f"{m}={st}" for m, st, _ in problems))
        return 2
    return 0


if __name__ == "__main__":
    from . import mutants

    props = sys.argv[1:] or sorted({m[0] for m in mutants.CATALOGUE})
    worst = 0
    for p in props:
        worst = max(worst, run_for(p))
    sys.exit(worst)
