"""C14 Ill-formed programs are rejected and produce no blueprint — structural clauses.

R1 rule inventory: every documented static rule has an error-severity site under the guard that recognises it
R2 errors abort: error() raises or counts on every path; pipelines built with raise_errors and has_errors gates; no swallowing handler
R3 nothing blueprint-like on failure in both mains
R4 every statement list is analysed on every path of its visitor
R5 loop-field checks cover both forms (literal and variable) of the field
R7 type-name tables are exhaustive over the grammar's type keywords
R8 the write-once key identifies the memory, not the scope the write happens to be analysed in
R9 each check is applied to every AST slot of its subject (explicit signal names; expression-carrying statements)
"""

from __future__ import annotations

import ast
import re

from ..cfg import CFG, EXIT
from ..core import AnalysisError, Func, Repo, Report, call_name, calls_in, class_const, kwarg, norm, parents_map, walk_local
from ..dataflow import DefUse
from ..grammar import load_grammar
from ..pipeline import compile_funcs, mains
from ..sites import Site, error_sites

ERR = ("error",)


def _is_error(s: Site, repo: Repo) -> bool:
    if s.severity == "error" or s.severity.startswith("raise:"):
        return True
    if s.severity.startswith("table:"):
        return _reserved_all_error(repo)
    return False


def _reserved_all_error(repo: Repo) -> bool:
    an = repo.cls("SemanticAnalyzer")
    try:
        table = class_const(repo, an, "RESERVED_SIGNAL_RULES")
    except Exception:
        return False
    return bool(table) and all(isinstance(v, (tuple, list)) and v and v[0] == "error" for v in table.values())


def _len_ne_guard(s: Site) -> bool:
    for t, pol in s.guards:
        for sub in ast.walk(t):
            # `a != b` holding: written so inside a positive guard, or as the (normalised) top-level `a == b` with negative polarity
            ne = isinstance(sub, ast.Compare) and len(sub.ops) == 1 and ((isinstance(sub.ops[0], ast.NotEq) and pol) or (sub is t and isinstance(sub.ops[0], ast.Eq) and not pol))
            if ne:
                sides = [sub.left, sub.comparators[0]]
                ok = 0
                for side in sides:
                    exprs = [side] + (s.du.value_exprs(side.id) if isinstance(side, ast.Name) and s.du else [])
                    if any(isinstance(x, ast.Call) and call_name(x) == "len" for e in exprs for x in ast.walk(e)):
                        ok += 1
                if ok == 2:
                    return True
    return False


def _ne_two_values_guard(s: Site) -> bool:
    for t, pol in s.guards:
        if isinstance(t, ast.Compare) and len(t.ops) == 1 and ((isinstance(t.ops[0], ast.NotEq) and pol) or (isinstance(t.ops[0], ast.Eq) and not pol)):
            if not isinstance(t.left, ast.Constant) and not isinstance(t.comparators[0], ast.Constant):
                return True
    return False


def _in_written_container_guard(s: Site) -> bool:
    """positive guard `X in C` where C is a local container that the function also fills."""
    for t, pol in s.guards:
        if pol and isinstance(t, ast.Compare) and len(t.ops) == 1 and isinstance(t.ops[0], ast.In) and isinstance(t.comparators[0], ast.Name):
            cname = t.comparators[0].id
            for n in walk_local(s.f.node):
                if isinstance(n, ast.Subscript) and isinstance(n.ctx, ast.Store) and isinstance(n.value, ast.Name) and n.value.id == cname:
                    return True
                if isinstance(n, ast.Call) and isinstance(n.func, ast.Attribute) and n.func.attr == "add" and isinstance(n.func.value, ast.Name) and n.func.value.id == cname:
                    return True
    return False


def _neg_isinstance_guard(s: Site, *classes: str) -> bool:
    for t, pol in s.guards:
        for sub in ast.walk(t):
            if isinstance(sub, ast.Call) and call_name(sub) == "isinstance" and len(sub.args) == 2 and all(c in norm(sub.args[1]) for c in classes):
                # negative: either polarity False, or wrapped in `not`
                if not pol:
                    return True
        if pol and isinstance(t, ast.UnaryOp) and isinstance(t.op, ast.Not):
            if any(isinstance(sub, ast.Call) and call_name(sub) == "isinstance" and all(c in norm(sub.args[1]) for c in classes) for sub in ast.walk(t)):
                return True
    return False


def _zero_test(t: ast.AST) -> list[ast.AST]:
    out = []
    for sub in ast.walk(t):
        if isinstance(sub, ast.Compare) and len(sub.ops) == 1 and isinstance(sub.ops[0], ast.Eq):
            a, b = sub.left, sub.comparators[0]
            if isinstance(b, ast.Constant) and b.value == 0:
                out.append(a)
            elif isinstance(a, ast.Constant) and a.value == 0:
                out.append(b)
    return out


# (rule key, description, anchors, predicate)
INVENTORY = [
    ("undefined-variable", "use of an undefined variable", ["SemanticAnalyzer.infer_expr_type"],
     lambda s: s.isinstance_of("IdentifierExpr") and s.none_of_call("lookup")),
    ("undefined-function", "call of an undefined function", ["SemanticAnalyzer.visit_CallExpr"],
     lambda s: s.none_of_call("lookup")),
    ("undefined-memory-read", "read of an undefined memory", ["SemanticAnalyzer.infer_expr_type"],
     lambda s: s.isinstance_of("ReadExpr") and s.none_of_call("lookup")),
    ("undefined-memory-write", "write to an undefined memory", ["SemanticAnalyzer.infer_expr_type"],
     lambda s: s.isinstance_of("WriteExpr") and s.none_of_call("lookup")),
    ("undefined-entity-property", "property assignment on an undefined entity", ["SemanticAnalyzer.visit_AssignStmt"],
     lambda s: s.isinstance_of("PropertyAccess") and s.none_of_call("lookup")),
    ("undefined-entity-output", ".output of an undefined entity", ["SemanticAnalyzer._infer_entity_output_type", "SemanticAnalyzer.infer_expr_type"],
     lambda s: s.f.name == "_infer_entity_output_type" and s.none_of_call("lookup")),
    ("undefined-assign-target", "assignment to an undefined name", ["SemanticAnalyzer.visit_AssignStmt"],
     lambda s: s.isinstance_of("Identifier") and s.none_of_call("lookup")),
    ("redefinition", "redefinition in the same scope", ["SymbolTable.define"],
     lambda s: s.has(r" in self\.symbols", True)),
    ("immutable-assignment", "assignment to an immutable name", ["SemanticAnalyzer.visit_AssignStmt"],
     lambda s: s.has(r"not \w+\.is_mutable", True)),
    ("declared-type-mismatch", "value of the wrong kind for the declared type", ["SemanticAnalyzer.visit_DeclStmt"],
     lambda s: s.has(r"not self\._value_matches_type\(", True)),
    ("argument-type-mismatch", "argument of the wrong kind for the parameter", ["SemanticAnalyzer.visit_CallExpr"],
     lambda s: s.has(r"not self\._is_compatible_argument\(", True)),
    ("argument-count", "wrong argument count", ["SemanticAnalyzer.visit_CallExpr"], _len_ne_guard),
    ("recursion", "direct or indirect recursion", ["SemanticAnalyzer.visit_CallExpr"],
     lambda s: s.has(r" in self\._analyzing_functions", True)),
    ("bundle-duplicate", "duplicate signal type in a bundle", ["SemanticAnalyzer._infer_bundle_literal_type"], _in_written_container_guard),
    ("bundle-op-bundle", "Bundle OP Bundle", ["SemanticAnalyzer.infer_binary_op_type"],
     lambda s: s.isinstance_of("BundleValue") and _neg_isinstance_guard(s, "SignalValue", "IntValue")),
    ("bare-bundle-comparison", "a bare bundle comparison", ["SemanticAnalyzer.visit_DeclStmt", "SemanticAnalyzer.infer_expr_type", "SemanticAnalyzer.infer_binary_op_type"],
     lambda s: s.has(r"self\._is_naked_bundle_comparison\(", True)),
    ("bundle-select-absent", "bundle selection of an absent member", ["SemanticAnalyzer._infer_bundle_select_type"],
     lambda s: s.has(r" not in \w+\.signal_types", True)),
    ("unknown-signal", "an unknown signal name", ["SemanticAnalyzer.validate_signal_type_with_error"],
     lambda s: s.has(r"^not \w+$", True) and any(call_name(c) == "is_valid_factorio_signal" for c in calls_in(s.f.node))),
    ("reserved-signal", "use of the reserved write-enable signal", ["SemanticAnalyzer._emit_reserved_signal_diagnostic"],
     lambda s: s.f.name == "_emit_reserved_signal_diagnostic" and s.has(r"== 'error'", True)),
    ("memory-write-type", "a write whose type contradicts the cell's declared type", ["SemanticAnalyzer.infer_expr_type"],
     lambda s: s.isinstance_of("WriteExpr") and _ne_two_values_guard(s)),
    ("memory-second-write", "a second write to one cell", ["SemanticAnalyzer.infer_expr_type"],
     lambda s: s.isinstance_of("WriteExpr") and s.has(r" in self\._memory_write_locations", True)),
    ("zero-step", "a zero loop step", ["SemanticAnalyzer.visit_ForStmt", "ForStmt.get_iteration_values"],
     lambda s: any(pol and _zero_test(t) for t, pol in s.guards)),
    ("non-comparison-before-colon", "a non-comparison before `:`", ["SemanticAnalyzer._infer_output_spec_type"],
     lambda s: s.has(r"not self\._is_comparison_expr\(", True)),
    ("syntax-error", "a syntax error", ["DSLParser.parse"],
     lambda s: s.severity == "raise:SyntaxError"),
]


def run(repo: Repo, rep: Report, tier: str) -> None:
    an = repo.cls("SemanticAnalyzer")
    sem_funcs = [f for f in repo.all_funcs() if ".semantic." in f.module.name + "." or f.module.name.endswith("parsing.parser") or f.module.name.endswith("ast.statements")]
    sites = error_sites(repo, sem_funcs)
    rep.analysed["error sites in semantic/parser/ast"] = len(sites)
    rep.floor("C14-R1", "diagnostic/raise sites in the analysis stage", len(sites), 60)

    # ---------------- R1 ---------------------------------------------------------------
    rep.rule("C14-R1", "each documented static rule has >= 1 site in its anchor function (or a callee) whose guard recognises the rule "
             "and whose severity is error/raise; a recognised guard that only warns is 'downgraded', an anchor without the guard is 'not enforced'")
    for key, desc, anchors, pred in INVENTORY:
        afuncs = [repo.func(a, optional=True) for a in anchors]
        afuncs = [a for a in afuncs if a is not None]
        if not afuncs:
            raise AnalysisError(f"C14-R1 {key}: anchor function(s) {anchors} not found")
        names = {a.qual for a in afuncs}
        cands = [s for s in sites if s.f.qual in names]
        hits = []
        for s in cands:
            try:
                if pred(s):
                    hits.append(s)
            except Exception:  # noqa: BLE001 - a predicate must never abort the run
                continue
        errs = [s for s in hits if _is_error(s, repo)]
        construct = f"rule '{desc}' is enforced with an error"
        if errs:
            rep.ok("C14-R1", construct, f"{len(errs)} error site(s), e.g. guards {errs[0].guard_texts()[-2:]}", errs[0].loc)
        elif hits:
            rep.bad("C14-R1", construct + " [downgraded]", f"guard recognised at {hits[0].loc} but severity is {hits[0].severity}", hits[0].loc)
        else:
            rep.bad("C14-R1", construct + " [not enforced]", f"no diagnostic site in {sorted(a.short for a in afuncs)} is guarded by the rule's condition", afuncs[0].loc())

    # redefinition: every define() call in the analyzer converts SemanticError into an error
    n_def = 0
    for m in an.methods.values():
        pm = parents_map(m.node)
        for c in calls_in(m.node, "define"):
            n_def += 1
            cur = c
            ok = False
            while cur in pm:
                cur = pm[cur]
                if isinstance(cur, ast.Try) and any(h.type is not None and "SemanticError" in norm(h.type) and any(
                        isinstance(x, ast.Call) and isinstance(x.func, ast.Attribute) and x.func.attr == "error" for s in h.body for x in ast.walk(s)) for h in cur.handlers):
                    ok = True
                    break
            rep.check(ok, "C14-R1", f"{m.short}: redefinition raised by define() is reported as an error",
                      "define() wrapped in try/except SemanticError -> diagnostics.error" if ok else "SemanticError from define() is not turned into an error here", m.loc(c))
    rep.floor("C14-R1", "symbol definitions in the analyzer", n_def, 6)

    # the immutability test applies to every kind of symbol except the entity exception
    vas = repo.func("SemanticAnalyzer.visit_AssignStmt")
    imm = [n for n in walk_local(vas.node) if isinstance(n, ast.If) and "is_mutable" in norm(n.test)]
    if imm:
        t = imm[0].test
        conj = t.values if isinstance(t, ast.BoolOp) and isinstance(t.op, ast.And) else [t]
        others = [norm(c) for c in conj if "is_mutable" not in norm(c)]
        ok = all(o.endswith("!= SymbolType.ENTITY") for o in others) and any(norm(c).startswith("not ") and "is_mutable" in norm(c) for c in conj)
        rep.check(ok, "C14-R1", "assignment to an immutable name is refused for every kind of symbol (entities excepted)",
                  f"guard: {norm(t)}" + ("" if ok else ": the extra conjunct narrows the rule, immutable symbols of other kinds (parameters, loop iterators, functions) become assignable"), vas.loc(imm[0]))
    from .shared import bundle_literal_sibling_branches
    bundle_literal_sibling_branches(repo, rep, "C14-R1")

    # recursion bookkeeping pairing
    fd = repo.func("SemanticAnalyzer.visit_FuncDecl")
    cfg = CFG(fd.node)
    adds = [s for s in cfg.stmts() if isinstance(s, ast.Expr) and isinstance(s.value, ast.Call) and norm(s.value.func).endswith("_analyzing_functions.add")]
    body_loops = [s for s in cfg.stmts() if isinstance(s, ast.For) and norm(s.iter).endswith(".body")]
    rep.check(bool(adds) and bool(body_loops) and all(cfg.dominates(adds[0], l) for l in body_loops), "C14-R1",
              "visit_FuncDecl marks the function as being analysed before visiting its body",
              "_analyzing_functions.add dominates the body loop", fd.loc(adds[0]) if adds else fd.loc())

    # ---------------- R2 ---------------------------------------------------------------
    rep.rule("C14-R2", "ProgramDiagnostics.error raises or increments the error count on every path; both pipelines construct it with "
             "raise_errors=True and test has_errors() after each stage; no handler in parsing/semantic/lowering swallows a broad exception")
    err = repo.func("ProgramDiagnostics.error")
    ecfg = CFG(err.node)
    counted = lambda n: isinstance(n, ast.AugAssign) and "_error_count" in norm(n.target)  # noqa: E731
    escapes = ecfg.reaches_avoiding("ENTRY", {id(EXIT)}, lambda n: counted(n))
    rep.check(not escapes, "C14-R2", "ProgramDiagnostics.error counts or raises on every path",
              "every normal exit passes `_error_count += 1`" if not escapes else "a path returns normally without counting the error", err.loc())
    he = repo.func("ProgramDiagnostics.has_errors")
    rets = [n for n in walk_local(he.node) if isinstance(n, ast.Return)]
    rep.check(len(rets) == 1 and re.fullmatch(r"self\._error_count > 0", norm(rets[0].value)) is not None, "C14-R2",
              "has_errors() is `_error_count > 0`", norm(rets[0].value) if rets else "no return", he.loc())
    for cf in compile_funcs(repo):
        ctor = calls_in(cf.node, "ProgramDiagnostics")
        v = kwarg(ctor[0], "raise_errors") if ctor else None
        rep.check(v is not None and isinstance(v, ast.Constant) and v.value is True, "C14-R2", f"{cf.short} constructs diagnostics with raise_errors=True",
                  f"raise_errors={norm(v)}", cf.loc(ctor[0]) if ctor else cf.loc())
        gates = [n for n in walk_local(cf.node) if isinstance(n, ast.If) and "has_errors()" in norm(n.test)
                 and n.body and isinstance(n.body[-1], ast.Return) and isinstance(n.body[-1].value, ast.Tuple) and norm(n.body[-1].value.elts[0]) == "False"]
        rep.check(len(gates) >= 5, "C14-R2", f"{cf.short} gates every stage on has_errors()", f"{len(gates)} gates returning (False, ...)", cf.loc())
    n_try = 0
    for f in repo.all_funcs():
        if not any(p in f.module.name + "." for p in (".parsing.", ".semantic.", ".lowering.")):
            continue
        for n in walk_local(f.node):
            if isinstance(n, ast.Try):
                for h in n.handlers:
                    n_try += 1
                    t = norm(h.type) if h.type else "*"
                    broad = t in ("*", "Exception", "BaseException", "RuntimeError") or "RuntimeError" in t or "Exception" in t.split(",")[0]
                    reraises = any(isinstance(x, ast.Raise) for s in h.body for x in ast.walk(s))
                    reports = any(isinstance(x, ast.Call) and isinstance(x.func, ast.Attribute) and x.func.attr in ("error", "_error") for s in h.body for x in ast.walk(s))
                    if broad:
                        rep.check(reraises or reports, "C14-R2", f"{f.short}: handler `except {t}` does not swallow compile errors",
                                  "re-raises or reports" if reraises or reports else "broad handler swallows the RuntimeError that carries compile errors", f.loc(h))
    rep.analysed["C14-R2:handlers in parsing/semantic/lowering"] = n_try

    # ---------------- R3 ---------------------------------------------------------------
    rep.rule("C14-R3", "in both mains every writer of `result` (echo to stdout / write_text) is dominated by the failure test that exits non-zero")
    for mf, cf in mains(repo):
        mcfg = CFG(mf.node)
        from .util import canon as _canon
        cm_ = _canon(mf)

        def _res(e: ast.AST, ix: int, _cf=cf, _cm=cm_) -> bool:
            t = _cm.text(e)
            return t.startswith(_cf.name + "(") and t.endswith(f")[{ix}]")

        fails = [s for s in mcfg.stmts() if isinstance(s, ast.If) and isinstance(s.test, ast.UnaryOp) and isinstance(s.test.op, ast.Not) and _res(s.test.operand, 0)]
        ok_fail = bool(fails) and any(isinstance(x, ast.Call) and norm(x.func) == "sys.exit" and x.args and norm(x.args[0]) != "0" for s in fails[0].body for x in ast.walk(s))
        rep.check(ok_fail, "C14-R3", f"{mf.qual} exits non-zero when compilation fails", "`if not success:` ... sys.exit(1)" if ok_fail else "failure branch missing or exits 0", mf.loc(fails[0]) if fails else mf.loc())
        writers = []
        for s in mcfg.stmts():
            if isinstance(s, (ast.If, ast.For, ast.While, ast.Try, ast.With)):
                continue
            for x in ast.walk(s):
                if isinstance(x, ast.Call) and call_name(x) in ("echo", "write_text", "print", "write") and any(cf.name + "(" in cm_.text(a) and ")[1]" in cm_.text(a) and "[2]" not in cm_.text(a) and not isinstance(a, ast.JoinedStr) for a in x.args):
                    if kwarg(x, "err") is None:
                        writers.append((s, x))
        rep.floor("C14-R3", f"writers of result in {mf.qual}", len(writers), 2)
        for s, x in writers:
            dom = bool(fails) and mcfg.dominates(fails[0], s) and s not in [n for b in fails[0].body for n in ast.walk(b)]
            rep.check(dom, "C14-R3", f"{mf.qual}: {call_name(x)}(<blueprint text>) only after the success test", "dominated by `if not success: exit`" if dom else "result can be written on the failure path", mf.loc(x))

    # ---------------- R4 ---------------------------------------------------------------
    rep.rule("C14-R4", "for each AST class with a statement-list field the analyzer's visit method visits the list on every path "
             "(a visit only inside a data-dependent loop has a zero-trip path on which the body is never analysed)")
    stmt_lists = {"Program": "statements", "FuncDecl": "body", "ForStmt": "body"}
    for cname, fld in stmt_lists.items():
        repo.cls(cname)
        vm = an.methods.get(f"visit_{cname}")
        if vm is None:
            raise AnalysisError(f"C14-R4: SemanticAnalyzer.visit_{cname} missing")
        pm = parents_map(vm.node)
        loops = [n for n in walk_local(vm.node) if isinstance(n, ast.For) and norm(n.iter).endswith("." + fld)
                 and any(call_name(c) == "visit" for c in calls_in(n))]
        if not loops:
            rep.bad("C14-R4", f"visit_{cname} analyses {cname}.{fld}", "the statement list is never visited", vm.loc())
            continue
        for lp in loops:
            outer = []
            cur = lp
            while cur in pm and pm[cur] is not vm.node:
                cur = pm[cur]
                if isinstance(cur, (ast.For, ast.While)):
                    outer.append(cur)
            construct = f"visit_{cname} analyses {cname}.{fld} on every path"
            # an enclosing loop is no zero-trip path if, ahead of it, an empty iterable is replaced by a non-empty list (the body of a loop that never runs is
            # analysed once with a stand-in value)
            if outer and isinstance(outer[0].iter, ast.Name):
                v4 = outer[0].iter.id
                cvm4 = __import__("fv.rules.util", fromlist=["canon"]).canon(vm)
                for iff in [q for q in walk_local(vm.node) if isinstance(q, ast.If) and q.lineno < outer[0].lineno]:
                    fills = [b for b in iff.body if isinstance(b, ast.Assign) and norm(b.targets[0]) == v4 and isinstance(b.value, ast.List) and len(b.value.elts) >= 1]
                    t4 = cvm4.text(iff.test, iff)
                    first_def = [a for a in cvm4.alts(ast.Name(id=v4, ctx=ast.Load()), iff)]
                    if fills and any(("not " + a) in t4 for a in first_def):
                        outer = []
                        break
            if outer:
                rep.bad("C14-R4", construct, f"body visit is nested in `for {norm(outer[0].target)} in {norm(outer[0].iter)}`: with zero iterations the body is never analysed", vm.loc(lp))
            else:
                rep.ok("C14-R4", construct, "visited unconditionally", vm.loc(lp))

    # ---------------- R5 ---------------------------------------------------------------
    rep.rule("C14-R5", "the zero-step rule is applied to the *resolved* step (both the literal and the variable form), before the loop is unrolled")
    vf = repo.func("SemanticAnalyzer.visit_ForStmt")
    giv = repo.func("ForStmt.get_iteration_values")
    covered_resolved = False
    where = vf.loc()
    for f in (vf, giv):
        du = DefUse(f)
        for s in error_sites(repo, [f]):
            if not _is_error(s, repo):
                continue
            for t, pol in s.guards:
                if not pol:
                    continue
                for subj in _zero_test(t):
                    lits_only = any(isinstance(x, ast.Call) and call_name(x) == "isinstance" and "int" in norm(x.args[1]) and norm(x.args[0]) == norm(subj) for x in ast.walk(t))
                    leaves = du.leaves(subj)
                    resolved = any(l.kind == "call" and ("resolve" in l.text) for l in leaves)
                    if resolved or (f is giv and not lits_only and isinstance(subj, ast.Name)):
                        covered_resolved = True
                        where = s.loc
    rep.check(covered_resolved, "C14-R5", "zero step is rejected for a step given by a variable",
              "zero test on the resolved step" if covered_resolved else
              "the only zero test is `isinstance(node.step, int) and node.step == 0`; a step given by an int variable holding 0 unrolls to zero iterations silently", where)

    # ---------------- R7 ---------------------------------------------------------------
    rep.rule("C14-R7", "every alternative of the grammar's type_name / param_type has a row in each table that decides kinds; "
             "a table with a permissive default and a missing row accepts every value for that type")
    g = load_grammar(repo)
    def alts(rule: str) -> list[str]:
        out = []
        for r in g.expansions(rule):
            for sym in r.expansion:
                out += g.literals(sym)
        return out
    type_names = alts("type_name")
    param_types = alts("param_type")
    rep.floor("C14-R7", "type_name alternatives", len(type_names), 4)
    rep.floor("C14-R7", "param_type alternatives", len(param_types), 3)
    vmt = repo.func("SemanticAnalyzer._value_matches_type")
    tm = None
    for n in walk_local(vmt.node):
        if isinstance(n, ast.Assign) and isinstance(n.value, ast.Dict):
            tm = n.value
    if tm is None:
        raise AnalysisError("C14-R7: type table in _value_matches_type not found")
    keys = {k.value for k in tm.keys if isinstance(k, ast.Constant)}
    permissive = any(isinstance(n, ast.Compare) and isinstance(n.ops[0], ast.NotIn) for n in walk_local(vmt.node))
    for t in type_names:
        ok = t in keys or not permissive
        rep.check(ok, "C14-R7", f"_value_matches_type has a row for declared type '{t}'",
                  "row present" if t in keys else f"no row for '{t}' and the default is permissive (`expected_type_name not in type_map`): any value is accepted for a {t} declaration", vmt.loc(tm))
    for fname, universe in (("_is_compatible_argument", param_types), ("_type_name_to_value_info", param_types)):
        fn = repo.func(f"SemanticAnalyzer.{fname}")
        lits = {c.value for n in walk_local(fn.node) if isinstance(n, ast.Compare) for c in n.comparators if isinstance(c, ast.Constant) and isinstance(c.value, str)}
        for t in universe:
            rep.check(t in lits, "C14-R7", f"{fname} decides parameter type '{t}'", "branch present" if t in lits else "falls to the default branch", fn.loc())

    # ---------------- R8 ---------------------------------------------------------------
    rep.rule("C14-R8", "the key under which a memory's single write is recorded identifies the memory (its symbol / declaring scope), "
             "not the scope in which the write statement is being analysed (loop iterations and inlined calls analyse one write from many scopes)")
    iet = repo.func("SemanticAnalyzer.infer_expr_type")
    du = DefUse(iet)
    keyexprs = []
    for n in walk_local(iet.node):
        if isinstance(n, ast.Compare) and isinstance(n.ops[0], ast.In) and norm(n.comparators[0]).endswith("_memory_write_locations"):
            keyexprs.append(n.left)
    rep.floor("C14-R8", "write-once key tests", len(keyexprs), 1)
    for k in keyexprs:
        leaves = du.leaves(k)
        by_scope = any(l.kind == "attr" and l.text == "self.current_scope" for l in leaves)
        # a scope-qualified key is harmless once the lowering itself refuses a cell that was written before (C14-R15): every re-analysis that slips past the
        # analyzer's table is lowered once per expansion and meets that test
        backstop, _ = _lowering_refuses_second_write(repo) if by_scope else (False, None)
        rep.check(not by_scope or backstop, "C14-R8", "write-once key does not depend on the analysing scope",
                  f"key {norm(k)} derives from {sorted(str(l) for l in leaves if l.kind != 'const')}" + ("; the lowering refuses the second write of a cell (C14-R15)" if by_scope and backstop else
                  "; a loop body or a function called twice writes the same outer cell from different scopes without a collision" if by_scope else ""),
                  iet.loc(k))

    # ---------------- R9 ---------------------------------------------------------------
    rep.rule("C14-R9", "subject coverage: every AST slot that carries an explicit signal name reaches the unknown-signal validation and the "
             "reserved-signal test; the bare-bundle-comparison test covers every statement form that carries an expression")
    slots = {"SignalLiteral": "signal_type", "ProjectionExpr": "target_type", "MemDecl": "signal_type", "BundleSelectExpr": "signal_type"}
    handlers = {"SignalLiteral": iet, "ProjectionExpr": iet, "MemDecl": repo.func("SemanticAnalyzer.visit_MemDecl"),
                "BundleSelectExpr": repo.func("SemanticAnalyzer._infer_bundle_select_type")}
    for cname, fld in slots.items():
        h = handlers[cname]
        region: list[ast.AST] = [h.node]
        if h is iet:
            region = []
            for n in walk_local(iet.node):
                if isinstance(n, ast.If) and any(cname in norm(c.args[1]) for c in ast.walk(n.test) if isinstance(c, ast.Call) and call_name(c) == "isinstance" and len(c.args) == 2):
                    region = list(n.body)
                    break
            if not region:
                raise AnalysisError(f"C14-R9: branch for {cname} not found in infer_expr_type")
        validates = any(call_name(c) == "validate_signal_type_with_error" for part in region for c in calls_in(part))
        reserved = any(call_name(c) == "_emit_reserved_signal_diagnostic" for part in region for c in calls_in(part))
        # every return path must pass the validation: check no return of a typed value precedes it in a dynamic branch
        unconditional = True
        if h is not iet and validates:
            pm = parents_map(h.node)
            for c in calls_in(h.node, "validate_signal_type_with_error"):
                pass
        if cname == "BundleSelectExpr":
            # membership in a statically known bundle is an equivalent check; the dynamic-bundle path has no such set
            dyn_returns = [n for n in walk_local(h.node) if isinstance(n, ast.If) and "DynamicBundleValue" in norm(n.test)]
            member_test = any(isinstance(n, ast.Compare) and isinstance(n.ops[0], ast.NotIn) and norm(n.comparators[0]).endswith(".signal_types") for n in walk_local(h.node))
            dyn_validated = all(any(call_name(c) == "validate_signal_type_with_error" for c in calls_in(d)) for d in dyn_returns) if dyn_returns else True
            dyn_reserved = all(any(call_name(c) == "_emit_reserved_signal_diagnostic" for c in calls_in(d)) for d in dyn_returns) if dyn_returns else True
            rep.check(member_test and dyn_validated, "C14-R9", f"unknown-signal check covers {cname}.{fld}",
                      "static bundles: membership test; dynamic bundles: validated" if member_test and dyn_validated else
                      "selection from a dynamic bundle (entity.output[\"x\"]) returns a typed signal without validating the name", h.loc(dyn_returns[0]) if dyn_returns else h.loc())
            rep.check(dyn_reserved or reserved, "C14-R9", f"reserved-signal check covers {cname}.{fld}",
                      "checked" if dyn_reserved or reserved else "entity.output[\"signal-W\"] is accepted: no reserved-signal test on bundle selection", h.loc(dyn_returns[0]) if dyn_returns else h.loc())
            continue
        rep.check(validates, "C14-R9", f"unknown-signal check covers {cname}.{fld}", "validate_signal_type_with_error called" if validates else "slot is never validated", h.loc())
        rep.check(reserved, "C14-R9", f"reserved-signal check covers {cname}.{fld}", "_emit_reserved_signal_diagnostic called" if reserved else "slot is never tested against the reserved table", h.loc())
    # bare bundle comparison across expression-carrying statements
    central = any(call_name(c) == "_is_naked_bundle_comparison" for fn in ("infer_expr_type", "infer_binary_op_type", "get_expr_type") for c in calls_in(an.methods[fn].node))
    # ... or the type inference itself refuses it: the arm of infer_binary_op_type that types `bundle CMP x` reports an error (the filter form types its condition's
    # operands one by one and never asks for the type of the comparison as a whole, so whoever does ask uses the comparison as a value)
    from .util import cguards as _cg9b
    ibo = an.methods["infer_binary_op_type"]
    for c9b in calls_in(ibo.node, "error"):
        g9b = [g for g, pol in _cg9b(ibo, c9b) if pol]
        if any("BundleValue" in g and "isinstance(" in g and ".left" in g for g in g9b) and any("COMPARISON_OPS" in g for g in g9b):
            central = True
    for vname, carries in (("visit_DeclStmt", "value"), ("visit_AssignStmt", "value"), ("visit_ExprStmt", "expr"), ("visit_ReturnStmt", "expr")):
        vm = an.methods.get(vname)
        if vm is None:
            raise AnalysisError(f"C14-R9: {vname} missing")
        local = any(call_name(c) == "_is_naked_bundle_comparison" for c in calls_in(vm.node))
        rep.check(local or central, "C14-R9", f"bare bundle comparison is rejected in {vname[6:]}",
                  "tested" if local or central else f"`x = bundle > 0`-style use in a {vname[6:]} reaches lowering unchecked (refused only by a draftsman DataFormatError at emission)", vm.loc())

    # ---------------- R10 --------------------------------------------------------------
    rep.rule("C14-R10", "scopes nest: wherever the analyzer enters a child scope, the scope it returns to is held in a local of that activation (function bodies and loop iterations "
             "nest, so a single shared slot is overwritten by the inner scope and the analyzer stays in a leaked child scope, where a redeclaration looks like shadowing)")
    from .util import canon as _c10
    n10 = 0
    for m10 in an.methods.values():
        if m10.name == "__init__":
            continue
        c10 = _c10(m10)
        for st10 in walk_local(m10.node):
            if isinstance(st10, ast.Assign) and norm(st10.targets[0]) == "self.current_scope":
                n10 += 1
                v10 = st10.value
                t10 = c10.text(v10)
                enters = "create_child_scope(" in t10
                restores_local = isinstance(v10, ast.Name) and any(norm(d) == "self.current_scope" for d in DefUse(m10).value_exprs(v10.id))
                ok10 = enters or restores_local
                rep.check(ok10, "C14-R10", f"{m10.short}: scope switch #{n10} enters a child scope or returns to the scope saved in a local",
                          "enter" if enters else ("restore from local" if restores_local else f"`self.current_scope = {norm(v10)[:50]}`: the scope to return to is not held per activation"), m10.loc(st10))
    rep.floor("C14-R10", "scope switches in the analyzer", n10, 2)
    from .shared import borrow as _borrow14
    _borrow14(repo, rep, "C16", "C16-R5", "C14-R11", "the zero-step rule sees the step the program wrote: the transformer hands the literal step on unchanged (a default is applied only when the clause is absent)",
              select=lambda o: "step" in o.construct, floor=2)

    # ---------------- R12 --------------------------------------------------------------
    rep.rule("C14-R12", "a signal name is accepted only if the game knows it: every `True` answer of is_valid_factorio_signal is given under a membership test in the game's signal "
             "tables, or for the compiler's own `__v` names; no answer is given on the strength of the name's spelling")
    vf = repo.func("is_valid_factorio_signal")
    from .util import cguards as _cg12
    ALLOWED12 = ("signal_name in signal_data.raw", "signal_name in signal_data.type_of", "signal_name.startswith('__v')")
    trues = [r for r in walk_local(vf.node) if isinstance(r, ast.Return) and isinstance(r.value, ast.Tuple) and r.value.elts and isinstance(r.value.elts[0], ast.Constant) and r.value.elts[0].value is True]
    other = [r for r in walk_local(vf.node) if isinstance(r, ast.Return) and r not in trues and not (isinstance(r.value, ast.Tuple) and r.value.elts and isinstance(r.value.elts[0], ast.Constant) and r.value.elts[0].value is False)]
    rep.floor("C14-R12", "accepting returns of the validator", len(trues), 2)
    for r in other:
        rep.unknown("C14-R12", "is_valid_factorio_signal: a return whose verdict is not a literal", norm(r)[:80], vf.loc(r))
    for i, r in enumerate(trues):
        gs = _cg12(vf, r)
        pos = [g for g, pol in gs if pol]
        ok12 = any(g in ALLOWED12 for g in pos)
        rep.check(ok12, "C14-R12", f"is_valid_factorio_signal: accepting return #{i + 1} is a table membership", (pos[-1] if pos else "")[:90] if ok12 else
                  f"accepted under `{' and '.join(pos) or 'no test'}`: names that merely look like signals (`signal-nonexistent`) pass analysis and fail, or silently vanish, later", vf.loc(r))

    # ---------------- R13 --------------------------------------------------------------
    rep.rule("C14-R13", "types are values: the analyzer never stores into an attribute of a type it obtained from inference or from a symbol (`infer_expr_type(...)`, "
             "`get_expr_type(...)`, `<symbol>.value_type`) — the object is shared with the symbol table, so flagging it (e.g. as a comparison result) changes what every "
             "later check sees for that variable; derived types are built as new objects")
    an13 = repo.cls("SemanticAnalyzer")
    TYPE_SOURCES13 = ("infer_expr_type(", "get_expr_type(", ".value_type", "infer_binary_op_type(", "infer_unary_op_type(")
    n13 = 0
    for m13 in an13.methods.values():
        c13_ = None
        for n in walk_local(m13.node):
            tg13 = n.targets if isinstance(n, ast.Assign) else ([n.target] if isinstance(n, (ast.AugAssign, ast.AnnAssign)) else [])
            for t in tg13:
                if isinstance(t, ast.Attribute) and isinstance(t.value, ast.Name) and t.value.id != "self":
                    c13_ = c13_ or _canon(m13)
                    alts13 = c13_.alts(t.value)
                    n13 += 1
                    shared = [a for a in alts13 if any(src in a for src in TYPE_SOURCES13) and not re.match(r"^[A-Z][a-z]\w*\(", a)]
                    if shared:
                        rep.bad("C14-R13", f"{m13.short}: store into `.{t.attr}` of an inferred type", f"the object comes from `{shared[0][:90]}` and is shared with the symbol it was read from: "
                                "after `Signal big = x > 5;` the variable x itself counts as a comparison, and `x : 100` is accepted", m13.loc(n))
    rep.floor("C14-R13", "attribute stores on non-self objects in the analyzer", n13, 5)
    if not any(o.rule == "C14-R13" and o.status == "violated" for o in rep.obs):
        rep.ok("C14-R13", "no inferred type is mutated in place", f"{n13} attribute stores on non-self objects, none on a type value", an13.loc())

    # ---------------- R14 --------------------------------------------------------------
    rep.rule("C14-R14", "an explicit signal name is not discarded unvalidated: wherever the front end (transformer, analyzer) takes a signal literal apart (`X.value` read on an arm "
             "that established `isinstance(X, SignalLiteral)`), that arm either established that X names no signal (`X.signal_type is None`), or reads `X.signal_type` itself "
             "(keeps or validates it), or hands X to the type inference before — otherwise `(\"signal-W\", 5)` or an unknown name written inside a larger literal or under a "
             "projection is accepted")
    n14 = 0
    for f14 in repo.all_funcs():
        if not (".parsing." in f14.module.name + "." or ".semantic." in f14.module.name + "."):
            continue
        for iff in [n for n in walk_local(f14.node) if isinstance(n, ast.If)]:
            conj = list(iff.test.values) if isinstance(iff.test, ast.BoolOp) and isinstance(iff.test.op, ast.And) else [iff.test]
            subj = [c.args[0].id for c in conj if isinstance(c, ast.Call) and call_name(c) == "isinstance" and len(c.args) == 2 and isinstance(c.args[0], ast.Name)
                    and norm(c.args[1]) == "SignalLiteral"]
            if not subj:
                continue
            x = subj[0]
            reads = [n for st in iff.body for n in ast.walk(st) if isinstance(n, ast.Attribute) and n.attr == "value" and isinstance(n.value, ast.Name) and n.value.id == x]
            if not reads:
                continue
            n14 += 1
            none_est = any(norm(c) in (f"{x}.signal_type is None", f"not {x}.signal_type") for c in conj)
            type_reads = [n for st in iff.body for n in ast.walk(st) if isinstance(n, ast.Attribute) and n.attr == "signal_type" and isinstance(n.value, ast.Name) and n.value.id == x]
            pm14 = parents_map(f14.node)
            kept = [n for n in type_reads if not (isinstance(pm14.get(n), ast.Compare) and isinstance(pm14[n].ops[0], (ast.Is, ast.IsNot)))
                    and not isinstance(pm14.get(n), ast.UnaryOp) and not (isinstance(pm14.get(n), ast.If))]
            first_read_line = min(r.lineno for r in reads)
            inferred = [c for st in iff.body for c in ast.walk(st) if isinstance(c, ast.Call) and call_name(c) in ("get_expr_type", "infer_expr_type", "visit")
                        and c.args and isinstance(c.args[0], ast.Name) and c.args[0].id == x and c.lineno < first_read_line]
            # the inference call may sit under `if X.signal_type is not None:` (nothing to validate otherwise), and under nothing else
            def _only_type_guard(c):
                cur = c
                while cur is not iff:
                    par = pm14[cur]
                    if isinstance(par, ast.If) and par is not iff:
                        if norm(par.test) not in (f"{x}.signal_type is not None", f"{x}.signal_type") or not any(cur is b or any(cur is y for y in ast.walk(b)) for b in par.body):
                            return False
                    cur = par
                return True
            inferred = [c for c in inferred if _only_type_guard(c)]
            ok14 = none_est or bool(kept) or bool(inferred)
            how = "arm established that no signal is named" if none_est else "the name is read on the arm" if kept else "the literal is inferred (validated) first" if inferred else ""
            rep.check(ok14, "C14-R14", f"{f14.short}: a literal taken apart keeps or validates its signal name", how if ok14 else
                      f"`{x}.value` is used and `{x}.signal_type` is dropped without validation: a reserved or unknown name inside is accepted", f14.loc(reads[0]))
    rep.floor("C14-R14", "arms taking a signal literal apart", n14, 3)

    # ---------------- R15 --------------------------------------------------------------
    rep.rule("C14-R15", "a second write to one cell is refused wherever it comes from: the analyzer meets each write() once, a loop body or a function called twice lowers it again for "
             "the same cell — the lowering of a write tests the cell's id against the ids already written (error when present) and records it, before either kind of write "
             "is built")
    from .util import canon as _canon15, cguards as _cg15
    dom15, lw15 = _lowering_refuses_second_write(repo)
    rep.check(bool(dom15), "C14-R15", "lower_write_expr: the written-cell table is tested and extended before a write is built",
              "membership error + record dominate both dispatches" if dom15 else
              "no test of the cell id against the cells already written: `for i in 0..2 { m.write(i); }` and a writing function called twice are accepted", lw15.loc())

    # ---------------- R16 --------------------------------------------------------------
    rep.rule("C14-R16", "a selection is accepted only for a member or for a bundle whose members are unknown until run time: in _infer_bundle_select_type every return that types "
             "the result with the selected name sits under the bare membership test or under the bare test for the dynamic bundle class — any wider escape (an empty member "
             "set, say) accepts `{}[\"iron-plate\"]`")
    bs16 = repo.func("SemanticAnalyzer._infer_bundle_select_type")
    c16 = _canon15(bs16)
    n16 = 0
    for r in [r for r in walk_local(bs16.node) if isinstance(r, ast.Return) and r.value is not None]:
        if "make_signal_type_info(" not in c16.text(r.value):
            continue
        n16 += 1
        gs = _cg15(bs16, r)
        member = any(pol and re.fullmatch(r"expr\.signal_type in .+\.signal_types", g) for g, pol in gs)
        dynamic = any(pol and re.fullmatch(r"isinstance\([^()]*(\([^()]*\))?[^()]*, DynamicBundleValue\)", g) for g, pol in gs)
        ok16 = member or dynamic
        rep.check(ok16, "C14-R16", f"_infer_bundle_select_type: accepting return #{n16} is a member or a run-time bundle", ("member" if member else "dynamic bundle") if ok16 else
                  f"accepted under {[('' if p else 'not ') + g[:70] for g, p in gs]}", bs16.loc(r))
    rep.floor("C14-R16", "accepting returns of the bundle selection", n16, 2)


def _lowering_refuses_second_write(repo: Repo):
    """(holds, function): does lower_write_expr test the cell id against the ids already written and record it before either kind of write is built?"""
    lw15 = repo.func("MemoryLowerer.lower_write_expr")
    from .util import canon as _canon15, cguards as _cg15
    c15 = _canon15(lw15)
    adds15 = [c for c in calls_in(lw15.node, "add") if c.args and "memory_refs[" in c15.text(c.args[0])]
    errs15 = []
    for c in calls_in(lw15.node, "_error"):
        gs = _cg15(lw15, c)
        if any(pol and re.fullmatch(r"self\.parent\.memory_refs\[.+\] in self\.\w+", g) for g, pol in gs):
            errs15.append(c)
    rets15 = [r for r in walk_local(lw15.node) if isinstance(r, ast.Return) and r.value is not None and "_write(" in norm(r.value)]
    if not rets15:
        raise AnalysisError("C14-R15: lower_write_expr has no dispatching return")
    g15 = CFG(lw15.node)
    pm15 = parents_map(lw15.node)
    def _st15(n):
        while not isinstance(n, ast.stmt):
            n = pm15[n]
        return n
    same_table = bool(adds15) and bool(errs15) and any(norm(a.func.value) in " ".join(g for g, _ in _cg15(lw15, e)) for a in adds15 for e in errs15)
    dom15 = same_table and all(g15.dominates(_st15(adds15[0]), r) for r in rets15)
    return bool(dom15), lw15
