"""C13 Compiler-chosen signals are fresh — structural clauses.

R1 pool tables: nothing reserved or wildcard can be allocated; the three reserved-signal tables agree; allocation returns pool members only
R2 explicit signal names of the program reach the exclusion set (slot trace with kind = variable name vs signal name)
R3 explicit names pass through name resolution unchanged
"""

from __future__ import annotations

import ast
import re

from ..core import AnalysisError, NotConstant, Repo, Report, call_name, calls_in, chain, class_const, module_const, norm, walk_local
from ..dataflow import DefUse
from ..sites import guard_chain
from ..core import parents_map


def run(repo: Repo, rep: Report, tier: str) -> None:
    sigmod = repo.module("common.signals")
    try:
        AVAILABLE = list(module_const(repo, sigmod, "AVAILABLE_VIRTUAL_SIGNALS"))
        WILD = set(module_const(repo, sigmod, "WILDCARD_SIGNALS"))
        RESERVED = set(module_const(repo, sigmod, "RESERVED_SIGNALS"))
    except NotConstant as e:
        raise AnalysisError(f"C13: signal tables are not literal data: {e}") from e
    rep.floor("C13-R1", "allocatable virtual signals", len(AVAILABLE), 100)
    rep.floor("C13-R1", "wildcard signals", len(WILD), 3)
    rep.floor("C13-R1", "reserved signals", len(RESERVED), 1)

    rep.rule("C13-R1", "pool = AVAILABLE_VIRTUAL_SIGNALS minus an exclusion set that includes RESERVED_SIGNALS and WILDCARD_SIGNALS whenever the "
             "list contains one of them; the reserved set equals the analyzer's reserved-rule table and the write-enable literal of the memory code; "
             "allocation returns a pool member or the documented signal-0 fallback; the list has no duplicates")
    pool_fn = repo.func("SignalAnalyzer._build_available_signal_pool")
    du = DefUse(pool_fn)
    rets = [n for n in walk_local(pool_fn.node) if isinstance(n, ast.Return) and n.value is not None]
    if not rets:
        raise AnalysisError("C13-R1: pool builder has no return")
    ret = rets[-1].value
    # names the result is filtered against
    excl_names: set[str] = set()
    src_ok = False
    for n in ast.walk(ret):
        if isinstance(n, ast.Compare) and isinstance(n.ops[0], ast.NotIn):
            for lf in du.leaves(n.comparators[0]):
                excl_names.add(lf.text)
    for lf in du.leaves(ret):
        if lf.kind == "global" and lf.text == "AVAILABLE_VIRTUAL_SIGNALS":
            src_ok = True
    rep.check(src_ok, "C13-R1", "pool is drawn from AVAILABLE_VIRTUAL_SIGNALS", norm(ret)[:90], pool_fn.loc(rets[-1]))
    # an exclusion operand that is a module-level constant of the analyzer's module counts with its value (`_NEVER = RESERVED | WILDCARD`)
    excl_values: set[str] = set()
    for en in sorted(excl_names):
        if en.isidentifier():
            for modx in (pool_fn.module, sigmod):
                try:
                    val = module_const(repo, modx, en)
                except Exception:
                    continue
                if isinstance(val, (set, frozenset, list, tuple)):
                    excl_values |= {x for x in val if isinstance(x, str)}
                break
    for label, table, name in (("reserved", RESERVED, "RESERVED_SIGNALS"), ("wildcard", WILD, "WILDCARD_SIGNALS")):
        overlap = sorted(set(AVAILABLE) & table)
        ok = not overlap or name in excl_names or set(overlap) <= excl_values
        rep.check(ok, "C13-R1", f"{label} signals cannot be allocated",
                  (f"list contains {overlap}; exclusion set includes {name}" if overlap else "list contains none of them") if ok else
                  f"AVAILABLE_VIRTUAL_SIGNALS contains {overlap} and the exclusion set ({sorted(excl_names)}) does not include {name}: an untyped value can be given {overlap[0]}",
                  pool_fn.loc())
    for extra in ("self._allocated_signals", "self.referenced_signal_names"):
        rep.check(extra in excl_names, "C13-R1", f"exclusion set includes {extra}", "included" if extra in excl_names else "missing from the exclusion set", pool_fn.loc())
    dups = sorted({s for s in AVAILABLE if AVAILABLE.count(s) > 1})
    rep.check(not dups, "C13-R1", "AVAILABLE_VIRTUAL_SIGNALS has no duplicate entry", f"duplicates: {dups}" if dups else f"{len(AVAILABLE)} distinct entries", f"{sigmod.rel}:1")
    an = repo.cls("SemanticAnalyzer")
    rules = class_const(repo, an, "RESERVED_SIGNAL_RULES")
    rep.check(set(rules) == RESERVED, "C13-R1", "analyzer's reserved-rule table equals RESERVED_SIGNALS", f"{sorted(rules)} vs {sorted(RESERVED)}", an.loc())
    # write-enable literal used by the memory code
    we_lits: set[str] = set()
    for fname in ("MemoryLowerer._lower_standard_write", "MemoryBuilder._create_standard_memory", "MemoryBuilder._is_always_write"):
        f = repo.func(fname, optional=True)
        if f is None:
            continue
        for n in walk_local(f.node):
            if isinstance(n, ast.Constant) and isinstance(n.value, str) and n.value in AVAILABLE and n.value in (RESERVED | {"signal-W"}):
                we_lits.add(n.value)
    rep.check(bool(we_lits) and we_lits <= RESERVED, "C13-R1", "the memory code's write-enable signal is reserved", f"write-enable literal(s) {sorted(we_lits)}; reserved {sorted(RESERVED)}", sigmod.rel + ":1")
    alloc = repo.func("SignalAnalyzer._allocate_factorio_virtual_signal")
    dua = DefUse(alloc)
    for r in [n for n in walk_local(alloc.node) if isinstance(n, ast.Return) and n.value is not None]:
        v = r.value
        if isinstance(v, ast.Constant):
            ok = v.value == "signal-0"
            detail = f"fallback {v.value!r}"
        else:
            exprs = dua.expand(v)
            ok = any(isinstance(e, ast.Subscript) and norm(e.value) == "self._available_signal_pool" for e in exprs)
            detail = f"{norm(v)} <- {[norm(e) for e in exprs][:2]}"
        rep.check(ok, "C13-R1", f"allocator returns a pool member or signal-0: `return {__import__('fv.rules.util', fromlist=['ckey']).ckey(alloc, v)}`", detail, alloc.loc(r))

    # ---------------- R2 ---------------------------------------------------------------
    rep.rule("C13-R2", "at least one contribution of kind *signal name* (SignalLiteral.signal_type, projection target, MemDecl.signal_type, bundle "
             "selection) reaches the exclusion set for names that are built-in signals; contributions are classified by the AST attribute they read")
    contributions = []  # (func, node, kind, blocked_by_builtin_guard)
    for f in repo.all_funcs():
        if ".lowering." not in f.module.name + "." and ".semantic." not in f.module.name + ".":
            continue
        pm = None
        for c in calls_in(f.node):
            target = None
            if call_name(c) == "add" and isinstance(c.func, ast.Attribute) and norm(c.func.value).endswith("referenced_signal_names"):
                target = "referenced_signal_names"
            elif call_name(c) == "register" and isinstance(c.func, ast.Attribute) and "signal_registry" in norm(c.func.value):
                target = "signal_type_map"
            if target is None or not c.args:
                continue
            pm = pm or parents_map(f.node)
            duf = DefUse(f)
            attrs = set()
            for e in [c.args[0]] + duf.expand(c.args[0]):
                for n in ast.walk(e):
                    if isinstance(n, ast.Attribute):
                        attrs.add(n.attr)
                    if isinstance(n, ast.Name) and n.id in f.params:
                        attrs.add("param:" + n.id)
            kind = "signal-name" if attrs & {"signal_type", "target_type", "param:signal_type"} else ("variable-name" if "name" in attrs else "other")
            guards = guard_chain(f, _stmt(pm, c), pm)
            blocked = any((not pol) and "signal_data.raw" in norm(t) and isinstance(t, ast.Compare) and isinstance(t.ops[0], ast.In) for t, pol in guards)
            contributions.append((f, c, target, kind, blocked))
    rep.floor("C13-R2", "contributions to the exclusion sets", len(contributions), 2)
    rep.analysed["C13-R2:contributions"] = [f"{f.short}: {norm(c)[:60]} -> {t} kind={k} builtin-names-blocked={b}" for f, c, t, k, b in contributions]
    # per syntax slot that carries an explicit signal name: does its lowering record the name where the allocator's exclusion set sees it,
    # without the "already a game signal -> skip" guard of ensure_signal_registered?  (A direct store into the shared signal table does.)
    SLOTS = {
        "SignalLiteral.signal_type": ["ExpressionLowerer.lower_signal_literal", "ExpressionLowerer._lower_typed_literal_value"],
        "ProjectionExpr.target_type": ["ExpressionLowerer.lower_projection_expr", "ExpressionLowerer._try_fold_projection_into_source"],
        "MemDecl.signal_type": ["MemoryLowerer.lower_mem_decl"],
        "BundleLiteral member (constant part)": ["ExpressionLowerer.lower_bundle_literal"],
    }
    EXAMPLE = {
        "SignalLiteral.signal_type": "Signal a = (\"signal-A\", 5); Signal b = 7; Signal c = a + b;  -> the untyped b is allocated signal-A as well",
        "ProjectionExpr.target_type": "Signal x = 5; Signal y = (x * 2) | \"signal-A\"; Signal z = 7; Bundle r = {y, z};  -> an untyped value would share signal-A with y",
        "MemDecl.signal_type": "Memory m: \"signal-A\"; Signal b = 7; m.write(b + 1, when=b > 0); Signal r = m.read() + b;  -> the untyped b is allocated the cell's signal-A",
        "BundleLiteral member (constant part)": "Bundle b = {(\"signal-A\", 1), (\"signal-B\", 2)}; Signal k = 3; Bundle r = b * k;  -> the untyped k is allocated signal-A, a member of b (constant members never pass through lower_signal_literal)",
    }
    helper_registers_builtins = any(f.short.endswith("ensure_signal_registered") and k == "signal-name" and not b for f, c, t, k, b in contributions)
    rep.analysed["C13-R2:registration helper records built-in names"] = helper_registers_builtins
    for slot, handlers in SLOTS.items():
        hs = [repo.func(h) for h in handlers]
        direct = []
        for h in hs:
            for n in walk_local(h.node):
                if isinstance(n, ast.Subscript) and isinstance(n.ctx, ast.Store) and norm(n.value).endswith("signal_type_map"):
                    direct.append((h, n))
        unblocked = [x for x in contributions if x[0].qual in {h.qual for h in hs} and x[3] == "signal-name" and not x[4]]
        # through the registration helper: the handler passes the slot's name to ensure_signal_registered, and that helper registers its parameter
        # on a path that built-in names take (a register call that is not behind the negative `in signal_data.raw` guard)
        if not direct and not unblocked and helper_registers_builtins:
            for h in hs:
                duh = DefUse(h)
                for c in calls_in(h.node):
                    if call_name(c) != "ensure_signal_registered" or not c.args:
                        continue
                    attrs = set()
                    for e in [c.args[0]] + duh.expand(c.args[0]):
                        for n in ast.walk(e):
                            if isinstance(n, ast.Attribute):
                                attrs.add(n.attr)
                    if attrs & {"signal_type", "target_type"}:
                        unblocked.append((h, c, "signal_type_map", "signal-name", False))
        ok = bool(direct) or bool(unblocked)
        rep.check(ok, "C13-R2", f"explicit signal names written in {slot} reach the allocation exclusion set",
                  (f"{direct[0][0].short}: {norm(direct[0][1])[:70]}" if direct else f"{unblocked[0][0].short}: {norm(unblocked[0][1])[:70]}") if ok else
                  ("only ensure_signal_registered is called, which returns before registering any name already in the game database, and referenced_signal_names receives variable names: "
                   if any(call_name(c_) == "ensure_signal_registered" for h_ in hs for c_ in calls_in(h_.node)) else "the handler records the name nowhere the allocator looks: ")
                  + EXAMPLE[slot], hs[0].loc())

    # ---------------- R3 ---------------------------------------------------------------
    rep.rule("C13-R3", "resolve_signal_name returns the program's literal for a non-implicit known signal before any mapping lookup")
    rs = repo.func("SignalAnalyzer.resolve_signal_name")
    body = [s for s in rs.node.body if not (isinstance(s, ast.Expr) and isinstance(s.value, ast.Constant))]
    first = body[0] if body else None
    ok = isinstance(first, ast.If) and first.body and isinstance(first.body[0], ast.Return) and norm(first.body[0].value) == "signal_type" and "startswith('__')" in norm(first.test) and "not" in norm(first.test)
    rep.check(ok, "C13-R3", "explicit signal names are returned unchanged before any mapping", norm(first.test)[:100] if isinstance(first, ast.If) else "first statement is not the pass-through guard", rs.loc(first) if first is not None else rs.loc())
    if isinstance(first, ast.If):
        # the pass-through may depend on the name only: a test that also looks at the producer's entry (or anything else) sends some explicit names on to the
        # entry's resolved name / the mapping, i.e. to a different signal than the program wrote
        foreign = sorted({n.id for n in ast.walk(first.test) if isinstance(n, ast.Name) and n.id not in ("signal_type", "signal_data")})
        rep.check(not foreign, "C13-R3", "the pass-through for explicit names depends on the name alone",
                  "test reads only signal_type and the game's signal table" if not foreign else
                  f"the test also reads {foreign}: an explicit name whose producer was resolved differently (a member read from a bundle, a projection) is renamed to the producer's signal", rs.loc(first))

    # ---------------- R4 ---------------------------------------------------------------
    rep.rule("C13-R4", "compiler-internal type keys never reach a combinator: in EntityPlacer every signal-valued property of a combinator placement that is taken from an IR field "
             "(`op.*`) passes through one of SignalAnalyzer's resolvers (resolve_signal_name / get_signal_name / get_operand_for_combinator)")
    from .util import canon as _canon4
    from ..core import kwarg as _kwarg4
    RESOLVERS = ("resolve_signal_name(", "get_signal_name(", "get_operand_for_combinator(")
    SIGNAL_KEYS = {"signal_name", "output_signal", "left_operand", "right_operand", "signals", "output_value"}
    ep4 = repo.cls("EntityPlacer")
    n4 = 0
    for m4 in ep4.methods.values():
        c4 = None
        for call4 in calls_in(m4.node, "create_and_add_placement"):
            et4 = _kwarg4(call4, "entity_type")
            if not (isinstance(et4, ast.Constant) and str(et4.value).endswith("-combinator")):
                continue
            for k4 in call4.keywords:
                if k4.arg not in SIGNAL_KEYS:
                    continue
                c4 = c4 or _canon4(m4)
                t4 = c4.text(k4.value)
                if "op." not in t4:
                    continue
                n4 += 1
                ok4 = any(r4 in t4 for r4 in RESOLVERS)
                rep.check(ok4, "C13-R4", f"{m4.short}: `{k4.arg}` of the {et4.value} is resolved to a Factorio signal", t4[:110] if ok4 else
                          f"`{k4.arg}={t4[:60]}` is stored unresolved: a member typed with `x.type` of an untyped x keeps the internal key (`__v1`), which is not a signal", m4.loc(call4))
    rep.floor("C13-R4", "IR-derived signal properties on combinator placements", n4, 10)

    # ---------------- R5 ---------------------------------------------------------------
    from .shared import borrow as _borrow
    _borrow(repo, rep, "C10", "C10-R3", "C13-R5", "an explicitly typed value keeps the signal name the program wrote: common-subexpression elimination may merge two nodes only if their output types agree, "
            "i.e. the CSE key reads the output type of every keyed node kind", select=lambda o: o.construct.endswith(".output_type"), floor=2)

    # ---------------- R6 ---------------------------------------------------------------
    _borrow(repo, rep, "C07", "C07-R5", "C13-R6", "the signals the compiler picks reach the blueprint: the table the allocator writes is the very object the emitter reads")

    # ---------------- R7 ---------------------------------------------------------------
    rep.rule("C13-R7", "internal names of untyped values come from one counter: the lowerer adopts the analyzer's registry object, every wrapper asks `self.signal_registry` at the "
             "moment of the call, and no holder captures a piece of a registry (a bound method, its counter, its table) in an attribute of its own — the registry is replaced "
             "after the holder is built, and a captured piece keeps counting in the discarded one, so two values get the same `__vN`")
    reg = repo.cls("SignalTypeRegistry")
    ai = reg.methods["allocate_implicit"]
    incs = [n for n in walk_local(ai.node) if isinstance(n, ast.AugAssign) and isinstance(n.op, ast.Add) and norm(n.target) == "self._implicit_counter"]
    rets7 = [n for n in walk_local(ai.node) if isinstance(n, ast.Return) and n.value is not None]
    c7 = __import__("fv.rules.util", fromlist=["canon"]).canon(ai)
    ok7 = bool(incs) and bool(rets7) and all("self._implicit_counter" in c7.text(r.value) for r in rets7) and all(CFG_dom(ai, incs[0], r) for r in rets7)
    rep.check(ok7, "C13-R7", "allocate_implicit advances the counter before naming", "counter += 1 dominates the return of a name built from it" if ok7 else "the name is not built from a freshly advanced counter", ai.loc())
    lw = repo.func("ASTLowerer.__init__")
    adopt = [n for n in walk_local(lw.node) if isinstance(n, ast.Assign) and norm(n.targets[0]) == "self.ir_builder.signal_registry"]
    rep.check(len(adopt) == 1 and norm(adopt[0].value) == "self.semantic.signal_registry", "C13-R7", "the lowerer's builder adopts the analyzer's registry (same object)",
              norm(adopt[0]) if adopt else "no adoption store", lw.loc(adopt[0]) if adopt else lw.loc())
    n7 = 0
    for f7 in repo.all_funcs():
        if f7.cls is None or f7.cls.name == "SignalTypeRegistry" or f7.name != "allocate_implicit_type":
            continue
        cf7 = __import__("fv.rules.util", fromlist=["canon"]).canon(f7)
        for r in [n for n in walk_local(f7.node) if isinstance(n, ast.Return) and n.value is not None]:
            n7 += 1
            t7 = cf7.text(r.value)
            ok = t7 in ("self.signal_registry.allocate_implicit()", "self.signal_registry.allocate_implicit_type()")
            rep.check(ok, "C13-R7", f"{f7.short}: asks the current registry", t7 if ok else f"returns `{t7[:80]}`: not a call on `self.signal_registry` evaluated now", f7.loc(r))
    rep.floor("C13-R7", "wrappers of the implicit-name allocator", n7, 2)
    holders = [c for c in repo.all_classes() if any(isinstance(n, ast.Assign) and any(norm(t) == "self.signal_registry" for t in n.targets) for m in c.methods.values() for n in walk_local(m.node))]
    rep.floor("C13-R7", "classes holding a registry", len(holders), 2)
    for c in holders:
        caps = []
        for m in c.methods.values():
            for n in walk_local(m.node):
                if isinstance(n, ast.Assign) and any(isinstance(t, ast.Attribute) and isinstance(t.value, ast.Name) and t.value.id == "self" for t in n.targets):
                    v = n.value
                    if isinstance(v, ast.Attribute) and norm(v).startswith("self.signal_registry."):
                        caps.append((m, n))
        rep.check(not caps, "C13-R7", f"{c.name}: no piece of the registry is captured in an attribute", "none" if not caps else
                  f"`{norm(caps[0][1])[:90]}` keeps a piece of the registry the holder was built with", (caps[0][0].loc(caps[0][1]) if caps else c.loc()))

    # ---------------- R8 ---------------------------------------------------------------
    rep.rule("C13-R8", "a usage entry answers for its own node only: wherever resolve_signal_name is given an entry, the type it resolves is that node's own type (the entry of "
             "`op.node_id` with `op.output_type`, the entry of a reference's source with that reference's type); resolving another name — a member key of a bundle "
             "constant, say — against the entry returns the entry's resolved name (`signal-each` for a bundle) instead of the member's")
    n8 = 0
    for f8 in repo.all_funcs():
        if ".layout." not in f8.module.name + ".":
            continue
        c8 = None
        for call8 in calls_in(f8.node, "resolve_signal_name"):
            if len(call8.args) < 2:
                continue
            c8 = c8 or __import__("fv.rules.util", fromlist=["canon"]).canon(f8)
            a8, e8 = c8.text(call8.args[0]), c8.text(call8.args[1])
            n8 += 1
            m_node = re.fullmatch(r"self\.signal_usage\.get\((.+)\.node_id\)", e8)
            m_src = re.fullmatch(r"self\.signal_usage\.get\((.+)\.source_id\)", e8)
            if m_node:
                ok8 = a8 == f"{m_node.group(1)}.output_type"
            elif m_src:
                ok8 = a8 == f"{m_src.group(1)}.signal_type"
            else:
                ok8 = e8 in ("None",) or e8 in f8.params or a8 in f8.params  # forwarded unchanged from the caller
            rep.check(ok8, "C13-R8", f"{f8.short}: resolve_signal_name({__import__('fv.rules.util', fromlist=['ckey']).ckey(f8, call8.args[0])}, <entry>) pairs a type with its own entry",
                      f"entry {e8[:60]}" if ok8 else f"type `{a8[:60]}` is resolved against the entry `{e8[:60]}` of a different node", f8.loc(call8))
    rep.floor("C13-R8", "resolve_signal_name calls with an entry", n8, 5)

    # ---------------- R9 ---------------------------------------------------------------
    rep.rule("C13-R9", "a variable's name is not its signal: in _resolve_signal_identity the candidates tried against the game's signal table come from types (the declared type of a "
             "literal, the node's signal type); the label — the variable name — is tried at most when no type is known, otherwise `Signal coal = 5;` is emitted on the item "
             "signal coal and renaming the variable changes the circuit")
    rsi = repo.func("SignalAnalyzer._resolve_signal_identity")
    crsi = __import__("fv.rules.util", fromlist=["canon"]).canon(rsi)
    from .util import cguards as _cg9
    apps9 = [c for c in calls_in(rsi.node, "append") if c.args and crsi.text(c.args[0]).endswith(".debug_label")]
    for c9 in apps9:
        gs9 = _cg9(rsi, _stmt(parents_map(rsi.node), c9))
        # allowed: under a guard that says no typed candidate exists (`not candidates` / `not entry.signal_type` ...)
        # the enclosing test has a conjunct `not <the candidate list itself>` (same local on both sides, so a rename cannot matter)
        recv9 = c9.func.value.id if isinstance(c9.func.value, ast.Name) else None
        pm9 = parents_map(rsi.node)
        encl = _stmt(pm9, c9)
        encl_if = pm9.get(encl)
        conj = []
        if isinstance(encl_if, ast.If):
            conj = list(encl_if.test.values) if isinstance(encl_if.test, ast.BoolOp) and isinstance(encl_if.test.op, ast.And) else [encl_if.test]
        ok9 = recv9 is not None and any(isinstance(t, ast.UnaryOp) and isinstance(t.op, ast.Not) and isinstance(t.operand, ast.Name) and t.operand.id == recv9 for t in conj)
        rep.check(ok9, "C13-R9", "_resolve_signal_identity: the label is a candidate only when no type is known", "guarded by the absence of typed candidates" if ok9 else
                  f"appended under {[('' if p else 'not ') + g[:50] for g, p in gs9]}: an untyped value whose variable is called like a game signal (coal, water, stone, wood) is put on that signal", rsi.loc(c9))
    if not apps9:
        rep.ok("C13-R9", "_resolve_signal_identity: the label is a candidate only when no type is known", "the label is never a candidate", rsi.loc())


    # ---------------- R10 --------------------------------------------------------------
    rep.rule("C13-R10", "a bundle literal holds each channel once: in the analyzer's bundle-literal inference a member name enters the member set only on the arm where it was "
             "not yet seen, the test is the bare membership in the table of seen names (no further condition that lets a repeated name through), and the other arm reports "
             "the duplicate — two members on one channel are summed by the wire, so `{x, x}` would silently become 2x")
    bl = repo.func("SemanticAnalyzer._infer_bundle_literal_type")
    pm10 = parents_map(bl.node)
    n10 = 0
    for add in calls_in(bl.node, "add"):
        if not (isinstance(add.func, ast.Attribute) and add.args and isinstance(add.args[0], ast.Name)):
            continue
        member = add.args[0].id
        st10 = _stmt(pm10, add)
        arm = pm10.get(st10)
        n10 += 1
        key10 = f"_infer_bundle_literal_type: member insert #{n10} is the not-seen arm of a bare membership test"
        if not isinstance(arm, ast.If):
            rep.bad("C13-R10", key10, "the insert is not under a membership test at all", bl.loc(add))
            continue
        t10 = arm.test
        neg = False
        if isinstance(t10, ast.UnaryOp) and isinstance(t10.op, ast.Not):
            t10, neg = t10.operand, True
        bare = isinstance(t10, ast.Compare) and len(t10.ops) == 1 and isinstance(t10.ops[0], (ast.In, ast.NotIn)) and isinstance(t10.left, ast.Name) and t10.left.id == member
        if not bare:
            rep.bad("C13-R10", key10, f"guard `{norm(arm.test)[:90]}` is not the bare test `<name> in <seen>`: a repeated member passes when the extra condition fails", bl.loc(arm))
            continue
        seen_in = isinstance(t10.ops[0], ast.In) != neg  # True: the If body is the seen arm
        in_body = any(st10 is x or any(st10 is y for y in ast.walk(x)) for x in arm.body)
        other = arm.orelse if in_body else arm.body
        table = norm(t10.comparators[0])
        stored = any(isinstance(x, ast.Assign) and isinstance(x.targets[0], ast.Subscript) and norm(x.targets[0].value) == table and norm(x.targets[0].slice) == member
                     for x in (arm.body if in_body else arm.orelse)) or norm(add.func.value) == table
        err = any(call_name(c) == "error" for x in other for c in ast.walk(x) if isinstance(c, ast.Call))
        ok10 = (in_body != seen_in) and stored and err
        rep.check(ok10, "C13-R10", key10, "inserted when unseen, recorded in the table that is tested, the seen arm reports an error" if ok10 else
                  ("inserted on the arm where the name was already seen" if in_body == seen_in else "the name is not recorded in the tested table" if not stored else "the seen arm reports no error"), bl.loc(arm))
    rep.floor("C13-R10", "member inserts in the bundle-literal inference", n10, 2)

    # ---------------- R11 --------------------------------------------------------------
    rep.rule("C13-R11", "the pool hands out each entry once: the allocator returns the pool entry at the cursor it then advances by one — an entry read at any other index is "
             "handed out again when the cursor reaches it, so two untyped values share a channel")
    al = repo.func("SignalAnalyzer._allocate_factorio_virtual_signal")
    cal = __import__("fv.rules.util", fromlist=["canon"]).canon(al)
    incs11 = [n for n in walk_local(al.node) if isinstance(n, ast.AugAssign) and isinstance(n.op, ast.Add) and isinstance(n.target, ast.Attribute)
              and isinstance(n.value, ast.Constant) and n.value.value == 1]
    if len(incs11) != 1:
        raise AnalysisError(f"C13-R11: expected one cursor advance in {al.short}, found {len(incs11)}")
    cursor = norm(incs11[0].target)
    n11 = 0
    for r11 in [n for n in walk_local(al.node) if isinstance(n, ast.Return) and n.value is not None]:
        for alt in cal.alts(r11.value, r11):
            if alt.startswith(("'", '"')):
                continue  # the fixed fallback when the pool is empty
            n11 += 1
            m11 = re.fullmatch(r"(self\.\w+)\[(.+)\]", alt)
            ok11 = bool(m11) and m11.group(2) == cursor
            rep.check(ok11, "C13-R11", f"{al.short}: returns the entry at the cursor", alt if ok11 else f"returns `{alt[:80]}`, not `<pool>[{cursor}]`", al.loc(r11))
        if not all(a.startswith(("'", '"')) for a in cal.alts(r11.value, r11)):
            okd = CFG_dom(al, incs11[0], r11)
            rep.check(okd, "C13-R11", f"{al.short}: the cursor advances before every return of a pool entry", "advance dominates the return" if okd else "a return of a pool entry that does not advance the cursor", al.loc(r11))
    rep.floor("C13-R11", "pool-entry returns of the allocator", n11, 1)

    # ---------------- R12 --------------------------------------------------------------
    rep.rule("C13-R12", "a projection onto a name puts the value on that name: every literal the declaration-time simplification builds in place of `expr | \"T\"` carries the "
             "projection's own target — the outermost one of a chain — as its signal type")
    sp = repo.func("SemanticAnalyzer._try_simplify_signal_projection")
    csp = __import__("fv.rules.util", fromlist=["canon"]).canon(sp)
    target12 = f"{sp.params[1] if sp.params[0] == 'self' else sp.params[0]}.target_type"
    n12 = 0
    for c in calls_in(sp.node, "SignalLiteral"):
        kw = next((k.value for k in c.keywords if k.arg == "signal_type"), None)
        if kw is None:
            continue
        n12 += 1
        t12 = csp.text(kw)
        rep.check(t12 == target12, "C13-R12", f"_try_simplify_signal_projection: literal #{n12} carries the projection's target", t12 if t12 == target12 else
                  f"signal_type={t12[:80]}, not {target12}: `(50 | \"signal-red\") | \"signal-B\"` is emitted on the inner name", sp.loc(c))
    rep.floor("C13-R12", "literals built by the projection simplification", n12, 3)

    # ---------------- R13 --------------------------------------------------------------
    _borrow(repo, rep, "C15", "C15-R19", "C13-R13", "an untyped value never lands on a name the program wrote: a constant declared in a function or loop body takes its channel from its own "
            "symbol or gets a fresh one, not from a global variable that happens to have the same name", floor=2)


def CFG_dom(f, a, b) -> bool:
    from ..cfg import CFG

    return CFG(f.node).dominates(a, b)


def _stmt(pm, n):
    cur = n
    while not isinstance(cur, ast.stmt) and cur in pm:
        cur = pm[cur]
    return cur
