"""C17 Imports are textual inclusion; the standard library meets its contracts — structural clauses.

R1 terminate / once: the processed-files guard around the recursive expansion, keyed by the resolved path, seeded with the file being compiled
R2 search order and cwd independence of the default import path (constant-evaluated with __file__ bound to the module's real location)
R3 library contracts of the selection-only functions by exhaustive enumeration of order types
"""

from __future__ import annotations

import ast
import re
from pathlib import PurePosixPath

from ..cfg import CFG
from ..core import AnalysisError, Repo, Report, call_name, calls_in, kwarg, norm, walk_local
from ..dataflow import DefUse
from ..facto import NotSelectionOnly, functions, parse_facto, run_function, weak_orderings


class PathVal:
    def __init__(self, p: PurePosixPath, absolute: bool) -> None:
        self.p, self.absolute = p, absolute


def _eval_path(e: ast.AST, file_abs: PurePosixPath) -> PathVal | str:
    if isinstance(e, ast.Constant) and isinstance(e.value, str):
        return e.value
    if isinstance(e, ast.Name) and e.id == "__file__":
        return PathVal(file_abs, True)
    if isinstance(e, ast.Call) and call_name(e) == "Path" and len(e.args) == 1:
        v = _eval_path(e.args[0], file_abs)
        return v if isinstance(v, PathVal) else PathVal(PurePosixPath(v), PurePosixPath(v).is_absolute())
    if isinstance(e, ast.Call) and isinstance(e.func, ast.Attribute) and e.func.attr in ("resolve", "absolute"):
        v = _eval_path(e.func.value, file_abs)
        assert isinstance(v, PathVal)
        return PathVal(v.p, True)
    if isinstance(e, ast.Attribute) and e.attr == "parent":
        v = _eval_path(e.value, file_abs)
        assert isinstance(v, PathVal)
        return PathVal(v.p.parent, v.absolute)
    if isinstance(e, ast.BinOp) and isinstance(e.op, ast.Div):
        l, r = _eval_path(e.left, file_abs), _eval_path(e.right, file_abs)
        assert isinstance(l, PathVal)
        return PathVal(l.p / (r if isinstance(r, str) else str(r.p)), l.absolute)
    if isinstance(e, ast.Call) and call_name(e) == "str" and len(e.args) == 1:
        return _eval_path(e.args[0], file_abs)
    if isinstance(e, ast.BinOp) and isinstance(e.op, ast.Add):
        l, r = _eval_path(e.left, file_abs), _eval_path(e.right, file_abs)
        return ("\0".join([]) or "") + _to_s(l) + _to_s(r)
    raise AnalysisError(f"C17-R2: cannot constant-evaluate {norm(e)[:60]}")


def _to_s(v) -> str:
    if isinstance(v, PathVal):
        return ("A:" if v.absolute else "R:") + str(v.p)
    return v


def run(repo: Repo, rep: Report, tier: str) -> None:
    pre = repo.func("preprocess_imports")
    res = repo.func("resolve_import_path")
    parse = repo.func("DSLParser.parse")

    # ---------------- R1 ---------------------------------------------------------------
    rep.rule("C17-R1", "every recursive expansion is dominated by `p in processed_files -> skip` and `processed_files.add(p)` for the resolved path p; "
             "the same set is handed down; the entry point seeds the set with the file being compiled")
    cfg = CFG(pre.node)
    recs = [s for s in cfg.stmts() if any(call_name(c) == pre.name for c in calls_in(s)) and not isinstance(s, (ast.If, ast.For, ast.While, ast.With, ast.Try))]
    rep.floor("C17-R1", "recursive expansion sites", len(recs), 1)
    du = DefUse(pre)
    for r in recs:
        call = [c for c in calls_in(r) if call_name(c) == pre.name][0]
        pf = kwarg(call, "processed_files") or (call.args[2] if len(call.args) > 2 else None)
        rep.check(pf is not None and norm(pf) == "processed_files", "C17-R1", "recursive expansion shares the processed-files set", f"processed_files={norm(pf)}", pre.loc(call))
        adds = [s for s in cfg.stmts() if isinstance(s, ast.Expr) and isinstance(s.value, ast.Call) and norm(s.value.func) == "processed_files.add" and cfg.dominates(s, r)]
        rep.check(bool(adds), "C17-R1", "the file is recorded as processed before it is expanded", norm(adds[0]) if adds else "no processed_files.add dominates the recursive call", pre.loc(r))
        skips = [s for s in cfg.stmts() if isinstance(s, ast.If) and isinstance(s.test, ast.Compare) and isinstance(s.test.ops[0], ast.In) and norm(s.test.comparators[0]) == "processed_files"
                 and s.body and isinstance(s.body[-1], ast.Continue) and cfg.dominates(s, r)]
        rep.check(bool(skips), "C17-R1", "an already processed file is skipped", norm(skips[0].test) if skips else "no `in processed_files -> continue` dominates the recursive call", pre.loc(r))
        if adds and skips:
            key = norm(adds[0].value.args[0])
            same = norm(skips[0].test.left) == key
            srcs = [norm(v) for v in du.value_exprs(key)] if key.isidentifier() else []
            resolved = any(res.name in s for s in srcs)
            rep.check(same and resolved, "C17-R1", "skip test and record use the resolved path",
                      f"key {key} <- {srcs}", pre.loc(adds[0]))
    rr = [n for n in walk_local(res.node) if isinstance(n, ast.Return) and n.value is not None]
    rep.check(bool(rr) and all(norm(x.value).endswith(".resolve()") for x in rr), "C17-R1", "resolve_import_path returns a resolved (canonical) path",
              "; ".join(norm(x.value) for x in rr), res.loc())
    pcs = calls_in(parse.node, pre.name)
    rep.floor("C17-R1", "entry calls of the preprocessor", len(pcs), 1)
    for c in pcs:
        pf = kwarg(c, "processed_files") or (c.args[2] if len(c.args) > 2 else None)
        seeded = False
        if pf is not None:
            dup = DefUse(parse)
            for e in [pf] + dup.expand(pf):
                if any(isinstance(n, ast.Call) and isinstance(n.func, ast.Attribute) and n.func.attr == "resolve" and "file_path" in norm(n.func.value) for n in ast.walk(e)):
                    seeded = True
        rep.check(seeded, "C17-R1", "the file being compiled is registered as processed before expansion",
                  f"processed_files={norm(pf)}" if pf is not None else "entry call passes no processed set: a cycle back to the starting file pastes its text a second time", parse.loc(c))

    # ---------------- R2 ---------------------------------------------------------------
    rep.rule("C17-R2", "the importing file's directory is searched first and as an absolute path; for every bundled library file and every documented "
             "spelling of its import an *absolute* default entry E exists with E/spelling present in the tree")
    mod = pre.module
    default = None
    for n in ast.walk(mod.tree):
        if isinstance(n, ast.Assign) and any(isinstance(t, ast.Subscript) and "FACTORIO_IMPORT_PATH" in norm(t) for t in n.targets):
            default = n.value
    if default is None:
        raise AnalysisError("C17-R2: default FACTORIO_IMPORT_PATH assignment not found")
    file_abs = PurePosixPath("/") / mod.rel  # repository root stands for "/"
    s = _eval_path(default, file_abs)
    assert isinstance(s, str)
    entries = []
    for chunk in _split_entries(s):
        absolute = chunk.startswith("A:")
        path = chunk[2:] if chunk[:2] in ("A:", "R:") else chunk
        entries.append((path, absolute))
    rep.analysed["C17-R2:default entries (repo root = /)"] = [f"{'abs' if a else 'cwd-relative'}:{p}" for p, a in entries]
    rep.floor("C17-R2", "default search entries", len(entries), 3)
    ins = [c for c in calls_in(res.node, "insert") if c.args and isinstance(c.args[0], ast.Constant) and c.args[0].value == 0]
    ok_first = bool(ins) and "base_path" in norm(ins[0].args[1]) and "resolve()" in norm(ins[0].args[1])
    rep.check(ok_first, "C17-R2", "the importing file's directory is tried first, as an absolute path", norm(ins[0]) if ins else "no insert(0, base)", res.loc(ins[0]) if ins else res.loc())
    from .util import canon as _canon
    cres = _canon(res)
    loop_ok = bool(ins) and isinstance(ins[0].func, ast.Attribute) and isinstance(ins[0].func.value, ast.Name) and any(
        isinstance(n, ast.For) and isinstance(n.iter, ast.Name) and n.iter.id == ins[0].func.value.id and "FACTORIO_IMPORT_PATH" in cres.text(n.iter) for n in walk_local(res.node))
    rep.check(loop_ok, "C17-R2", "entries are tried in list order", "for base in base_paths", res.loc())
    cparse = _canon(parse)
    pcs = calls_in(parse.node, "preprocess_imports")
    alts = cparse.alts(pcs[0].args[1]) if pcs and len(pcs[0].args) >= 2 else []
    file_alts = [a for a in alts if "filename" in a]
    ok_bp = bool(file_alts) and all(a in ("Path(filename).parent", "(Path.cwd() / Path(filename)).resolve().parent", "ANY((Path.cwd() / Path(filename)).resolve(), Path(filename)).parent",
                                         "((Path.cwd() / Path(filename)).resolve() if not Path(filename).is_absolute() else Path(filename)).parent",
                                         "(Path(filename) if Path(filename).is_absolute() else (Path.cwd() / Path(filename)).resolve()).parent") for a in file_alts)
    rep.check(ok_bp, "C17-R2", "base path of a file input is the directory of that file", "; ".join(file_alts) if alts else "missing", parse.loc(pcs[0]) if pcs else parse.loc())
    cpre = _canon(pre)
    recs = [c_ for c_ in calls_in(pre.node, pre.name)]
    rsv = [c_ for c_ in calls_in(pre.node, res.name)]
    rsv_txt = cpre.text(rsv[0]) if rsv else "?"
    for rc_ in recs:
        bp_ = kwarg(rc_, "base_path") if kwarg(rc_, "base_path") is not None else (rc_.args[1] if len(rc_.args) > 1 else None)
        t_ = cpre.text(bp_) if bp_ is not None else ""
        ok_ = t_ == rsv_txt + ".parent"
        rep.check(ok_, "C17-R2", "imports inside an imported file are looked up next to that file (recursion passes the imported file's directory)",
                  "base_path = <resolved import>.parent" if ok_ else f"recursion passes base_path={t_[-60:] or 'nothing'}: a nested import is searched next to the root file (then in the working directory), not next to its importer", pre.loc(rc_))
    rep.floor("C17-R2", "recursive expansion sites", len(recs), 1)
    libdir = repo.root / "lib"
    libs = sorted(p.name for p in libdir.glob("*.facto")) if libdir.is_dir() else []
    rep.floor("C17-R2", "bundled library files", len(libs), 3)
    spellings: dict[str, set[str]] = {l: set() for l in libs}
    corpus = []
    for pat in ("lib/*.facto", "example_programs/*.facto", "doc/*.md", "README.md", "LANGUAGE_SPEC.md"):
        for p in sorted(repo.root.glob(pat)):
            corpus.append((str(p.relative_to(repo.root)), p.read_text(encoding="utf-8", errors="replace")))
    for rel, text in corpus:
        for m in re.finditer(r'import\s+"([^"]+)"', text):
            sp = m.group(1)
            base = sp.rsplit("/", 1)[-1]
            if not base.endswith(".facto"):
                base += ".facto"
            if base in spellings and (sp.startswith("lib/") or "/" not in sp):
                if "/" in sp or rel.startswith("example_programs/") or rel.startswith("lib/"):
                    spellings[base].add(sp if sp.endswith(".facto") else sp + ".facto")
    n_sp = 0
    for lib, sps in spellings.items():
        for sp in sorted(sps):
            n_sp += 1
            hits = [(p, a) for p, a in entries if (repo.root / p.lstrip("/") / sp).exists()] if True else []
            abs_hits = [p for p, a in hits if a]
            rep.check(bool(abs_hits), "C17-R2", f'import "{sp}" resolves through an absolute default entry',
                      f"found via {abs_hits[0]}" if abs_hits else
                      f"only found via cwd-relative entr{'y' if len(hits)==1 else 'ies'} {[p for p, _ in hits]}: works only when the compiler is started from the repository root", mod.rel + ":1")
    rep.floor("C17-R2", "documented library import spellings", n_sp, 3)

    # ---------------- R3 ---------------------------------------------------------------
    rep.rule("C17-R3", "selection-only library functions (comparisons, `cond : value`, +, -, &&, constants) are evaluated for one representative of every "
             "weak ordering of their arguments together with 0 (exact abstraction for such bodies) and must equal the documented mathematical definition")
    tree = parse_facto(repo, "lib/math.facto")
    fns = functions(tree)
    ORACLE = {
        "abs": (1, lambda x: abs(x), None),
        "sign": (1, lambda x: (x > 0) - (x < 0), None),
        "min": (2, lambda a, b: min(a, b), None),
        "max": (2, lambda a, b: max(a, b), None),
        "clamp": (3, lambda x, lo, hi: min(max(x, lo), hi), lambda x, lo, hi: lo <= hi),
        "between": (3, lambda x, lo, hi: int(lo <= x <= hi), None),
    }
    for name, (arity, oracle, domain) in ORACLE.items():
        if name not in fns:
            rep.bad("C17-R3", f"library function {name} exists", "documented function missing from lib/math.facto", "lib/math.facto:1")
            continue
        params, _ = fns[name]
        if len(params) != arity:
            rep.bad("C17-R3", f"{name}: arity {arity}", f"has {len(params)} parameters", "lib/math.facto:1")
            continue
        names = [p for _, p in params]
        vals = weak_orderings(names)
        bad = None
        n_checked = 0
        try:
            for v in vals:
                args = [v[n] for n in names]
                if domain is not None and not domain(*args):
                    continue
                n_checked += 1
                got = run_function(fns[name], v)
                want = oracle(*args)
                if got != want:
                    bad = (v, got, want)
                    break
        except NotSelectionOnly as e:
            rep.unknown("C17-R3", f"{name} meets its documented contract on every order type", f"body is not selection-only: {e}", "lib/math.facto:1")
            continue
        rep.check(bad is None, "C17-R3", f"{name} meets its documented contract on every order type",
                  f"{n_checked} orderings of ({', '.join(names)}, 0) checked" if bad is None else f"{name}({', '.join(f'{k}={x}' for k, x in bad[0].items())}) = {bad[1]}, documented value {bad[2]}", "lib/math.facto:1")
    # selection skeleton of mod_positive: r >= 0 -> r, r < 0 -> r + |b|
    if "mod_positive" in fns:
        params, stmts = fns["mod_positive"]
        import copy
        # evaluate the body with r treated as a free argument: replace the first declaration
        try:
            skeleton = (params + [("Signal", "r")], stmts[1:])
            bad = None
            n = 0
            for v in weak_orderings(["a", "b", "r"]):
                if v["b"] == 0:
                    continue
                n += 1
                got = run_function(skeleton, v)
                want = v["r"] if v["r"] >= 0 else v["r"] + abs(v["b"])
                if got != want:
                    bad = (v, got, want)
                    break
            rep.check(bad is None, "C17-R3", "mod_positive: selection skeleton (r >= 0 -> r, r < 0 -> r + |b|)",
                      f"{n} orderings checked" if bad is None else f"{bad}", "lib/math.facto:1")
        except NotSelectionOnly as e:
            rep.unknown("C17-R3", "mod_positive: selection skeleton (r >= 0 -> r, r < 0 -> r + |b|)", str(e), "lib/math.facto:1")

    # ---------------- R4 ---------------------------------------------------------------
    from .shared import borrow as _borrow
    _borrow(repo, rep, "C10", "C10-R9", "C17-R4", "library functions written with `cond : value` return their documented value for constant arguments too: folding a decider keeps a selected 0")

    # ---------------- R5 ---------------------------------------------------------------
    rep.rule("C17-R5", "library functions see their own parameters: inside an inlined body the name resolvers consult the parameter environment before the caller's names (shared with C06-R5/C15-R5)")
    from .shared import identifier_resolvers as _idres17
    _idres17(repo, rep, "C17-R5")

    # ---------------- R6 ---------------------------------------------------------------
    from .shared import borrow as _borrow17
    _borrow17(repo, rep, "C01", "C01-R10", "C17-R6", "library functions written with `cond : <constant expression>` return that constant: an inlined literal output is not a copy-count output",
              select=lambda o: "only when the output value stays a signal" in o.construct, floor=2)

    # ---------------- R7 ---------------------------------------------------------------
    _borrow17(repo, rep, "C11", "C11-R2", "C17-R7", "library functions called with constant arguments are folded with run-time arithmetic: the bit helpers rely on `1 << pos` for every "
              "pos in 0..31", select=lambda o: "folds '<<'" in o.construct or "folds '>>'" in o.construct or "folds 'AND'" in o.construct or "folds 'OR'" in o.construct or "folds 'XOR'" in o.construct, floor=4)

    # ---------------- R8 ---------------------------------------------------------------
    rep.rule("C17-R8", "the parser learns where the importing file is: for a file input every front end passes the file's path — absolute, or as given (the parser resolves it against "
             "the working directory) — as the source name, never a form that has lost the directory (`.name`, `.stem`, basename); the directory is the first place an import is looked up")
    from ..pipeline import mains as _mains17, compile_funcs as _cfs17
    n17 = 0
    DROPS17 = (".name", ".stem", "basename(", ".parts[-1]")
    for f17 in [m for m, _ in _mains17(repo)] + list(_cfs17(repo)):
        c17 = _canon(f17)
        for call17 in calls_in(f17.node):
            nm17 = call_name(call17)
            if nm17 not in {cf.name for cf in _cfs17(repo)} | {"parse", "parse_file"}:
                continue
            arg = kwarg(call17, "source_name") or kwarg(call17, "filename") or (call17.args[1] if nm17 == "parse" and len(call17.args) > 1 else None)
            if arg is None:
                continue
            for a17 in c17.alts(arg):
                if a17.startswith("'") or a17 in f17.params:
                    continue  # literal placeholder for string input, or forwarded parameter
                n17 += 1
                lost = [d for d in DROPS17 if d in a17]
                rep.check(not lost, "C17-R8", f"{f17.short}: source name handed to {nm17} keeps the file's directory", a17[:80] if not lost else
                          f"`{a17[:80]}` drops the directory: `import helper.facto` in dir/main.facto is then looked up in the working directory — not found, or another file of that name is included", f17.loc(call17))
    rep.floor("C17-R8", "file-derived source names handed to the parser", n17, 1)

    # ---------------- R9 ---------------------------------------------------------------
    rep.rule("C17-R9", "library contracts hold for all 32-bit arguments: no library function tests the sign or size of a product of two unbounded signals (parameters of type Signal "
             "or values derived from them without a bound) — such a product wraps, and `a * b < 0` is not `the signs differ`")
    from lark import Tree as _T9, Token as _K9
    from ..facto import parse_facto as _pf9, functions as _fn9

    def _collapse(t):
        """strip single-child wrapper rules"""
        while isinstance(t, _T9) and len([c for c in t.children if c is not None]) == 1:
            t = [c for c in t.children if c is not None][0]
        return t

    def _unbounded(t, env):
        t = _collapse(t)
        if isinstance(t, _K9):
            return env.get(str(t), False)
        if isinstance(t, _T9):
            if t.data == "lvalue":
                return env.get(str(t.children[0]), False)
            if t.data in ("comparison", "logic_and", "logic_or", "output_spec") and len([c for c in t.children if c is not None]) > 1:
                return False  # 0/1 results and selections are handled through their parts
            return any(_unbounded(c, env) for c in t.children if c is not None)
        return False

    n_fn9 = n_prod9 = 0
    for lib in ("lib/math.facto", "lib/memory_patterns.facto"):
        try:
            tree9 = _pf9(repo, lib)
        except AnalysisError:
            continue
        for fname9, (params9, stmts9) in _fn9(tree9).items():
            n_fn9 += 1
            env9 = {p: (ty == "Signal") for ty, p in params9}
            wrapping: set[str] = set()
            for st in stmts9:
                for node in st.iter_subtrees_topdown():
                    if node.data == "decl_stmt" and len(node.children) >= 3 and isinstance(node.children[1], _K9):
                        nm = str(node.children[1])
                        val = node.children[2]
                        muls = [m for m in val.find_data("mul") if any(isinstance(c, _K9) and str(c) == "*" for c in m.children)]
                        is_prod = any(sum(1 for c in m.children if not isinstance(c, _K9) and c is not None and _unbounded(c, env9)) >= 2 for m in muls)
                        if is_prod:
                            wrapping.add(nm)
                            n_prod9 += 1
                        env9[nm] = _unbounded(val, env9)
                for cmp in st.find_data("comparison"):
                    kids = [c for c in cmp.children if c is not None]
                    if len(kids) < 3:
                        continue
                    sides = [_collapse(kids[0]), _collapse(kids[-1])]
                    def _is_wrap(s_):
                        if isinstance(s_, _K9) and str(s_) in wrapping:
                            return True
                        if isinstance(s_, _T9) and s_.data == "lvalue" and str(s_.children[0]) in wrapping:
                            return True
                        if isinstance(s_, _T9):
                            return any(any(isinstance(c, _K9) and str(c) == "*" for c in m.children) and sum(1 for c in m.children if not isinstance(c, _K9) and c is not None and _unbounded(c, env9)) >= 2
                                       for m in ([s_] if s_.data == "mul" else list(s_.find_data("mul"))))
                        return False
                    def _is_const(s_):
                        return (isinstance(s_, _K9) and str(s_).lstrip("-").isdigit()) or (isinstance(s_, _T9) and not list(s_.find_data("lvalue")) and not list(s_.find_data("call_expr")))
                    if (_is_wrap(sides[0]) and _is_const(sides[1])) or (_is_wrap(sides[1]) and _is_const(sides[0])):
                        rep.bad("C17-R9", f"{lib}: {fname9} compares a product of two unbounded signals with a constant",
                                "the product wraps to 32 bits: for a = b = 65536 it is 0, for a = 65536, b = 32768 it is negative although both are positive — the function's documented result is "
                                "wrong for large arguments", f"{lib}:{getattr(cmp.meta, 'line', 1) if hasattr(cmp, 'meta') else 1}")
    rep.floor("C17-R9", "library functions inspected for wrapping products", n_fn9, 10)
    if not any(o.rule == "C17-R9" for o in rep.obs):
        rep.ok("C17-R9", "no library function tests the sign of a wrapping product", f"{n_fn9} functions, {n_prod9} products of two unbounded signals, none compared with a constant", "lib/math.facto:1")



def _split_entries(s: str) -> list[str]:
    return [x for x in s.split(";") if x]
