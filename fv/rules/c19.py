"""C19 The same source always yields the same logical circuit — structural clauses.

R1 no order-sensitive iteration over a set in logical code (sorted, order-insensitive body, or a reasoned allow-list entry)
R2 no id()/hash() value outside lookup keys
R3 process-global state: no program-derived value is written to state that later validation/resolution decisions read
R4 layering: logical configuration values have no position in their backward slice; position-derived keys never overwrite a logical edge's colour
"""

from __future__ import annotations

import ast

from ..core import AnalysisError, Func, Repo, Report, call_name, calls_in, chain, norm, parents_map, walk_local
from ..dataflow import DefUse
from ..settypes import SetTypes
from ..sites import guard_chain
from .util import canon

POSITIONAL_MODULES = ("layout.integer_layout_solver", "layout.power_planner", "layout.tile_grid")
POSITIONAL_CLASSES = {"RelayNetwork", "RelayNode"}

# frozen allow-list: (function, kind of iteration, set-typed attributes the iterable is built from) -> reason.  Confirmed by reading; a new unlisted instance is a violation.
ALLOW = {
    ("EntityPlacer.create_output_anchors", "for", ("output_aliases",)):
        "anchors are keyed by (signal id, alias): ids, descriptions and the signal-graph sink set are the same for every order; the emitter sorts placements by id and the edge collectors sort by signal id",
    ("SignalAnalyzer.analyze", "list", ("output_aliases",)):
        "debug_metadata['output_aliases'] is written but never read anywhere in the repository",
    ("SemanticAnalyzer._infer_bundle_literal_type", "for", ("signal_types",)):
        "body only fills seen_signals/signal_types (keyed by the element) or reports a duplicate: the order decides only which duplicate is reported first, and any duplicate aborts the compile",
}

ORDER_FREE_CALLS = {"any", "all", "sum", "min", "max", "len", "set", "frozenset", "sorted"}


def is_logical(f: Func) -> bool:
    if any(f.module.name.endswith(m) for m in POSITIONAL_MODULES):
        return False
    if f.cls is not None and f.cls.name in POSITIONAL_CLASSES:
        return False
    return ".src." in f.module.name or f.module.name in ("compile", "dsl_compiler.cli")


def _body_order_insensitive(body: list[ast.stmt], elem_names: set[str], temps_ok: set[str] = frozenset()) -> tuple[bool, str]:
    """temps_ok: names that are only ever read inside this loop body (scoped temporaries)."""
    for st in body:
        if isinstance(st, (ast.Continue, ast.Pass)):
            continue
        if isinstance(st, (ast.Assign, ast.AnnAssign)) and all(isinstance(t, ast.Name) and t.id in temps_ok for t in (st.targets if isinstance(st, ast.Assign) else [st.target])):
            if not any(isinstance(x, ast.Call) and call_name(x) not in ("get", "len", "str", "int", "isinstance", "getattr", "tuple", "sorted", "min", "max") for x in ast.walk(st)):
                continue
        if isinstance(st, ast.Expr) and isinstance(st.value, ast.Call):
            c = st.value
            fn = call_name(c)
            if fn in ("add", "discard", "update", "setdefault") or fn in ("info", "debug"):
                continue
            if fn in ("error", "warning", "_error"):
                continue  # which of several diagnostics comes first is not part of the circuit
            return False, f"call {norm(c)[:50]}"
        if isinstance(st, ast.Assign) and len(st.targets) == 1 and isinstance(st.targets[0], ast.Subscript):
            key_names = {n.id for n in ast.walk(st.targets[0].slice) if isinstance(n, ast.Name)}
            if key_names & elem_names:
                continue
            return False, f"store {norm(st)[:50]}"
        if isinstance(st, ast.AugAssign) and isinstance(st.op, (ast.Add, ast.BitOr, ast.Mult)) and isinstance(st.target, ast.Name):
            continue
        if isinstance(st, ast.If):
            ok, why = _body_order_insensitive(st.body, elem_names, temps_ok)
            if not ok:
                return ok, why
            ok, why = _body_order_insensitive(st.orelse, elem_names, temps_ok)
            if not ok:
                return ok, why
            continue
        if isinstance(st, ast.Return) and isinstance(st.value, ast.Constant) and isinstance(st.value.value, bool):
            continue
        return False, f"statement {norm(st)[:50]}"
    return True, ""


def run(repo: Repo, rep: Report, tier: str) -> None:
    st_ = SetTypes(repo)
    rep.analysed["C19-R1:set-typed attributes"] = sorted(f"{c}.{a}" for c, a in st_.attr_sets)

    # ---------------- R1 ---------------------------------------------------------------
    rep.rule("C19-R1", "in logical modules every loop/comprehension/ordering conversion over a set-typed value is wrapped in sorted(), or has an order-insensitive "
             "body (set.add, element-keyed stores, commutative accumulation, any/all/min/max/sum), or is a frozen allow-list entry with a reason")
    n_inst = n_sorted = 0
    seen_allow = set()
    for f in repo.all_funcs():
        if not is_logical(f):
            continue
        local = st_.local_sets(f)
        pm = None
        for n in walk_local(f.node):
            it = None
            kind = None
            if isinstance(n, ast.For):
                it, kind = n.iter, "for"
            elif isinstance(n, ast.comprehension):
                it, kind = n.iter, "comp"
            elif isinstance(n, ast.Call) and isinstance(n.func, ast.Name) and n.func.id in ("list", "tuple", "next", "iter", "enumerate") and n.args:
                it, kind = n.args[0], n.func.id
            elif isinstance(n, ast.Call) and isinstance(n.func, ast.Attribute) and n.func.attr == "join" and n.args:
                it, kind = n.args[0], "join"
            elif isinstance(n, ast.Call) and isinstance(n.func, ast.Attribute) and n.func.attr == "pop" and not n.args:
                it, kind = n.func.value, "pop"
            elif isinstance(n, ast.Call) and isinstance(n.func, ast.Name) and n.func.id == "sorted" and n.args and st_.is_set(f, n.args[0], local):
                n_sorted += 1
                continue
            if it is None or not st_.is_set(f, it, local):
                continue
            n_inst += 1
            pm = pm or parents_map(f.node)
            cnode = canon(f).node(it)
            set_attrs = tuple(sorted({x.attr for x in ast.walk(cnode) if isinstance(x, ast.Attribute) and any(a == x.attr for _c, a in st_.attr_sets)}))
            key = (f.short, kind, set_attrs)
            construct = f"{f.short}: iteration over a set built from {list(set_attrs) or [norm(cnode)[-40:]]} ({kind}) is order-independent"
            if kind == "for":
                elems = {x.id for x in ast.walk(n.target) if isinstance(x, ast.Name)}
                inside = {id(x) for b in n.body for x in ast.walk(b)}
                assigned = {t.id for b in n.body for x in ast.walk(b) if isinstance(x, (ast.Assign, ast.AnnAssign)) for t in (x.targets if isinstance(x, ast.Assign) else [x.target]) if isinstance(t, ast.Name)}
                cf_ = canon(f)

                def _escapes(nm: str) -> bool:
                    for x in walk_local(f.node):
                        if isinstance(x, ast.Name) and x.id == nm and isinstance(x.ctx, ast.Load) and id(x) not in inside:
                            ents, _outer = cf_.reaching(nm, cf_._stmt_of(x))
                            if any(e_[2] is not None and id(e_[2]) in inside for e_ in ents):
                                return True
                    return False

                temps = {nm for nm in assigned if not _escapes(nm)}
                # a temporary keyed by the element counts as element-derived for keyed stores
                ok, why = _body_order_insensitive(n.body, elems | temps, temps)
                if ok:
                    rep.ok("C19-R1", construct, "body is order-insensitive", f.loc(n))
                    continue
            elif kind == "comp":
                comp_owner = pm[n]
                outer = pm.get(comp_owner)
                if isinstance(comp_owner, (ast.SetComp, ast.DictComp)) or (isinstance(outer, ast.Call) and call_name(outer) in ORDER_FREE_CALLS):
                    rep.ok("C19-R1", construct, "result is a set/dict or feeds an order-free reduction", f.loc(comp_owner))
                    continue
                why = "list/generator result keeps the iteration order"
            else:
                why = f"{kind}() exposes the iteration order"
                # taking "the" element of a set that is known to hold exactly one is order-free: `if len(s) == 1: return s.pop()` / next(iter(s))
                if kind in ("pop", "next", "iter") and isinstance(it, ast.Name):
                    from .util import cguards as _cg19, stmt_of as _so19
                    single = any(pol and isinstance(gt := ast.parse(g, mode="eval").body, ast.Compare) and len(gt.ops) == 1 and isinstance(gt.ops[0], ast.Eq)
                                 and norm(gt.left).startswith("len(") and norm(gt.comparators[0]) == "1" for g, pol in _cg19(f, _so19(f, n)))
                    raw_single = False
                    pm_s = pm
                    cur_s = pm_s.get(_so19(f, n))
                    while cur_s is not None and cur_s is not f.node:
                        if isinstance(cur_s, ast.If) and isinstance(cur_s.test, ast.Compare) and isinstance(cur_s.test.ops[0], ast.Eq) and norm(cur_s.test.left) == f"len({it.id})" and norm(cur_s.test.comparators[0]) == "1" \
                                and any(n is x for b_ in cur_s.body for x in ast.walk(b_)):
                            raw_single = True
                        cur_s = pm_s.get(cur_s)
                    if raw_single:
                        rep.ok("C19-R1", construct, f"under `len({it.id}) == 1`: a singleton has one order", f.loc(n))
                        continue
            if key in ALLOW:
                seen_allow.add(key)
                rep.ok("C19-R1", construct, "allow-listed: " + ALLOW[key], f.loc(n))
            else:
                rep.bad("C19-R1", construct, f"unsorted, order-sensitive ({why}) and not on the allow-list: the result can differ with the hash seed", f.loc(n))
    rep.analysed["C19-R1:sorted() over set-typed values"] = n_sorted
    rep.floor("C19-R1", "set iterations in logical code", n_inst, 3)
    rep.floor("C19-R1", "sorted() calls protecting set-typed values", n_sorted, 5)

    # ---------------- R2 ---------------------------------------------------------------
    rep.rule("C19-R2", "id()/hash() values are used only as dictionary/set lookup keys (never in a sort key, a list position or an emitted string)")
    n_id = 0
    for f in repo.all_funcs():
        if not is_logical(f):
            continue
        pm = None
        for c in calls_in(f.node):
            if isinstance(c.func, ast.Name) and c.func.id in ("id", "hash") and len(c.args) == 1:
                n_id += 1
                pm = pm or parents_map(f.node)
                du = DefUse(f)
                # where does the value go?
                cur: ast.AST = c
                use = "other"
                tgt_names: set[str] = set()
                while cur in pm:
                    par = pm[cur]
                    if isinstance(par, ast.Subscript) and par.slice is cur:
                        use = "lookup-key"
                        break
                    if isinstance(par, (ast.Assign, ast.AnnAssign)):
                        t = par.targets[0] if isinstance(par, ast.Assign) else par.target
                        tgt_names = {x.id for x in ast.walk(t) if isinstance(x, ast.Name)}
                        use = "assigned"
                        break
                    if isinstance(par, ast.stmt):
                        break
                    cur = par
                if use == "assigned" and tgt_names:
                    uses = []
                    for n in walk_local(f.node):
                        if isinstance(n, ast.Name) and n.id in tgt_names and isinstance(n.ctx, ast.Load):
                            p = pm.get(n)
                            if isinstance(p, ast.Subscript) and p.slice is n:
                                uses.append("lookup-key")
                            elif isinstance(p, ast.Compare) and any(isinstance(o, (ast.In, ast.NotIn)) for o in p.ops):
                                uses.append("lookup-key")
                            elif isinstance(p, ast.Call) and call_name(p) in ("get", "pop", "setdefault", "add", "discard"):
                                uses.append("lookup-key")
                            else:
                                uses.append("other:" + norm(p)[:40])
                    use = "lookup-key" if uses and all(u == "lookup-key" for u in uses) else ("other" if uses else "unused")
                rep.check(use in ("lookup-key", "unused"), "C19-R2", f"{f.short}: `{norm(c)}` is used only as a lookup key", use, f.loc(c))
    rep.analysed["C19-R2:id()/hash() calls"] = n_id

    # ---------------- R3 ---------------------------------------------------------------
    rep.rule("C19-R3", "no program-derived name is written to process-global state (the draftsman signal table, os.environ, module-level mutables) that "
             "validation or name-resolution decisions read in the same or a later compilation")
    writers = []
    readers = []
    for f in repo.all_funcs():
        for n in walk_local(f.node):
            if isinstance(n, ast.Call) and isinstance(n.func, ast.Attribute) and n.func.attr == "add_signal" and "signal_data" in norm(n.func.value):
                writers.append((f, n))
            if isinstance(n, ast.Subscript) and isinstance(n.ctx, ast.Store) and norm(n.value) in ("signal_data.raw", "signal_data.type_of"):
                writers.append((f, n))
            if isinstance(n, ast.Compare) and any(isinstance(o, (ast.In, ast.NotIn)) for o in n.ops) and any(norm(cmp) in ("signal_data.raw", "signal_data.type_of") for cmp in n.comparators):
                readers.append((f, n))
            if isinstance(n, ast.Call) and isinstance(n.func, ast.Attribute) and n.func.attr == "get" and norm(n.func.value) in ("signal_data.raw", "signal_data.type_of"):
                readers.append((f, n))
    rep.analysed["C19-R3:decision reads of the global signal table"] = sorted({f.short for f, _ in readers})
    rep.floor("C19-R3", "reads of the process-global signal table", len(readers), 5)
    for f, n in writers:
        du = DefUse(f)
        arg = n.args[0] if isinstance(n, ast.Call) and n.args else n
        leaves = du.leaves(arg)
        programmatic = any(l.kind in ("param", "attr", "call") for l in leaves)
        rep.check(not programmatic, "C19-R3", f"{f.short} writes only built-in names to the global signal table",
                  f"name derives from {sorted(str(l) for l in leaves if l.kind != 'const')[:5]}: it stays registered for every later compilation in the process, where "
                  f"is_valid_factorio_signal / ensure_signal_registered / name resolution consult the table", f.loc(n))
    mut_globals = []
    for m in repo.modules.values():
        if ".src." not in m.name:
            continue
        for name, v in m.module_assigns().items():
            if isinstance(v, (ast.Dict, ast.List, ast.Set)) or (isinstance(v, ast.Call) and call_name(v) in ("dict", "list", "set", "defaultdict")):
                for f in list(m.funcs.values()) + [mm for c in m.classes.values() for mm in c.methods.values()]:
                    for n in walk_local(f.node):
                        if isinstance(n, ast.Subscript) and isinstance(n.ctx, ast.Store) and isinstance(n.value, ast.Name) and n.value.id == name:
                            mut_globals.append((f, n, name))
                        if isinstance(n, ast.Call) and isinstance(n.func, ast.Attribute) and isinstance(n.func.value, ast.Name) and n.func.value.id == name and n.func.attr in ("append", "add", "update", "pop", "clear", "setdefault"):
                            if name not in f.params and not any(isinstance(x, ast.Assign) and any(isinstance(t, ast.Name) and t.id == name for t in x.targets) for x in walk_local(f.node)):
                                mut_globals.append((f, n, name))
                        # ... or through a local that is just another name for it (`excluded = TABLE; excluded.update(...)`)
                        if isinstance(n, ast.Call) and isinstance(n.func, ast.Attribute) and isinstance(n.func.value, ast.Name) and n.func.value.id != name \
                                and n.func.attr in ("append", "add", "update", "pop", "clear", "setdefault", "extend", "discard", "remove") and name not in f.params:
                            from .util import canon as _canon19
                            try:
                                alts19 = _canon19(f).alts(n.func.value)
                            except Exception:
                                alts19 = []
                            if name in alts19:
                                mut_globals.append((f, n, f"{name} (through a local alias)"))
    # class-level mutables (assigned in the class body, never re-bound per instance) are process-global state as well
    for m in repo.modules.values():
        if ".src." not in m.name:
            continue
        for k in m.classes.values():
            shared = {}
            for st in k.node.body:
                tgt, val = None, None
                if isinstance(st, ast.Assign) and len(st.targets) == 1 and isinstance(st.targets[0], ast.Name):
                    tgt, val = st.targets[0].id, st.value
                elif isinstance(st, ast.AnnAssign) and isinstance(st.target, ast.Name) and st.value is not None and "ClassVar" not in norm(st.annotation) or False:
                    tgt, val = (st.target.id, st.value) if isinstance(st, ast.AnnAssign) else (None, None)
                if tgt and (isinstance(val, (ast.Dict, ast.List, ast.Set)) or (isinstance(val, ast.Call) and call_name(val) in ("dict", "list", "set", "defaultdict"))):
                    shared[tgt] = st
            if not shared or any(isinstance(d, ast.Name) and d.id == "dataclass" or (isinstance(d, ast.Call) and call_name(d) == "dataclass") for d in k.node.decorator_list):
                continue
            rebound = {n.attr for mm in k.methods.values() for n in walk_local(mm.node) if isinstance(n, ast.Attribute) and isinstance(n.ctx, ast.Store) and isinstance(n.value, ast.Name) and n.value.id == "self"}
            for mm in k.methods.values():
                for n in walk_local(mm.node):
                    hit = None
                    if isinstance(n, ast.Subscript) and isinstance(n.ctx, ast.Store) and isinstance(n.value, ast.Attribute) and isinstance(n.value.value, ast.Name) and n.value.value.id in ("self", "cls", k.name) and n.value.attr in shared:
                        hit = n.value.attr
                    if isinstance(n, ast.Call) and isinstance(n.func, ast.Attribute) and n.func.attr in ("append", "add", "update", "pop", "clear", "setdefault", "extend") and isinstance(n.func.value, ast.Attribute) \
                            and isinstance(n.func.value.value, ast.Name) and n.func.value.value.id in ("self", "cls", k.name) and n.func.value.attr in shared:
                        hit = n.func.value.attr
                    if hit and hit not in rebound:
                        mut_globals.append((mm, n, f"{k.name}.{hit} (class attribute)"))
    # default parameter values are evaluated once per process: an object built there (an optimizer pass, a list, a dict) is shared by every call
    n_defaults = 0
    for f in repo.all_funcs():
        a_ = f.node.args
        for dflt in list(a_.defaults) + [k_ for k_ in a_.kw_defaults if k_ is not None]:
            n_defaults += 1
            built = isinstance(dflt, (ast.List, ast.Dict, ast.Set)) or any(isinstance(x, ast.Call) for x in ast.walk(dflt))
            if built:
                rep.bad("C19-R3", f"{f.short}: default value `{norm(dflt)[:60]}` is built once per process", "an object constructed in a default value is shared by all calls: "
                        "state it accumulates in one compilation (replacement tables, dead-node sets, caches) is still there in the next", f.loc(dflt))
    rep.analysed["C19-R3:default parameter values inspected"] = n_defaults
    for f, n, name in mut_globals:
        rep.bad("C19-R3", f"{f.short} mutates module-level `{name}`", "module-level mutable state survives across compilations", f.loc(n))
    rep.ok("C19-R3", "no module-level mutable is mutated by compiler functions", f"{len(mut_globals)} mutation sites", "", nontrivial=False) if not mut_globals else None
    env_writes = [(m, n) for m in repo.modules.values() for n in ast.walk(m.tree) if isinstance(n, ast.Subscript) and isinstance(n.ctx, ast.Store) and norm(n.value) == "os.environ"]
    for m, n in env_writes:
        par = [x for x in ast.walk(m.tree) if isinstance(x, ast.Assign) and n in x.targets]
        val = par[0].value if par else None
        pure = val is not None and not any(isinstance(x, ast.Name) and x.id not in ("Path", "str", "__file__") for x in ast.walk(val))
        rep.check(pure, "C19-R3", f"{m.rel}: os.environ[{norm(n.slice)}] is a pure function of built-in data", norm(val)[:80] if val is not None else "", f"{m.rel}:{n.lineno}")

    # ---------------- R4 ---------------------------------------------------------------
    rep.rule("C19-R4", "values stored as logical configuration (operand wire selections, output-value wire selection, per-edge colours) have no placement position, "
             "solver result or relay state in their backward slice; keys that derive from the position-dependent spanning tree only add colour entries, never replace one")
    lp = repo.cls("LayoutPlanner")
    n_cfg = 0
    for m in lp.methods.values():
        du = DefUse(m)
        for n in walk_local(m.node):
            if isinstance(n, ast.Assign) and isinstance(n.targets[0], ast.Subscript) and "properties" in norm(n.targets[0].value) and "_wires" in norm(n.targets[0].slice):
                n_cfg += 1
                leaves = du.leaves(n.value)
                bad = [str(l) for l in leaves if "position" in l.text or "relay" in l.text.lower()]
                rep.check(not bad, "C19-R4", f"{m.short}: `{norm(n.targets[0])[:60]}` does not depend on positions", f"derives from {sorted(str(l) for l in leaves if l.kind != 'const')[:6]}", m.loc(n))
    rep.floor("C19-R4", "wire-selection stores", n_cfg, 4)
    from .shared import mst_colour_keys
    mst_colour_keys(repo, rep, "C19-R4", include_reversed=False)
    wr = repo.module("layout.wire_router")
    pos_reads = [n for f in wr.funcs.values() for n in walk_local(f.node) if isinstance(n, ast.Attribute) and n.attr == "position"]
    rep.check(not pos_reads, "C19-R4", "wire colouring (wire_router) never reads a position", f"{len(pos_reads)} reads of .position", wr.rel + ":1")

    # ---------------- R5 ---------------------------------------------------------------
    from .shared import borrow as _borrow
    _borrow(repo, rep, "C17", "C17-R2", "C19-R5", "the result does not depend on the working directory: an import is looked up next to the importing file before any cwd-relative entry",
            select=lambda o: "importing file" in o.construct or "list order" in o.construct or "directory of that file" in o.construct, floor=3)

    # ---------------- R6 ---------------------------------------------------------------
    from .shared import borrow as _borrow19b
    _borrow19b(repo, rep, "C12", "C12-R2", "C19-R6", "which connectors share a network does not depend on where the solver put things: a relay reused by one network is booked for it, so a "
               "second network of the same colour is never chained through it, whatever placement makes the reuse possible", floor=2)
    _borrow19b(repo, rep, "C17", "C17-R8", "C19-R7", "the result does not depend on the working directory: the front ends tell the parser where the importing file is", floor=1)
    _borrow19b(repo, rep, "C08", "C08-R4", "C19-R8", "a connection means the same whether it is laid directly or through relay poles (which placement needs relays is the solver's business): "
               "the ends of a relayed connection keep the connector sides of the direct one, poles in between carry none", select=lambda o: "_create_relay_chain" in o.construct, floor=4)
