"""One module per property: each exposes run(repo, rep, tier) adding obligations to the Report."""
