"""C16 A for loop equals its unrolling — structural clauses.

R1 the iteration sequence function is one of the accepted idioms (exclusive end, direction by the sign of the step, listed values in order)
R2 one sequence, two users; both resolvers fail loudly for a name that is not a compile-time int
R3 per-iteration scope in the lowerer (iterator bound before the body, scoped maps cut back after it) and in the analyzer
R4 freshness of declarations in loop bodies (same construct as C15-R3)
R5 the transformer hands start/stop/step/values to ForStmt in the grammar's order
"""

from __future__ import annotations

import ast

from ..cfg import CFG, EXIT
from ..core import AnalysisError, Func, Repo, Report, call_name, calls_in, chain, kwarg, norm, parents_map, walk_local
from ..dataflow import DefUse
from ..resolve import Resolver
from ..sites import guard_chain
from .util import canon, cguards, cguards_any
import re
from .c15 import ACCUMULATORS, _lowerer_attr, mutated_attrs, scoped_state


def run(repo: Repo, rep: Report, tier: str) -> None:
    giv = repo.func("ForStmt.get_iteration_values")
    pm = parents_map(giv.node)

    # ---------------- R1 ---------------------------------------------------------------
    rep.rule("C16-R1", "get_iteration_values is range(start, stop, step) or the explicit form: under step > 0 a loop `while i < stop` (strict), "
             "under step < 0 `while i > stop` (strict), i starts at start, the value is appended before i advances by step; the list form returns the listed values in order")
    du = DefUse(giv)
    roles: dict[str, str] = {}
    for role in ("start", "stop", "step"):
        for nm, ds in du.defs.items():
            if nm not in roles and any(isinstance(x, ast.Attribute) and x.attr == role and norm(x.value) == "self" for v, how, _st in ds if how == "assign" for x in ast.walk(v)):
                roles[nm] = role

    def rn(e: ast.AST | None) -> str:
        """source text with the locals that hold the resolved bounds renamed to their role (start / stop / step)"""
        if e is None:
            return ""
        import copy
        e2 = copy.deepcopy(e)
        for x in ast.walk(e2):
            if isinstance(x, ast.Name) and x.id in roles:
                x.id = roles[x.id]
        return " ".join(ast.unparse(e2).split())

    uses_range = [c for c in calls_in(giv.node, "range") if len(c.args) == 3]
    whiles = [n for n in walk_local(giv.node) if isinstance(n, ast.While)]
    if uses_range and not whiles:
        a = [rn(x) for x in uses_range[0].args]
        rep.check(a == ["start", "stop", "step"], "C16-R1", "range idiom has arguments (start, stop, step)", f"range({', '.join(a)})", giv.loc(uses_range[0]))
    else:
        rep.floor("C16-R1", "explicit range loops", len(whiles), 2)
        seen_dirs = set()
        for w in whiles:
            guards = guard_chain(giv, w, pm)
            direction = None
            for t, pol in guards:
                txt = rn(t)
                if pol and txt in ("step > 0", "0 < step"):
                    direction = "up"
                elif pol and txt in ("step < 0", "0 > step"):
                    direction = "down"
            if direction is None:
                rep.unknown("C16-R1", f"range loop `while {rn(w.test)}` direction guard", f"guards {[rn(t) for t, _ in guards]} not recognised", giv.loc(w))
                continue
            seen_dirs.add(direction)
            test = w.test
            ok_test = isinstance(test, ast.Compare) and len(test.ops) == 1 and isinstance(test.left, ast.Name) and rn(test.comparators[0]) == "stop" and (
                (direction == "up" and isinstance(test.ops[0], ast.Lt)) or (direction == "down" and isinstance(test.ops[0], ast.Gt)))
            rep.check(ok_test, "C16-R1", f"{direction}ward range loop stops strictly before `stop`",
                      f"while {norm(test)}" + ("" if ok_test else ": the end value must be excluded and the comparison must follow the direction"), giv.loc(w))
            ivar = test.left.id if isinstance(test, ast.Compare) and isinstance(test.left, ast.Name) else "i"
            body = w.body
            app_idx = next((k for k, st in enumerate(body) if isinstance(st, ast.Expr) and isinstance(st.value, ast.Call) and call_name(st.value) == "append" and norm(st.value.args[0]) == ivar), None)
            adv_idx = next((k for k, st in enumerate(body) if isinstance(st, ast.AugAssign) and norm(st.target) == ivar), None)
            ok_body = app_idx is not None and adv_idx is not None and app_idx < adv_idx and isinstance(body[adv_idx].op, ast.Add) and rn(body[adv_idx].value) == "step" and len(body) == 2
            rep.check(ok_body, "C16-R1", f"{direction}ward range loop appends the value, then advances by step",
                      "; ".join(norm(s) for s in body), giv.loc(w))
            # initialisation just before the loop
            block = getattr(pm[w], "body", [])
            if w not in block:
                block = getattr(pm[w], "orelse", [])
            idx = block.index(w)
            init = block[idx - 1] if idx > 0 else None
            ok_init = isinstance(init, ast.Assign) and norm(init.targets[0]) == ivar and rn(init.value) == "start"
            rep.check(ok_init, "C16-R1", f"{direction}ward range loop starts at `start`", norm(init) if init is not None else "no initialisation", giv.loc(w))
        rep.check(seen_dirs == {"up", "down"}, "C16-R1", "both ascending and descending ranges are produced", f"directions handled: {sorted(seen_dirs)}", giv.loc())
    # resolved bounds feed the loop
    for name, attr in (("start", "self.start"), ("stop", "self.stop"), ("step", "self.step")):
        holders = [nm for nm, r in roles.items() if r == name]
        rep.check(len(holders) == 1, "C16-R1", f"`{name}` is the loop's own {attr}", f"held by local(s) {holders}", giv.loc())
    # list form
    rets = [n for n in walk_local(giv.node) if isinstance(n, ast.Return) and n.value is not None and "self.values" in norm(n.value)]
    ok_list = bool(rets) and all(norm(r.value) in ("list(self.values)", "self.values", "self.values[:]", "self.values.copy()") for r in rets)
    rep.check(ok_list, "C16-R1", "list form returns the listed values in order", norm(rets[0].value) if rets else "no return of self.values", giv.loc(rets[0]) if rets else giv.loc())
    # default step
    for n in walk_local(giv.node):
        if isinstance(n, ast.If) and rn(n.test) == "step is None":
            v = n.body[0].value if n.body and isinstance(n.body[0], ast.Assign) else None
            ok = v is not None and rn(v) in ("1 if start < stop else -1", "1")
            rep.check(ok, "C16-R1", "default step is +1 (or follows the direction of the bounds)", norm(v), giv.loc(n))

    # ---------------- R2 ---------------------------------------------------------------
    rep.rule("C16-R2", "analyzer and lowerer obtain the values from the one sequence function; nothing else re-implements the range rule; "
             "both constant resolvers raise (never default) for a name that is not a compile-time int")
    users = {"SemanticAnalyzer.visit_ForStmt": None, "StatementLowerer.lower_for_stmt": None}
    for u in users:
        f = repo.func(u)
        cs = calls_in(f.node, "get_iteration_values")
        has = bool(cs) and (kwarg(cs[0], "constant_resolver") is not None or len(cs[0].args) >= 1)
        rep.check(has, "C16-R2", f"{u} takes its values from get_iteration_values with a resolver", norm(cs[0])[:80] if cs else "no call", f.loc(cs[0]) if cs else f.loc())
        cu = canon(f)
        fed = any(isinstance(n, ast.For) and cu.text(n.iter).endswith(")") and ".get_iteration_values(" in cu.text(n.iter) and cu.text(n.iter).count("(") >= 1
                  and isinstance(cu.node(n.iter), ast.Call) and call_name(cu.node(n.iter)) == "get_iteration_values" for n in walk_local(f.node))
        if not fed and u.startswith("SemanticAnalyzer."):
            # the analyzer may add one stand-in value when the list is empty (the body of a loop that never runs is still checked); it only ever adds diagnostics.
            # The lowerer, which creates the circuit, gets no such allowance.
            for n in walk_local(f.node):
                if not isinstance(n, ast.For):
                    continue
                alts2 = cu.alts(n.iter, n)
                calls2 = [a for a in alts2 if ".get_iteration_values(" in a and a.endswith(")")]
                lits2 = [a for a in alts2 if a.startswith("[") and a.endswith("]")]
                if calls2 and len(calls2) + len(lits2) == len(alts2) and isinstance(n.iter, ast.Name):
                    fills2 = [q for q in walk_local(f.node) if isinstance(q, ast.If) and q.lineno < n.lineno and ("not " + calls2[0]) in cu.text(q.test, q)
                              and any(isinstance(b, ast.Assign) and norm(b.targets[0]) == n.iter.id and isinstance(b.value, ast.List) and len(b.value.elts) == 1 for b in q.body)]
                    if fills2 or not lits2:
                        fed = True
        rep.check(fed, "C16-R2", f"{u} iterates exactly over those values", "loop iterable is the returned list" if fed else "the unrolling loop does not iterate the returned list", f.loc())
    # no second implementation
    n_other = 0
    for f in repo.all_funcs():
        if f.qual == giv.qual or f.short in ("ForStmt.__init__",) or f.module.name.endswith("parsing.transformer"):
            continue
        touches = {n.attr for n in walk_local(f.node) if isinstance(n, ast.Attribute) and n.attr in ("start", "stop") and isinstance(n.ctx, ast.Load)
                   and isinstance(n.value, ast.Name) and n.value.id in ("stmt", "node", "self", "loop", "for_stmt")}
        if {"start", "stop"} <= touches:
            n_other += 1
            rep.bad("C16-R2", f"{f.short} re-implements the range rule", "reads ForStmt.start and ForStmt.stop outside get_iteration_values", f.loc())
    rep.ok("C16-R2", "no second implementation of the range rule", f"{n_other} other readers of start/stop", giv.loc()) if n_other == 0 else None
    for rname in ("SemanticAnalyzer._resolve_for_loop_constant", "StatementLowerer._resolve_constant"):
        f = repo.func(rname)
        cfg = CFG(f.node)
        rets = [s for s in cfg.stmts() if isinstance(s, ast.Return)]
        bad = [r for r in rets if r.value is None or isinstance(r.value, ast.Constant)]
        raises = [s for s in cfg.stmts() if isinstance(s, ast.Raise)]
        rep.check(not bad and len(raises) >= 2 and len(rets) == 1, "C16-R2", f"{rname} raises for anything but a compile-time int",
                  f"{len(raises)} raise(s), returns {[norm(r.value) for r in rets]}", f.loc())

    # ---------------- R3 ---------------------------------------------------------------
    rep.rule("C16-R3", "lower_for_stmt binds the iterator before the body and cuts every scoped map the body can mutate back to its "
             "pre-iteration keys after the body; visit_ForStmt enters and leaves a child scope per iteration and defines the iterator immutable")
    rs = Resolver(repo)
    lf = repo.func("StatementLowerer.lower_for_stmt")
    inl = repo.func("ExpressionLowerer.lower_function_call_inline")
    state = scoped_state(repo)
    mutated = mutated_attrs(repo, rs, repo.func("StatementLowerer.lower_statement"), {inl.qual, lf.qual})
    scoped = sorted(a for a in state if a in mutated and a not in ACCUMULATORS and a != "param_values")
    cfg = CFG(lf.node)
    clf = canon(lf)
    # the loop over the iteration values; whether its iterable is *exactly* the sequence function's answer is C16-R2's question, here the loop only has to be found
    outer = [s for s in cfg.stmts() if isinstance(s, ast.For) and any("get_iteration_values(" in a for a in clf.alts(s.iter, s))]
    inner = [s for s in cfg.stmts() if isinstance(s, ast.For) and norm(s.iter).endswith(".body")]
    if not outer or not inner:
        raise AnalysisError("C16-R3: unrolling loops not found in lower_for_stmt")
    o, b = outer[0], inner[0]
    binds = [s for s in o.body if isinstance(s, ast.Assign) and any(isinstance(t, ast.Subscript) and _lowerer_attr(t.value) == "signal_refs" and "iterator_name" in norm(t.slice) for t in s.targets)]
    ok_bind = bool(binds) and norm(binds[0].value) == norm(o.target) and o.body.index(binds[0]) < o.body.index(b)
    rep.check(ok_bind, "C16-R3", "iterator is bound to the iteration value before the body", norm(binds[0]) if binds else "no binding", lf.loc(binds[0]) if binds else lf.loc(o))
    after = o.body[o.body.index(b) + 1:]
    before = o.body[: o.body.index(b)]
    for attr in scoped:
        saved = [s for s in before if isinstance(s, ast.Assign) and any(isinstance(n, ast.Attribute) and _lowerer_attr(n) == attr for n in ast.walk(s.value))]
        restored = [s for s in after if isinstance(s, ast.Assign) and any(isinstance(t, ast.Attribute) and _lowerer_attr(t) == attr for t in s.targets)]
        names = {s.targets[0].id for s in saved if isinstance(s.targets[0], ast.Name)}
        du_l = DefUse(lf)
        uses_saved = any(names & {l.text for l in du_l.leaves(r.value) if l.kind in ("global", "param")} or names & {n.id for n in ast.walk(r.value) if isinstance(n, ast.Name)} or
                         any(names & {n.id for v in du_l.value_exprs(x.id) for n in ast.walk(v) if isinstance(n, ast.Name)} for x in ast.walk(r.value) if isinstance(x, ast.Name)) for r in restored)
        rep.check(bool(saved) and bool(restored) and uses_saved, "C16-R3", f"lower_for_stmt cuts ASTLowerer.{attr} back after each iteration",
                  "keys saved before the body, map rebuilt from them after it" if saved and restored and uses_saved else
                  f"{attr} is mutated by loop bodies (e.g. {mutated[attr][0]}) but is not restored between iterations: a declaration in one iteration stays visible in the next and after the loop",
                  lf.loc(restored[0]) if restored else lf.loc(o))
        # restoration must be by value for names the iteration itself binds (its declarations and the iterator): a copy of the map
        # (not only its keys) has to be saved, and the rebuilt map has to read the saved values
        by_value = any(isinstance(sv.value, ast.Call) and (call_name(sv.value) in ("dict", "copy", "deepcopy") or (isinstance(sv.value.func, ast.Attribute) and sv.value.func.attr == "copy")) or isinstance(sv.value, (ast.Dict, ast.DictComp))
                       for sv in saved)
        reads_saved_values = any(isinstance(x, ast.Subscript) and isinstance(x.value, ast.Name) and x.value.id in names and isinstance(x.ctx, ast.Load) for r in restored for x in ast.walk(r.value)) or \
            any(isinstance(r.value, ast.Name) and r.value.id in names for r in restored) or \
            any(isinstance(x, ast.Call) and isinstance(x.func, ast.Attribute) and x.func.attr == "get" and isinstance(x.func.value, ast.Name) and x.func.value.id in names for r in restored for x in ast.walk(r.value))
        if saved and restored and uses_saved:
            rep.check(by_value and reads_saved_values, "C16-R3", f"lower_for_stmt gives names shadowed by an iteration their outer ASTLowerer.{attr} value back",
                      "map saved by value; shadowed names restored from the saved copy" if by_value and reads_saved_values else
                      f"only the keys of {attr} are saved: `Signal x = ...; for i in 0..2 {{ Signal x = ...; }} Signal y = x + 1;` reads the last iteration's x (and a nested iterator of the same name overwrites the outer one)",
                      lf.loc(restored[0]))
            # ... and only for those names: what the body assigns to names that already existed outside the loop (an outer entity
            # re-bound with `e = place(...)`) must persist, so the rebuilt map has to read the *current* map too
            keeps_current = any(isinstance(x, ast.Attribute) and _lowerer_attr(x) == attr and isinstance(x.ctx, ast.Load) for r in restored for x in ast.walk(r.value))
            rep.check(keeps_current, "C16-R3", f"lower_for_stmt keeps what an iteration assigns to outer names in ASTLowerer.{attr}",
                      "rebuilt from the current map (outer names keep the iteration's assignments)" if keeps_current else
                      f"{attr} is replaced by the pre-iteration snapshot: `Entity cur = place(...); for i in 0..3 {{ cur = place(...); }}` loses every re-binding, the next iteration and the code after the loop see the old entity", lf.loc(restored[0]))
    # which names belong to one iteration is a matter of syntax — the iterator and what the body declares — not of what happened to the tables: a name the body
    # re-declares over an outer name is in the table before and after the iteration, so a key difference never contains it
    sets_seen = 0
    for st_r in [x for x in after if isinstance(x, ast.Assign) and isinstance(x.value, ast.DictComp)]:
        for cmp_ in [x for x in ast.walk(st_r.value) if isinstance(x, ast.Compare) and isinstance(x.ops[0], ast.In) and isinstance(x.comparators[0], ast.Name)]:
            dtxt = clf.text(cmp_.comparators[0])
            if dtxt.startswith("dict(") or ".copy()" in dtxt:
                continue  # the saved table itself
            sets_seen += 1
            ok_l = "iterator_name" in dtxt and ".body" in dtxt and ".name" in dtxt
            rep.check(ok_l, "C16-R3", f"lower_for_stmt: the iteration's own names in `{norm(st_r.targets[0])}` are the iterator and the body's declarations",
                      dtxt[:100] if ok_l else
                      f"computed as `{dtxt[:100]}`: a declaration that shadows an outer name (`Signal d = b; for i in 0..2 {{ Signal d = c + i; }}`) is not among them, the outer d keeps the last iteration's value", lf.loc(st_r))
    rep.floor("C16-R3", "membership tests on the iteration's own names", sets_seen, 2)
    vf = repo.func("SemanticAnalyzer.visit_ForStmt")
    cvf = canon(vf)
    # the loop over the iteration values (its iterable is the value list, or the value list with a stand-in for the dry run of a loop that never runs)
    vloops = [n for n in walk_local(vf.node) if isinstance(n, ast.For) and any("get_iteration_values(" in a for a in cvf.alts(n.iter, n))]
    if not vloops:
        raise AnalysisError("C16-R3: per-iteration loop not found in visit_ForStmt")
    vl = vloops[0]
    enters = [s for s in vl.body if isinstance(s, ast.Assign) and "create_child_scope" in norm(s.value)]
    switch = [s for s in vl.body if isinstance(s, ast.Assign) and norm(s.targets[0]) == "self.current_scope"]
    body_i = next((k for k, s in enumerate(vl.body) if isinstance(s, ast.For) and norm(s.iter).endswith(".body")), None)
    ok_scope = bool(enters) and len(switch) >= 2 and body_i is not None and vl.body.index(switch[0]) < body_i < vl.body.index(switch[-1])
    rep.check(ok_scope, "C16-R3", "visit_ForStmt analyses each iteration in its own child scope", "child scope entered before and left after the body" if ok_scope else "scope enter/leave does not bracket the body", vf.loc(vl))
    syms = [c for c in calls_in(vl, "Symbol")]
    imm = any(kwarg(c, "is_mutable") is not None and norm(kwarg(c, "is_mutable")) == "False" and "iterator_name" in norm(kwarg(c, "name") or ast.Constant(value="")) for c in syms)
    rep.check(imm, "C16-R3", "the iterator is defined immutable", "Symbol(..., is_mutable=False)" if imm else "iterator symbol is mutable", vf.loc(syms[0]) if syms else vf.loc())

    # ---------------- R6 ---------------------------------------------------------------
    rep.rule("C16-R6", "the loop body is one syntax tree shared by all iterations: when the analyzer replaces a constructor field of a node it visits, the replacement must be a "
             "function of the syntax alone (a helper that reads scope/symbol state would freeze the first iteration's value into every copy)")
    an_cls = repo.cls("SemanticAnalyzer")
    ast_mods = [m for m in repo.modules.values() if ".src.ast." in m.name + "."]
    ctor_fields: dict[str, set[str]] = {}
    for m_ in ast_mods:
        for c_ in m_.classes.values():
            init = c_.methods.get("__init__")
            if init is not None:
                ctor_fields[c_.name] = {p_ for p_ in init.params if p_ not in ("self", "line", "column", "raw_text")}
    all_fields = set().union(*ctor_fields.values()) if ctor_fields else set()
    rep.floor("C16-R6", "syntax-tree classes with constructor fields", len(ctor_fields), 20)

    def tree_pure(fn: Func, seen: set[str]) -> tuple[bool, str]:
        if fn.qual in seen:
            return True, ""
        seen.add(fn.qual)
        # a call whose result is thrown away (a validation run for its diagnostics) cannot reach the value that is returned; whatever it leaves in `self`
        # reaches the result only through a later read of `self`, which is examined like any other
        discarded = {id(x_) for st_ in walk_local(fn.node) if isinstance(st_, ast.Expr) and isinstance(st_.value, ast.Call) for x_ in ast.walk(st_)}
        for n_ in walk_local(fn.node):
            if id(n_) in discarded:
                continue
            if isinstance(n_, ast.Attribute) and isinstance(n_.value, ast.Name) and n_.value.id == "self":
                callee = an_cls.methods.get(n_.attr)
                if callee is not None:
                    ok_, why_ = tree_pure(callee, seen)
                    if not ok_:
                        return False, why_
                    continue
                return False, f"{fn.short} reads self.{n_.attr}"
        return True, ""

    n_rw = 0
    for m_ in an_cls.methods.values():
        if not m_.name.startswith("visit_"):
            continue
        node_params = [p_ for p_ in m_.params if p_ != "self"]
        du_m = DefUse(m_)
        for n_ in walk_local(m_.node):
            if isinstance(n_, ast.Assign) and isinstance(n_.targets[0], ast.Attribute) and isinstance(n_.targets[0].value, ast.Name) and n_.targets[0].value.id in node_params \
                    and n_.targets[0].attr in all_fields:
                n_rw += 1
                helpers = [c_ for v_ in [n_.value] + du_m.expand(n_.value) for c_ in ast.walk(v_) if isinstance(c_, ast.Call) and isinstance(c_.func, ast.Attribute) and isinstance(c_.func.value, ast.Name)
                           and c_.func.value.id == "self" and c_.func.attr in an_cls.methods]
                ok_, why_ = True, ""
                for h_ in helpers:
                    ok_, why_ = tree_pure(an_cls.methods[h_.func.attr], set())
                    if not ok_:
                        break
                direct = [x_ for v_ in [n_.value] + du_m.expand(n_.value) for x_ in ast.walk(v_) if isinstance(x_, ast.Attribute) and isinstance(x_.value, ast.Name) and x_.value.id == "self" and x_.attr not in an_cls.methods]
                if direct:
                    ok_, why_ = False, f"value reads self.{direct[0].attr}"
                rep.check(ok_, "C16-R6", f"{m_.short} replaces .{n_.targets[0].attr} of the shared node by a function of the syntax only",
                          f"via {[h_.func.attr for h_ in helpers]}" if ok_ else f"{why_}: the rewritten node is reused by every later iteration of an enclosing loop (and by every inlined call)", m_.loc(n_))
    rep.floor("C16-R6", "syntax-tree rewrites in the analyzer", n_rw, 1)

    # ---------------- R4 ---------------------------------------------------------------
    rep.rule("C16-R4", "ids registered by declarations in a loop body are fresh per iteration (ir_builder.next_id in the backward slice)")
    n_ids = 0
    for f in rs.reachable([repo.func("StatementLowerer.lower_statement")]):
        if ".lowering." not in f.module.name + ".":
            continue
        for c in calls_in(f.node):
            nm = call_name(c)
            if nm in ("memory_create", "place_entity") and c.args:
                n_ids += 1
                leaves = DefUse(f).leaves(c.args[0])
                fresh = any(l.kind == "call" and l.text == "next_id" for l in leaves)
                rep.check(fresh, "C16-R4", f"{f.short}: id passed to {nm} is fresh per iteration",
                          f"{norm(c.args[0])} derives from {sorted(str(l) for l in leaves if l.kind != 'const')}", f.loc(c))
    rep.floor("C16-R4", "declaration id sites", n_ids, 2)
    # node ids spelled out by the lowerer (f-string handed to an IR node constructor): unique per expansion only if some interpolated part is an IR-level id
    # (an entity/memory id looked up in the lowerer's tables, a fresh id, the id of another node) — the DSL name is the same in every iteration
    n_exp = 0
    for f in repo.all_funcs():
        if ".lowering." not in f.module.name + ".":
            continue
        cf_ = None
        for c in calls_in(f.node):
            if call_name(c).startswith("IR") and c.args and isinstance(c.args[0], ast.JoinedStr):
                cf_ = cf_ or canon(f)
                parts = [cf_.text(v.value) for v in c.args[0].values if isinstance(v, ast.FormattedValue)]
                n_exp += 1
                unique = [p_ for p_ in parts if re.search(r"self\.parent\.(entity_refs|memory_refs)\[|next_id\(|\.node_id\b|\.source_id\b|_id\b", p_)]
                rep.check(bool(unique), "C16-R4", f"{f.short}: explicit id of {call_name(c)} is unique per iteration",
                          f"contains {unique[0][:60]}" if unique else
                          f"built from {[p_[:40] for p_ in parts]} only: every iteration that declares the same name produces the same node id, and the copies collapse into one node", f.loc(c))
    rep.floor("C16-R4", "explicit node ids in the lowerer", n_exp, 1)

    # ---------------- R11 --------------------------------------------------------------
    rep.rule("C16-R11", "inside a function body the iterator (and what the body declares) shadows a parameter of the same name: identifiers are looked up in the parameter table "
             "first, so lower_for_stmt takes the iteration's names out of that table for the duration of the loop and puts the table back afterwards — otherwise "
             "`func f(int i, ...) { for i in 0..3 { ... i ... } }` lowers every iteration with the argument")
    li11 = repo.func("ExpressionLowerer.lower_identifier")
    first_tbl = None
    for n11 in walk_local(li11.node):
        if isinstance(n11, ast.If) and isinstance(n11.test, ast.Compare) and isinstance(n11.test.ops[0], ast.In):
            first_tbl = norm(n11.test.comparators[0])
            break
    lf11 = repo.func("StatementLowerer.lower_for_stmt")
    loops11 = [n for n in walk_local(lf11.node) if isinstance(n, ast.For) and "iteration_values" in norm(n.iter)]
    if first_tbl is None or not loops11:
        raise AnalysisError("C16-R11: lower_identifier's first table or the iteration loop was not found")
    if first_tbl == "self.parent.param_values":
        stores11 = [n for n in walk_local(lf11.node) if isinstance(n, ast.Assign) and norm(n.targets[0]) == first_tbl]
        hide = [n for n in stores11 if n.lineno < loops11[0].lineno and isinstance(n.value, (ast.DictComp,)) and any(isinstance(c, ast.Compare) and isinstance(c.ops[0], ast.NotIn) for c in ast.walk(n.value))]
        back = [n for n in stores11 if n.lineno > (loops11[0].end_lineno or 0) and isinstance(n.value, ast.Name)]
        ok11 = bool(hide) and bool(back)
        rep.check(ok11, "C16-R11", "lower_for_stmt hides the iteration's names from the parameter table and restores it", "filtered before the loop, restored after" if ok11 else
                  "the parameter table is left as it is: an iterator or body-local named like a parameter is read as the argument in every iteration", lf11.loc(loops11[0]))
    else:
        rep.ok("C16-R11", "lower_identifier looks declared names up before parameters", first_tbl, li11.loc())

    # ---------------- R12 --------------------------------------------------------------
    rep.rule("C16-R12", "inside the body the iterator is the number of the iteration, for the analyzer as for the lowerer: the symbol the analyzer defines for it carries the "
             "iteration's value (`IntValue(value=<the loop variable>)`), so a bound or step of a nested loop written with the outer iterator resolves as it does in the "
             "unrolled program — a value-less int makes `for i in 1..3 { for j in 0..i { ... } }` end in an uncaught ValueError")
    vf12 = repo.func("SemanticAnalyzer.visit_ForStmt")
    loops12 = [n for n in walk_local(vf12.node) if isinstance(n, ast.For) and isinstance(n.target, ast.Name) and any(call_name(c) == "Symbol" for c in calls_in(n))]
    if not loops12:
        raise AnalysisError("C16-R12: the analyzer's per-iteration loop with the iterator symbol was not found")
    for lp12 in loops12:
        for c12 in calls_in(lp12, "Symbol"):
            vt = kwarg(c12, "value_type")
            if vt is None or not (isinstance(vt, ast.Call) and call_name(vt) == "IntValue"):
                continue
            val = kwarg(vt, "value") if vt.keywords else (vt.args[0] if vt.args else None)
            ok12 = val is not None and isinstance(val, ast.Name) and val.id == lp12.target.id
            rep.check(ok12, "C16-R12", "visit_ForStmt: the iterator symbol carries the iteration's value", f"IntValue(value={lp12.target.id})" if ok12 else
                      f"`{norm(vt)}`: the analyzer knows the iterator as an int without a value; bounds of nested loops that mention it cannot be resolved", vf12.loc(c12))

    # ---------------- R13 --------------------------------------------------------------
    rep.rule("C16-R13", "a number used while lowering comes from the lowering's own tables, never from the analyzer's type cache: the analyzer caches the type of an expression "
             "by syntax node, a loop body (and a function body) is one syntax tree for all its expansions, so a cached `IntValue.value` is the value of one iteration — "
             "wherever a lowering function asks `get_expr_type(<node>)`, the `.value` of the answer is not read (the type's *kind* and signal may be)")
    n13 = 0
    for f13 in repo.all_funcs():
        if ".lowering." not in f13.module.name + ".":
            continue
        c13 = None
        for n_ in walk_local(f13.node):
            if not (isinstance(n_, ast.Attribute) and n_.attr == "value" and isinstance(n_.ctx, ast.Load)):
                continue
            c13 = c13 or canon(f13)
            base_alts = c13.alts(n_.value, None) if isinstance(n_.value, ast.Name) else [c13.text(n_.value)]
            hits = [a for a in base_alts if re.search(r"\.get_expr_type\(", a) and not a.rstrip(")").endswith(".value")]
            # `get_expr_type(x.value)` asks for the type of a sub-node: that is a question, not a read of a cached number
            hits = [a for a in hits if re.match(r"^(self\.(parent\.)?semantic|self\.semantic)\.get_expr_type\(", a) or ".semantic.get_expr_type(" in a]
            if hits:
                n13 += 1
                rep.bad("C16-R13", f"{f13.short}: reads `.value` of a type the analyzer cached for a syntax node", f"`{hits[0][:90]}.value`: inside a loop or function body this is the "
                        "number of whichever expansion the analyzer saw first, not of the one being lowered", f13.loc(n_))
    if n13 == 0:
        rep.ok("C16-R13", "no lowering function reads a number out of the analyzer's type cache", "get_expr_type answers are used for kind and signal only", "")

    # ---------------- R5 ---------------------------------------------------------------
    rep.rule("C16-R5", "the transformer takes start and stop from the first and second bound, the step from the bound after STEP_KW "
             "(default 1), list values in source order, and passes them to ForStmt under the same names")
    tr = repo.cls("DSLTransformer")
    ri = tr.methods["range_iterator"]
    ret = [n for n in walk_local(ri.node) if isinstance(n, ast.Return) and isinstance(n.value, ast.Dict)]
    if not ret:
        raise AnalysisError("C16-R5: range_iterator result dict not found")
    dn = {k.value: v for k, v in zip(ret[0].value.keys, ret[0].value.values) if isinstance(k, ast.Constant)}
    cri = canon(ri)
    dur = DefUse(ri)
    st_, sp_ = dn.get("start"), dn.get("stop")
    ok = isinstance(st_, ast.Subscript) and isinstance(sp_, ast.Subscript) and isinstance(st_.value, ast.Name) and isinstance(sp_.value, ast.Name) and st_.value.id == sp_.value.id \
        and norm(st_.slice) == "0" and norm(sp_.slice) == "1"
    if ok:
        adds = [v for v, how, _ in dur.defs.get(st_.value.id, []) if how == "elem-add"]
        ok = len(adds) == 1 and re.fullmatch(r"items\[.+\]", cri.text(adds[0])) is not None and not any(call_name(c) in ("sorted", "reversed", "sort", "reverse", "insert") for c in calls_in(ri.node))
    rep.check(ok, "C16-R5", "range_iterator: start is the first bound, stop the second", "start = bounds[0], stop = bounds[1]; bounds appended in item order" if ok else str({k: norm(v) for k, v in dn.items()}), ri.loc(ret[0]))
    step_alts = sorted(cri.alts(dn["step"])) if "step" in dn else []
    step_src = [n for n in walk_local(ri.node) if isinstance(n, ast.Assign) and isinstance(dn.get("step"), ast.Name) and norm(n.targets[0]) == dn["step"].id and not isinstance(n.value, ast.Constant)]
    ok_step = len(step_alts) == 2 and "1" in step_alts and bool(step_src)
    for s_ in step_src:
        m_ = re.fullmatch(r"items\[(.+) \+ 1\]", cri.text(s_.value))
        ok_step = ok_step and m_ is not None and any(pol and f"items[{m_.group(1)}].type == 'STEP_KW'" in g for g, pol in cguards(ri, s_))
    rep.check(ok_step, "C16-R5", "range_iterator: step is the bound following STEP_KW", "; ".join(step_alts)[:120], ri.loc(step_src[0]) if step_src else ri.loc())
    # a bound is a number or a name (range_bound returns int | str): the step is taken whichever it is
    rb = tr.methods["range_bound"]
    kinds = set()
    for r_ in [n for n in walk_local(rb.node) if isinstance(n, ast.Return) and n.value is not None]:
        t_ = norm(r_.value)
        kinds.add("str" if t_.startswith("str(") else "int" if "_parse_number(" in t_ else next((g.split(", ")[-1].rstrip(")") for g, pol in cguards(rb, r_) if pol and g.startswith("isinstance(") and g.split(", ")[-1].rstrip(")") in ("int", "str")), "?"))
    for s_ in step_src:
        for g, pol in cguards(ri, s_):
            for m_ in re.finditer(r"isinstance\(items\[[^\]]+ \+ 1\], (\([^)]*\)|\w+)\)", g):
                got = set(re.findall(r"\w+", m_.group(1)))
                okk = pol and {"int", "str"} <= got
                rep.check(okk, "C16-R5", "range_iterator: the step is taken whether it is a number or a name", f"accepts {sorted(got)}" if okk else
                          f"the step is read only when it is {sorted(got)}{'' if pol else ' (negated)'}; range_bound yields {sorted(kinds)}: `step k` with an int variable silently becomes step 1", ri.loc(s_))
    rep.check({"int", "str"} <= kinds, "C16-R5", "range_bound yields a number or a name", str(sorted(kinds)), rb.loc())
    li = tr.methods["list_iterator"]
    ok_li = any(isinstance(n, ast.For) and norm(n.iter) == "items" for n in walk_local(li.node)) and any(call_name(c) == "append" for c in calls_in(li.node)) and not any(call_name(c) in ("sorted", "reversed", "sort", "reverse", "set") for c in calls_in(li.node))
    rep.check(ok_li, "C16-R5", "list_iterator keeps the listed values in source order", "appends in item order" if ok_li else "values are reordered or deduplicated", li.loc())
    n_ctor = 0
    for m in tr.methods.values():
        for c in calls_in(m.node, "ForStmt"):
            n_ctor += 1
            for kw in ("start", "stop", "step", "values"):
                v = kwarg(c, kw)
                if v is None:
                    continue
                t = norm(v)
                ok = t == "None" or f'"{kw}"' in t.replace("'", '"')
                rep.check(ok, "C16-R5", f"{m.short}: ForStmt.{kw} receives the iterator's {kw}", f"{kw}={t}", m.loc(c))
            sv = kwarg(c, "step")
            if sv is not None and "get(" in norm(sv):
                dflt = sv.args[1] if isinstance(sv, ast.Call) and len(sv.args) == 2 else None
                rep.check(dflt is not None and norm(dflt) == "1", "C16-R5", f"{m.short}: missing step defaults to 1", norm(sv), m.loc(c))
    rep.floor("C16-R5", "ForStmt constructor sites in the transformer", n_ctor, 2)

    # ---------------- R7 ---------------------------------------------------------------
    rep.rule("C16-R7", "inside a function inlined from a loop body a parameter named like the iterator wins: name resolvers consult the parameter environment before outer names (shared with C06-R5/C15-R5)")
    from .shared import identifier_resolvers as _idres
    _idres(repo, rep, "C16-R7")

    # ---------------- R8 ---------------------------------------------------------------
    from .shared import borrow as _borrow16
    _borrow16(repo, rep, "C15", "C15-R9", "C16-R8", "the iterator keeps its value across a call made in the loop body: the lowerer's name tables are put back from a snapshot after a "
              "function body, so a callee-local named like the iterator cannot replace it", floor=2)

    # ---------------- R9 ---------------------------------------------------------------
    _borrow16(repo, rep, "C15", "C15-R3", "C16-R9", "a memory declared in a loop body is one cell per iteration: the re-declaration is recognised by id",
              select=lambda o: "indexes every node" in o.construct, floor=1)

    # ---------------- R10 --------------------------------------------------------------
    _borrow16(repo, rep, "C15", "C15-R16", "C16-R10", "a loop written in a function body is part of the function: the transformer's body filter keeps ForStmt", floor=1)
