"""C01 Scalar expressions compute what the source says — structural clauses (a)-(d); (e) circuit behaviour is not decided.

R1 precedence ladder and associativity read from the compiled grammar, compared with the documented order *between operator literals*
R2 transformer nesting (left-nested chains, right-nested power, unary wraps its operand, and/or normalised)
R3 operator table agreement across grammar, analyzer, lowerer, DSL->Factorio map
R4 operand order from the AST through builder, IR node, placer keys to the emitter's first/second slots
R5 desugarings of && and || as builder terms, evaluated in a small combinator algebra; logical-chain folding only over one operator
R6 result-type decision table
"""

from __future__ import annotations

import ast
import itertools

from ..core import AnalysisError, NotConstant, Repo, Report, call_name, calls_in, class_const, kwarg, module_const, norm, parents_map, walk_local
from ..dataflow import Canon, DefUse
from ..grammar import load_grammar
from ..sides import side_flows, slot_side
from ..sites import guard_chain

# documented order, loosest first; operators on one line share a level
LADDER = [
    ["||", "or"], ["&&", "and"], [":"], ["==", "!=", "<", "<=", ">", ">="], ["|"], ["OR"], ["XOR"], ["AND"],
    ["<<", ">>"], ["+", "-"], ["*", "/", "%"], ["**"],
]
UNARY = ["+", "-", "!"]


def _levels(g) -> tuple[dict[str, int], dict[str, str], dict[str, int]]:
    """operator literal -> depth of the rule it occurs in on the unit chain from `expr`; rule assoc; unary depth."""
    depth: dict[str, int] = {}
    cur = "expr"
    order = []
    seen = set()
    while cur and cur not in seen:
        seen.add(cur)
        order.append(cur)
        exps = g.expansions(cur)
        nxt = None
        for r in exps:
            flat = g.inline(r.expansion)
            for seq in flat:
                if len(seq) == 1 and not seq[0].isupper():
                    nxt = seq[0]
        # first nonterminal of the longest expansion is the next tighter level
        if nxt is None:
            for r in exps:
                firsts = [s for s in r.expansion if not s.isupper() and not s.startswith("__") and s != cur]
                if firsts:
                    nxt = firsts[0]
                    break
        cur = nxt
    lit_level: dict[str, int] = {}
    assoc: dict[str, str] = {}
    unary_level: dict[str, int] = {}
    for d, rule in enumerate(order):
        for r in g.expansions(rule):
            for seq in g.inline(r.expansion):
                terms = [s for s in seq if s.isupper() and g.literals(s)]
                nts = [s for s in seq if not s.isupper()]
                if not terms:
                    continue
                for t in terms:
                    if t in ("LPAR", "RPAR", "LSQB", "RSQB", "COMMA", "DOT", "LBRACE", "RBRACE", "EQUAL"):
                        continue
                    prefix = seq and seq[0] == t
                    for lit in g.literals(t):
                        if prefix:
                            unary_level.setdefault(lit, d)
                        else:
                            lit_level.setdefault(lit, d)
                            if nts and nts[-1] == rule and nts[0] != rule:
                                assoc[lit] = "right"
                            else:
                                assoc.setdefault(lit, "left")
    return lit_level, assoc, unary_level


# ---- tiny combinator algebra for R5 ------------------------------------------------------------


def _ev(t, L, R):
    if t == "L":
        return L
    if t == "R":
        return R
    if isinstance(t, int):
        return t
    k = t[0]
    if k == "ar":
        a, b = _ev(t[2], L, R), _ev(t[3], L, R)
        return {"*": a * b, "+": a + b, "-": a - b}[t[1]]
    if k == "dec":
        a, b = _ev(t[2], L, R), _ev(t[3], L, R)
        ok = {"!=": a != b, "==": a == b, ">": a > b, "<": a < b, ">=": a >= b, "<=": a <= b}[t[1]]
        return _ev(t[4], L, R) if ok else 0
    raise AnalysisError(f"C01-R5: unknown term {t}")


def _builder_paths(f) -> list[tuple[bool, object]]:
    """(boolean-path?, returned term) for each path of a _lower_logical_* function."""
    out = []

    def run(stmts, env, boolean):
        for i, st in enumerate(stmts):
            if isinstance(st, ast.If):
                t = norm(st.test)
                if "is_bool" in t:
                    run(list(st.body) + stmts[i + 1:], dict(env), True)
                    run(list(st.orelse) + stmts[i + 1:], dict(env), False)
                    return
                if t.startswith("isinstance(") and ", int)" in t:
                    # materialising an int literal keeps its value
                    continue
                raise AnalysisError(f"C01-R5: unrecognised branch `{t}` in {f.short}")
            if isinstance(st, ast.Assign) and isinstance(st.targets[0], ast.Name) and isinstance(st.value, ast.Call):
                c = st.value
                fn = call_name(c)
                if fn == "arithmetic" and isinstance(c.args[0], ast.Constant):
                    env[st.targets[0].id] = ("ar", c.args[0].value, term(c.args[1], env), term(c.args[2], env))
                elif fn == "decider" and isinstance(c.args[0], ast.Constant):
                    env[st.targets[0].id] = ("dec", c.args[0].value, term(c.args[1], env), term(c.args[2], env), term(c.args[3], env))
                elif fn in ("_is_boolean_producer",):
                    pass
                elif fn == "const":
                    env[st.targets[0].id] = term(c.args[1], env)
                else:
                    raise AnalysisError(f"C01-R5: unrecognised builder call {norm(c)[:50]} in {f.short}")
            elif isinstance(st, ast.Return):
                out.append((boolean, term(st.value, env)))
                return
            elif isinstance(st, ast.Expr):
                continue
            else:
                raise AnalysisError(f"C01-R5: unrecognised statement {norm(st)[:50]} in {f.short}")

    def term(e, env):
        if isinstance(e, ast.Constant) and isinstance(e.value, int):
            return e.value
        if isinstance(e, ast.Name):
            if e.id in env:
                return env[e.id]
            if e.id == "left_ref":
                return "L"
            if e.id == "right_ref":
                return "R"
        raise AnalysisError(f"C01-R5: unrecognised operand {norm(e)} in {f.short}")

    body = [s for s in f.node.body if not (isinstance(s, ast.Expr) and isinstance(s.value, ast.Constant))]
    run(body, {}, None)
    return out


def run(repo: Repo, rep: Report, tier: str) -> None:
    g = load_grammar(repo)
    # ---------------- R1 ---------------------------------------------------------------
    rep.rule("C01-R1", "for every infix operator literal reachable from `expr`, its level (depth of its rule on the unit chain) respects the documented strict order between operator literals; "
             "`**` is right-recursive, every other infix operator is folded from a repetition; prefix operators bind tighter than every infix operator")
    lit_level, assoc, unary_level = _levels(g)
    rep.floor("C01-R1", "infix operator literals in the grammar", len(lit_level), 20)
    flat = [(lit, i) for i, grp in enumerate(LADDER) for lit in grp]
    for lit, i in flat:
        if lit not in lit_level:
            rep.bad("C01-R1", f"operator '{lit}' is part of the expression grammar", "literal not found on the precedence chain", "dsl_compiler/grammar/facto.lark:1")
    for (a, i), (b, j) in itertools.combinations(flat, 2):
        if a not in lit_level or b not in lit_level:
            continue
        if i == j:
            ok = lit_level[a] == lit_level[b]
            rel = "binds like"
        else:
            ok = lit_level[a] < lit_level[b]
            rel = "binds looser than"
        if not ok or (j == i + 1 and a == LADDER[i][0] and b == LADDER[j][0]) or (i == j and a == LADDER[i][0]):
            rep.check(ok, "C01-R1", f"'{a}' {rel} '{b}'", f"grammar levels {lit_level[a]} and {lit_level[b]}", "dsl_compiler/grammar/facto.lark:1")
    for lit, _ in flat:
        if lit in assoc:
            want = "right" if lit == "**" else "left"
            rep.check(assoc[lit] == want, "C01-R1", f"'{lit}' associates to the {want}", f"grammar shape: {assoc[lit]}", "dsl_compiler/grammar/facto.lark:1")
    tight = max(lit_level.values())
    for u in UNARY:
        rep.check(u in unary_level and unary_level[u] > tight, "C01-R1", f"prefix '{u}' binds tighter than every infix operator", f"level {unary_level.get(u)} vs tightest infix {tight}", "dsl_compiler/grammar/facto.lark:1")

    # ---------------- R2 ---------------------------------------------------------------
    rep.rule("C01-R2", "the transformer builds, for a chain of n operands, a left-nested BinaryOp chain whose accumulated result is the left child and the next item the right child with the operator "
             "between them; power puts items[0] left and the recursive result right; unary wraps items[1] under items[0]; `and`/`or` are normalised to &&/||")
    tr = repo.cls("DSLTransformer")
    h = tr.methods["_handle_binary_op_chain"]
    ch = Canon(h)
    bops = calls_in(h.node, "BinaryOp")
    rep.floor("C01-R2", "BinaryOp constructions in the chain handler", len(bops), 2)
    for c in bops:
        l, r, o = ch.text(kwarg(c, "left")), ch.text(kwarg(c, "right")), ch.alts(kwarg(c, "op"))
        if l == "items[0]":
            ok = r == "items[2]" and any(x in ("str(items[1])",) for x in o)
            shape = "three-item form"
        else:
            # loop form: the left child is the loop-carried accumulator (it stands for items[0] or for the node built in the previous round),
            # the right child is the item after the operator, the operator is the item at the loop index
            ok = "REC" in l and "items[0]" in l and r.startswith("items[") and r.endswith("+ 1]") and any(x.startswith("str(items[") and x != "str(items[1])" for x in o)
            shape = "loop form"
        rep.check(ok, "C01-R2", f"chain handler ({shape}): left = accumulated result, right = next operand, op = the token between them", f"left={l[:60]} right={r[:40]}", h.loc(c))
    loopinc = [n for n in walk_local(h.node) if isinstance(n, ast.AugAssign) and isinstance(n.op, ast.Add) and isinstance(n.value, ast.Constant) and n.value.value == 2]
    rets = [ch.text(n.value) for n in walk_local(h.node) if isinstance(n, ast.Return) and n.value is not None]
    ok = bool(loopinc) and any("REC" in t or "BinaryOp(" in t for t in rets)
    rep.check(ok, "C01-R2", "chain handler walks operator/operand pairs left to right (index += 2) and returns the accumulated node", f"returns {[t[:40] for t in rets]}", h.loc())
    for level in ("comparison", "bitwise_or", "bitwise_xor", "bitwise_and", "shift", "add", "mul", "logic_or", "logic_and"):
        m = tr.methods.get(level)
        if m is None:
            rep.bad("C01-R2", f"transformer method for grammar level `{level}`", "missing", tr.loc())
            continue
        c = calls_in(m.node, "_handle_binary_op_chain")
        rep.check(bool(c) and norm(c[0].args[0]) == "items", "C01-R2", f"`{level}` delegates to the chain handler", norm(c[0]) if c else "does not use the chain handler", m.loc())
        if level.startswith("logic"):
            nz = bool(c) and (len(c[0].args) > 1 or kwarg(c[0], "normalize_op") is not None)
            rep.check(nz, "C01-R2", f"`{level}` normalises keyword operators", norm(c[0]) if c else "", m.loc())
    nl = tr.methods["_normalize_logical_op"]
    pairs = {}
    for n in walk_local(nl.node):
        if isinstance(n, ast.If) and isinstance(n.body[0], ast.Return):
            lit = [x.value for x in ast.walk(n.test) if isinstance(x, ast.Constant) and isinstance(x.value, str)]
            if lit:
                pairs[lit[0]] = n.body[0].value.value if isinstance(n.body[0].value, ast.Constant) else None
    rep.check(pairs == {"and": "&&", "or": "||"}, "C01-R2", "and -> &&, or -> ||", str(pairs), nl.loc())
    pw = tr.methods["power"]
    c = calls_in(pw.node, "BinaryOp")
    cpw = Canon(pw)
    ok = bool(c) and norm(kwarg(c[0], "op")) == "'**'" and cpw.text(kwarg(c[0], "left")) == "items[0]" and "items[2]" in cpw.text(kwarg(c[0], "right"))
    rep.check(ok, "C01-R2", "power: items[0] ** (recursive result)", f"left={cpw.text(kwarg(c[0], 'left'))} right={cpw.text(kwarg(c[0], 'right'))}" if c else "", pw.loc())
    un = tr.methods["unary"]
    c = calls_in(un.node, "UnaryOp")
    cun = Canon(un)
    ok = bool(c) and cun.text(kwarg(c[0], "op")) == "str(items[0])" and cun.text(kwarg(c[0], "expr")) == "items[1]"
    rep.check(ok, "C01-R2", "unary: operator items[0] applied to items[1]", f"op={cun.text(kwarg(c[0], 'op'))} expr={cun.text(kwarg(c[0], 'expr'))}" if c else "", un.loc())

    # ---------------- R3 ---------------------------------------------------------------
    rep.rule("C01-R3", "every binary operator literal of the grammar (after and/or normalisation) is in exactly one analyzer category and one lowerer category of the same kind; "
             "the lowerer passes the AST's operator to the IR builder (identity, or `**` -> `^`)")
    an = repo.cls("SemanticAnalyzer")
    A = {k: set(class_const(repo, an, k)) for k in ("ARITHMETIC_OPS", "BITWISE_OPS", "COMPARISON_OPS", "LOGICAL_OPS")}
    lm = repo.module("lowering.expression_lowerer")
    try:
        Lw = {k: module_const(repo, lm, k) for k in ("ARITHMETIC_OPS", "SHIFT_OPS", "BITWISE_OPS", "COMPARISON_OPS", "LOGICAL_OPS", "POWER_OP")}
    except NotConstant as e:
        raise AnalysisError(f"C01-R3: lowerer operator sets not literal: {e}") from e
    Lw = {k: ({v} if isinstance(v, str) else set(v)) for k, v in Lw.items()}
    gram_ops = {(pairs.get(l, l)) for l in lit_level if l not in (":", "|")}
    kind_a = {"arith": A["ARITHMETIC_OPS"] | A["BITWISE_OPS"], "cmp": A["COMPARISON_OPS"], "logic": A["LOGICAL_OPS"]}
    kind_l = {"arith": Lw["ARITHMETIC_OPS"] | Lw["SHIFT_OPS"] | Lw["BITWISE_OPS"] | Lw["POWER_OP"], "cmp": Lw["COMPARISON_OPS"], "logic": Lw["LOGICAL_OPS"]}
    for o in sorted(gram_ops):
        ka = [k for k, s in kind_a.items() if o in s]
        kl = [k for k, s in kind_l.items() if o in s]
        n_l = sum(1 for s in Lw.values() if o in s)
        rep.check(len(ka) == 1 and ka == kl and n_l == 1, "C01-R3", f"operator '{o}' has one category, the same in analyzer and lowerer", f"analyzer {ka}, lowerer {kl} ({n_l} set(s))", lm.rel + ":1")
    el = repo.cls("ExpressionLowerer")
    for mname, builder_fn in (("_lower_arithmetic_op", "arithmetic"), ("_lower_arithmetic_like_op", "arithmetic"), ("_lower_comparison_op", "decider")):
        m = el.methods[mname]
        c = calls_in(m.node, builder_fn)
        a0 = Canon(m).text(c[0].args[0]) if c else ""
        ok = a0 == "expr.op" or a0.endswith(".get(expr.op, expr.op)")
        rep.check(ok, "C01-R3", f"{mname} hands the AST's operator to ir_builder.{builder_fn}", f"first argument {a0}", m.loc(c[0]) if c else m.loc())
    mp = None
    for n in walk_local(el.methods["_lower_arithmetic_like_op"].node):
        if isinstance(n, ast.Dict) and n.keys and all(isinstance(k, ast.Constant) for k in n.keys):
            mp = {k.value: v.value for k, v in zip(n.keys, n.values) if isinstance(v, ast.Constant)}
    rep.check(mp == {"**": "^"}, "C01-R3", "DSL -> Factorio operator map is {'**': '^'} (identity elsewhere)", str(mp), el.methods["_lower_arithmetic_like_op"].loc())
    lb = el.methods["lower_binary_op"]
    disp = {}
    for n in walk_local(lb.node):
        if isinstance(n, ast.If) and "expr.op" in norm(n.test) and n.body and isinstance(n.body[0], ast.Return) and isinstance(n.body[0].value, ast.Call):
            disp[norm(n.test)] = call_name(n.body[0].value)
    want = {"expr.op in ARITHMETIC_OPS": "_lower_arithmetic_op", "expr.op == POWER_OP or expr.op in SHIFT_OPS or expr.op in BITWISE_OPS": "_lower_arithmetic_like_op",
            "expr.op in COMPARISON_OPS": "_lower_comparison_op", "expr.op in LOGICAL_OPS": "_lower_logical_op"}
    rep.check(all(disp.get(k) == v for k, v in want.items()), "C01-R3", "lower_binary_op dispatches each category to its handler", str(disp), lb.loc())

    # ---------------- R4 ---------------------------------------------------------------
    rep.rule("C01-R4", "left/right of the AST node stay left/right: lower_expr(expr.left) -> builder `left` -> IR .left -> placement left_operand -> first_* slot (and right -> second_*)")
    clb = Canon(lb)
    n_disp = 0
    for n in walk_local(lb.node):
        if isinstance(n, ast.Return) and isinstance(n.value, ast.Call) and call_name(n.value).startswith("_lower_") and len(n.value.args) >= 3 and norm(n.value.args[0]) == "expr":
            n_disp += 1
            la, ra = clb.text(n.value.args[1]), clb.text(n.value.args[2])
            rep.check(la == "self.lower_expr(expr.left)" and ra == "self.lower_expr(expr.right)", "C01-R4", f"lower_binary_op -> {call_name(n.value)}(expr, <lowered expr.left>, <lowered expr.right>, ...)", f"{la} / {ra}", lb.loc(n))
    rep.floor("C01-R4", "category dispatches in lower_binary_op", n_disp, 4)
    for mname in ("_lower_arithmetic_op", "_lower_arithmetic_like_op", "_lower_comparison_op"):
        m = el.methods[mname]
        pnames = m.params
        for c in calls_in(m.node):
            if call_name(c) in ("arithmetic", "decider") and "ir_builder" in norm(c.func):
                rep.check(norm(c.args[1]) == pnames[2] and norm(c.args[2]) == pnames[3], "C01-R4", f"{mname}: builder receives its (left, right) parameters in order", norm(c)[:90], m.loc(c))
    b = repo.cls("IRBuilder")
    for mname in ("arithmetic", "decider"):
        m = b.methods[mname]
        st = {norm(n.targets[0]).split(".")[-1]: norm(n.value) for n in walk_local(m.node) if isinstance(n, ast.Assign) and isinstance(n.targets[0], ast.Attribute) and n.targets[0].attr in ("left", "right", "op", "test_op", "output_value")}
        ok = st.get("left") == "left" and st.get("right") == "right"
        rep.check(ok, "C01-R4", f"IRBuilder.{mname} stores left/right in the same-named fields", str(st), m.loc())
    ep = repo.cls("EntityPlacer")
    for mname in ("_place_arithmetic", "_place_single_condition_decider"):
        m = ep.methods[mname]
        cm = Canon(m)
        c = calls_in(m.node, "create_and_add_placement")
        if not c:
            rep.bad("C01-R4", f"{mname}: placement created", "create_and_add_placement missing", m.loc())
            continue
        lo, ro, opr = cm.text(kwarg(c[0], "left_operand")), cm.text(kwarg(c[0], "right_operand")), cm.text(kwarg(c[0], "operation"))
        ok = "op.left" in lo and "op.right" not in lo and "op.right" in ro and "op.left" not in ro and opr in ("op.op", "op.test_op")
        rep.check(ok, "C01-R4", f"{mname}: left_operand from op.left, right_operand from op.right, operation from the node", f"{lo} / {ro} / {opr}", m.loc(c[0]))
    em = repo.cls("PlanEntityEmitter")
    # an operand without a recorded wire selection reads both colours: the planner records a selection only where it determined one, so the
    # configurators' fallback must not narrow the operand to one colour
    n_def = 0
    for fn in ("_configure_decider", "_configure_arithmetic"):
        for c in calls_in(em.methods[fn].node, "get"):
            if len(c.args) == 2 and isinstance(c.args[0], ast.Constant) and isinstance(c.args[0].value, str) and c.args[0].value.endswith("_operand_wires"):
                n_def += 1
                d_ = c.args[1]
                vals = {e.value for e in d_.elts if isinstance(e, ast.Constant)} if isinstance(d_, (ast.Set, ast.List, ast.Tuple)) else None
                okd = vals == {"red", "green"}
                rep.check(okd, "C01-R4", f"{fn}: '{c.args[0].value}' defaults to both colours", "{'red', 'green'}" if okd else
                          f"default {norm(d_)}: an operand whose colour the planner did not record is cut off from the other colour and reads 0 there", em.methods[fn].loc(c))
    rep.floor("C01-R4", "operand wire-selection defaults in the configurators", n_def, 4)
    from ..sides import mirrored_stores
    for fn in ("_configure_decider", "_configure_arithmetic"):
        mirrored, mproblems = mirrored_stores(repo, em.methods[fn])
        for mp in mproblems:
            rep.bad("C01-R4", f"{fn}: comparator mirror table", mp, em.methods[fn].loc())
        for key, side, slot, node in side_flows(em.methods[fn]):
            ss = slot_side(slot)
            if ss is not None:
                if id(node) in mirrored:
                    # constant-first comparison emitted from the other side, with the mirrored comparator: right operand -> first slot, left operand -> constant
                    okm = (side == "right" and ss == "left") or (side == "left" and ss == "either")
                    rep.check(okm, "C01-R4", f"{fn}: '{key}' feeds {slot} (mirrored comparison)", "sides swapped together with the comparator" if okm else "operand sides inconsistent in the mirrored branch", em.methods[fn].loc(node))
                    continue
                rep.check(ss in (side, "either"), "C01-R4", f"{fn}: '{key}' feeds {slot}", "sides agree" if ss in (side, "either") else "operand sides crossed", em.methods[fn].loc(node))
    ca = em.methods["_configure_arithmetic"]
    cca = Canon(ca)
    st = {norm(n.targets[0]): cca.text(n.value) for n in walk_local(ca.node) if isinstance(n, ast.Assign) and isinstance(n.targets[0], ast.Attribute) and norm(n.targets[0].value) == "entity"}
    ok = st.get("entity.operation", "").startswith("props.get('operation'") and st.get("entity.first_operand") == "props.get('left_operand')" and st.get("entity.second_operand") == "props.get('right_operand')"
    rep.check(ok, "C01-R4", "arithmetic combinator: operation/first/second come from the operation/left_operand/right_operand keys", str({k: v for k, v in st.items() if 'wires' not in k and 'output' not in k}), ca.loc())
    cd = em.methods["_configure_decider"]
    ccd = Canon(cd)
    ck = [n for n in walk_local(cd.node) if isinstance(n, ast.Dict) and any(isinstance(k, ast.Constant) and k.value == "comparator" for k in n.keys)]
    rep.check(bool(ck) and ccd.text(ck[0].values[0]).startswith("props.get('operation'"), "C01-R4", "decider combinator: comparator comes from the `operation` key", ccd.text(ck[0].values[0]) if ck else "", cd.loc())

    # ---------------- R5 ---------------------------------------------------------------
    rep.rule("C01-R5", "the builder terms returned by _lower_logical_and/_or equal (L != 0) and/or (R != 0) on {-2..2}^2 (on {0,1}^2 for the boolean fast path); "
             "a logical chain is folded into one multi-condition decider only over a single operator, with combine type `and` for && and `or` for ||")
    for mname, oracle in (("_lower_logical_and", lambda L, R: int(L != 0 and R != 0)), ("_lower_logical_or", lambda L, R: int(L != 0 or R != 0))):
        m = el.methods[mname]
        paths = _builder_paths(m)
        rep.floor("C01-R5", f"paths of {mname}", len(paths), 2)
        for boolean, t in paths:
            dom = (0, 1) if boolean else (-2, -1, 0, 1, 2)
            bad = [(L, R, _ev(t, L, R), oracle(L, R)) for L in dom for R in dom if _ev(t, L, R) != oracle(L, R)]
            rep.check(not bad, "C01-R5", f"{mname} ({'boolean operands' if boolean else 'general operands'}) computes the documented truth value",
                      f"term {t}" + (f"; e.g. L={bad[0][0]}, R={bad[0][1]} gives {bad[0][2]}, expected {bad[0][3]}" if bad else f"; {len(dom) ** 2} valuations"), m.loc())
    ibp = el.methods["_is_boolean_producer"]
    cib = Canon(ibp)
    tests = {cib.text(n.test).replace("self.ir_builder.get_operation(ref.source_id)", "OP") for n in walk_local(ibp.node) if isinstance(n, ast.If)}
    rets = {cib.text(n.value).replace("self.ir_builder.get_operation(ref.source_id)", "OP") for n in walk_local(ibp.node) if isinstance(n, ast.Return) and n.value is not None}
    ok = "isinstance(OP, IRDecider) and isinstance(OP.output_value, int)" in tests and "OP.value in (0, 1)" in rets and "OP.op == '*'" in tests and "OP.op == '+' and OP.right == 0" in tests
    rep.check(ok, "C01-R5", "boolean-producer test accepts only constant-output deciders, 0/1 constants, products of booleans and `x + 0`", "four accepted shapes" if ok else f"accepted shapes changed: {sorted(tests)}", ibp.loc())
    ccc = el.methods["_collect_comparison_chain"]
    rec = [n for n in walk_local(ccc.node) if isinstance(n, ast.If) and any(call_name(c) == "_collect_comparison_chain" for s in n.body for c in ast.walk(s) if isinstance(c, ast.Call))]
    ok = bool(rec) and norm(rec[0].test) in ("isinstance(expr, BinaryOp) and expr.op == logical_op",)
    rep.check(ok, "C01-R5", "a logical chain is followed only through nested uses of the same operator",
              norm(rec[0].test) if rec else "no recursion" + ("" if ok else ""), ccc.loc(rec[0]) if rec else ccc.loc())
    if rec and not ok:
        pass
    tf = el.methods["_try_fold_logical_chain"]
    ctf = Canon(tf)
    cfd_calls = calls_in(tf.node, "_create_folded_decider")
    ok = bool(cfd_calls) and ctf.text(cfd_calls[0].args[1]) == "'and' if expr.op == '&&' else 'or'" and any(norm(c.args[1]) == "expr.op" for c in calls_in(tf.node, "_collect_comparison_chain"))
    rep.check(ok, "C01-R5", "the folded decider combines its rows with the chain's own operator", ctf.text(cfd_calls[0].args[1]) if cfd_calls else "", tf.loc())
    dm = b.methods["decider_multi"]
    cdm = Canon(dm)
    dcs = [n for n in walk_local(dm.node) if isinstance(n, ast.Call) and call_name(n) == "DeciderCondition"]
    ok = False
    if dcs:
        n = dcs[0]
        cmpt, fo, so, ct = (cdm.text(kwarg(n, k)) for k in ("comparator", "first_operand", "second_operand", "compare_type"))
        base = "ELEM(enumerate(conditions))[1]"
        ok = (cmpt, fo, so) == (base + "[0]", base + "[1]", base + "[2]") and ct == "combine_type if ELEM(enumerate(conditions))[0] > 0 else 'or'"
    rep.check(ok, "C01-R5", "decider_multi keeps each row's (comparator, left, right) order and applies the combine type from the second row on", "", dm.loc())
    cfd = el.methods["_create_folded_decider"]
    ccf = Canon(cfd)
    apps = [n for n in walk_local(cfd.node) if isinstance(n, ast.Call) and call_name(n) == "append" and isinstance(n.args[0], ast.Tuple) and len(n.args[0].elts) == 3]
    ok = bool(apps) and [ccf.text(e) for e in apps[0].args[0].elts] == ["ELEM(comparisons).op", "self.lower_expr(ELEM(comparisons).left)", "self.lower_expr(ELEM(comparisons).right)"]
    rep.check(ok, "C01-R5", "each folded row is (operator, lowered left, lowered right) of its comparison", str([ccf.text(e) for e in apps[0].args[0].elts]) if apps else "", cfd.loc())

    rep.rule("C01-R7", "the network an operand is told to read is the colour recorded for its own producer->consumer edge: spanning-tree routing may add colour entries under tree-edge keys but never replace one")
    from .shared import mst_colour_keys
    mst_colour_keys(repo, rep, "C01-R7")

    # ---------------- R6 ---------------------------------------------------------------
    rep.rule("C01-R6", "_check_signal_type_compatibility: Int x Int -> Int; Signal x Int -> the signal; Int x Signal -> the signal; Signal x Signal -> the left type on every path")
    cs = an.methods["_check_signal_type_compatibility"]
    table = {}
    for n in walk_local(cs.node):
        if isinstance(n, ast.If) and norm(n.test).startswith("isinstance(left_type,") and " and isinstance(right_type," in norm(n.test):
            key = tuple(x for x in ("IntValue", "SignalValue") for _ in [0] if False)
            l = "Int" if "isinstance(left_type, IntValue)" in norm(n.test) else "Signal"
            r = "Int" if "isinstance(right_type, IntValue)" in norm(n.test) else "Signal"
            rets = [norm(x.value.elts[0]) for s in n.body for x in ast.walk(s) if isinstance(x, ast.Return) and isinstance(x.value, ast.Tuple)]
            table[(l, r)] = set(rets)
    want = {("Int", "Int"): {"IntValue()"}, ("Signal", "Int"): {"left_type"}, ("Int", "Signal"): {"right_type"}, ("Signal", "Signal"): {"left_type"}}
    for k, v in want.items():
        rep.check(table.get(k) == v, "C01-R6", f"{k[0]} op {k[1]} -> {sorted(v)[0]}", f"returns {sorted(table.get(k, []))}", cs.loc())

    # ---------------- R8 ---------------------------------------------------------------
    rep.rule("C01-R8", "a typed literal `(type, value)` keeps its value: every IR node built while lowering a SignalLiteral takes its value operand from expr.value "
             "(a constant folded from it, or the lowered expression); no path substitutes a fixed number")
    from .util import canon as _canon8
    el8 = repo.cls("ExpressionLowerer")
    roots8 = [el8.methods["lower_signal_literal"]]
    seen8 = {roots8[0].name}
    work8 = list(roots8)
    while work8:
        f8 = work8.pop()
        for c8 in calls_in(f8.node):
            nm8 = call_name(c8)
            if isinstance(c8.func, ast.Attribute) and norm(c8.func.value) == "self" and nm8 in el8.methods and nm8 not in seen8 and c8.args and norm(c8.args[0]) == "expr" and nm8 not in ("lower_expr", "_attach_expr_context", "_resolve_signal_type"):
                seen8.add(nm8)
                roots8.append(el8.methods[nm8])
                work8.append(el8.methods[nm8])
    n8 = 0
    for f8 in roots8:
        c8n = _canon8(f8)
        for c8 in calls_in(f8.node):
            if call_name(c8) in ("const", "arithmetic", "decider") and isinstance(c8.func, ast.Attribute) and norm(c8.func.value) == "self.ir_builder":
                n8 += 1
                vals = [c8n.text(a) for a in (c8.args[1:2] if call_name(c8) == "const" else c8.args[1:3])]
                ok8 = any("expr.value" in v for v in vals)
                rep.check(ok8, "C01-R8", f"{f8.short}: value operand of ir_builder.{call_name(c8)}(...) #{n8} derives from expr.value",
                          "; ".join(v[:90] for v in vals) if ok8 else f"value operand is {vals}: the literal's value expression is dropped on this path (e.g. `(\"signal-A\", 5 * 2 - 9)` yields signal-A = 0)", f8.loc(c8))
    rep.floor("C01-R8", "IR nodes built for a typed literal", n8, 2)

    # ---------------- R9 ---------------------------------------------------------------
    from .shared import borrow as _borrow1
    _borrow1(repo, rep, "C10", "C10-R3", "C01-R9", "`cond : value` delivers the value the program wrote: deciders that differ in their output value (or any other semantic field) are never merged",
             select=lambda o: "IRDecider." in o.construct, floor=4)

    # ---------------- R10 --------------------------------------------------------------
    rep.rule("C01-R10", "`cond : value` with a value that is inlined as a literal outputs that literal: a decider placement copies the count from its input only when its output value is a "
             "signal (a copy-count decider whose value was inlined has nothing on its input to copy: `(x < 0) : (0 - 1)` would output nothing)")
    from .util import canon as _c10r
    epc = repo.cls("EntityPlacer")
    n10r = 0
    for m10r in epc.methods.values():
        cm10 = None
        for call10 in calls_in(m10r.node, "create_and_add_placement"):
            et10 = kwarg(call10, "entity_type")
            if not (isinstance(et10, ast.Constant) and et10.value == "decider-combinator"):
                continue
            cc10, ov10 = kwarg(call10, "copy_count_from_input"), kwarg(call10, "output_value")
            if cc10 is None or ov10 is None:
                continue
            cm10 = cm10 or _c10r(m10r)
            tcc, tov = cm10.text(cc10), cm10.text(ov10)
            if "op.copy_count_from_input" not in tcc or "get_operand_for_combinator(" not in tov:
                continue
            n10r += 1
            ok10 = f"isinstance({tov}, int)" in tcc and "not" in tcc
            rep.check(ok10, "C01-R10", f"{m10r.short}: copy-count mode only when the output value stays a signal",
                      "copy_count_from_input and not <reference inlined as a literal>" if ok10 else
                      f"copy_count_from_input={tcc[:60]} although output_value={tov[:60]} can be an inlined literal: the decider then copies a signal that is not on its input and outputs nothing", m10r.loc(call10))
            # ... and only then: a literal in the IR together with the flag is the lowering's own spelling of "copy every input signal" (`(b > 4) : b` is
            # `then 1 COPY` on signal-each), so the mode may be dropped only when the IR value was a reference
            ok10b = "isinstance(op.output_value, SignalRef)" in tcc
            rep.check(ok10b, "C01-R10", f"{m10r.short}: copy-count mode is dropped only for a reference that was inlined, never for the IR's own literal",
                      "the switch-off also requires isinstance(op.output_value, SignalRef)" if ok10b else
                      f"copy_count_from_input={tcc[:80]}: every literal output value loses the mode, so the bundle filter `(b > 4) : b` (IR: `then 1 COPY`) outputs 1 per kept member instead of the member's value", m10r.loc(call10))
    rep.floor("C01-R10", "decider placements with an inlinable output value", n10r, 2)

    # ---------------- R11 --------------------------------------------------------------
    rep.rule("C01-R11", "same-type addition is a wire merge, which adds what is on the wires: a constant operand of a merge is exported (record_export) so that it is always placed "
             "(an anonymous constant that is only `consumed` is treated as inlinable, and a merge cannot inline it)")
    an11 = repo.func("SignalAnalyzer.analyze")
    c11r = _c10r(an11)
    from .util import cguards as _g11
    ex11 = [k for k in calls_in(an11.node, "record_export") if c11r.text(k.args[0]) in ("ELEM(ELEM(ir_operations).sources)", "ELEM(ir_operations).sources")
            and any(pol and g == "isinstance(ELEM(ir_operations), IRWireMerge)" for g, pol in _g11(an11, k))]
    rep.check(bool(ex11), "C01-R11", "constants taking part in a wire merge are always placed",
              "sources of IRWireMerge are exported" if ex11 else
              "IRWireMerge.sources are only recorded as consumers: `Signal s = inp + (5 | \"signal-I\");` loses the 5, s equals inp", an11.loc())

    # ---------------- R12 --------------------------------------------------------------
    rep.rule("C01-R12", "a comparison is emitted with its own operands: on no path through the decider configurators does one condition receive both a `constant` and a `second_signal` "
             "(the game then compares the first signal with the second signal and ignores the constant: `5 < a` would become `signal-0 < a`); a constant on the left "
             "is mirrored to the right instead")
    def _key_paths(stmts, states, dict_names):
        """all sets of keys stored into the condition dict along the paths through `stmts` (branch feasibility ignored)"""
        for st in stmts:
            if isinstance(st, ast.If):
                a_ = _key_paths(st.body, set(states), dict_names)
                b_ = _key_paths(st.orelse, set(states), dict_names)
                states = a_ | b_
            elif isinstance(st, (ast.For, ast.While, ast.With, ast.Try)):
                states = _key_paths(getattr(st, "body", []), states, dict_names)
            elif isinstance(st, ast.Assign) and isinstance(st.targets[0], ast.Subscript) and isinstance(st.targets[0].value, ast.Name) and st.targets[0].value.id in dict_names \
                    and isinstance(st.targets[0].slice, ast.Constant):
                states = {s_ | {st.targets[0].slice.value} for s_ in states}
        return states
    n12 = 0
    for fname in ("PlanEntityEmitter._configure_decider", "PlanEntityEmitter._configure_decider_multi_condition"):
        f12 = repo.func(fname)
        # the condition dict: a local initialised with a dict display that has the key 'comparator'
        inits = [n for n in walk_local(f12.node) if isinstance(n, (ast.Assign, ast.AnnAssign)) and isinstance(n.value, ast.Dict)
                 and any(isinstance(k, ast.Constant) and k.value == "comparator" for k in n.value.keys)]
        if not inits:
            raise AnalysisError(f"C01-R12: condition dict not found in {fname}")
        for init in inits:
            tgt = init.targets[0] if isinstance(init, ast.Assign) else init.target
            name = tgt.id
            # statements that follow the initialisation in its own block
            pm12 = parents_map(f12.node)
            blk = pm12[init]
            seq = next(getattr(blk, fld) for fld in ("body", "orelse", "finalbody") if init in getattr(blk, fld, []))
            rest = seq[seq.index(init) + 1:]
            start = frozenset(k.value for k in init.value.keys if isinstance(k, ast.Constant))
            paths = _key_paths(rest, {start}, {name})
            n12 += 1
            bad12 = sorted(tuple(sorted(p_)) for p_ in paths if {"constant", "second_signal"} <= p_)
            rep.check(not bad12, "C01-R12", f"{f12.short}: no condition carries a constant and a second signal together",
                      f"{len(paths)} key combinations, none has both" if not bad12 else
                      f"a path stores {list(bad12[0])}: with the left operand a constant and the right one a signal the constant is ignored, `5 < a` is evaluated as `signal-0 < a`", f12.loc(init))
    rep.floor("C01-R12", "condition dicts analysed", n12, 2)
    # the placeholder signal stands for nothing: where a configurator writes the literal 'signal-0' as first signal (both operands are constants), the row must not
    # compare it with an operand (`signal-0 OP right` is `0 OP right`, not `left OP right`); the outcome is decided and the row compares the placeholder with 0
    n12b = 0
    for fname in ("PlanEntityEmitter._configure_decider", "PlanEntityEmitter._configure_decider_multi_condition"):
        f12 = repo.func(fname)
        for st in walk_local(f12.node):
            if isinstance(st, ast.Assign) and isinstance(st.targets[0], ast.Subscript) and isinstance(st.targets[0].slice, ast.Constant) and st.targets[0].slice.value == "first_signal" \
                    and isinstance(st.value, ast.Constant) and st.value.value == "signal-0":
                n12b += 1
                pm12b = parents_map(f12.node)
                blk = pm12b[st]
                seq = next(getattr(blk, fld) for fld in ("body", "orelse", "finalbody") if st in getattr(blk, fld, []))
                consts = [x for x in seq if isinstance(x, ast.Assign) and isinstance(x.targets[0], ast.Subscript) and isinstance(x.targets[0].slice, ast.Constant) and x.targets[0].slice.value == "constant"]
                okp = bool(consts) and all(isinstance(x.value, ast.Constant) and x.value.value == 0 for x in consts)
                rep.check(okp, "C01-R12", f"{f12.short}: a row on the placeholder signal-0 compares it with 0 (outcome decided at compile time)",
                          "constant 0 next to the placeholder" if okp else
                          f"the placeholder is compared with `{norm(consts[0].value) if consts else 'nothing'}`: with both operands constant (`p(7)` for `x > 5`, `between(11, 0, 10)`) the decider evaluates "
                          "0 OP right instead of left OP right", f12.loc(st))
    rep.floor("C01-R12", "placeholder rows in the configurators", n12b, 1)
    # ... and an operand that resolves to a literal is recorded as a constant, not as a signal name
    pmc = repo.func("EntityPlacer._place_multi_condition_decider")
    cpmc = canon(pmc) if False else _c10r(pmc)
    n12c = 0
    for st in walk_local(pmc.node):
        if isinstance(st, ast.Assign) and isinstance(st.targets[0], ast.Subscript) and isinstance(st.targets[0].slice, ast.Constant) and st.targets[0].slice.value in ("first_signal", "second_signal"):
            tv = cpmc.text(st.value)
            if "get_operand_for_combinator(" not in tv:
                continue
            n12c += 1
            from .util import cguards as _g12c
            okc = any((not pol) and g == f"isinstance({tv}, int)" for g, pol in _g12c(pmc, st))
            rep.check(okc, "C01-R12", f"{pmc.short}: `{st.targets[0].slice.value}` receives a signal name only", "stored under `not isinstance(<resolved operand>, int)`" if okc else
                      f"`{tv[:70]}` can be an inlined literal (a Signal parameter bound to a number): the integer lands in `{st.targets[0].slice.value}` and the blueprint cannot be built", pmc.loc(st))
    rep.floor("C01-R12", "resolved operands stored as condition signals", n12c, 2)

    # ---------------- R13 --------------------------------------------------------------
    from .shared import borrow as _borrow1c
    _borrow1c(repo, rep, "C15", "C15-R5", "C01-R13", "inside a function body a name means the parameter: compile-time folding of an expression looks a name up among the parameters "
              "first and stops there, so a Signal parameter is never replaced by an outer int of the same name", floor=1)

    # ---------------- R14 --------------------------------------------------------------
    rep.rule("C01-R14", "two operands of one decider that carry the same signal name are told apart by colour: the planner's wire-colour injection covers the operands of a folded "
             "(multi-condition) decider as it covers left/right of a single condition — some function it calls stores `<side>_signal_wires` into the rows of "
             "`conditions`, from the colour recorded for the operand's own edge; rows without a selection read red + green, i.e. the sum of both operands")
    iw = repo.func("LayoutPlanner._inject_wire_colors_into_placements")
    lp14 = repo.cls("LayoutPlanner")
    reach14 = [iw] + [lp14.methods[call_name(c)] for c in calls_in(iw.node) if isinstance(c.func, ast.Attribute) and isinstance(c.func.value, ast.Name) and c.func.value.id == "self" and call_name(c) in lp14.methods]
    row_stores = []
    for f14 in reach14:
        c14 = _c10r(f14)
        for st in walk_local(f14.node):
            if isinstance(st, ast.Assign) and isinstance(st.targets[0], ast.Subscript) and "_signal_wires" in c14.text(st.targets[0].slice) \
                    and "'conditions'" in c14.text(st.targets[0].value) and "get_wire_color_for_edge(" in c14.text(st.value):
                row_stores.append((f14, st))
    rep.check(bool(row_stores), "C01-R14", "condition rows of a folded decider receive the wire colour of their operand",
              f"{row_stores[0][0].short}: {norm(row_stores[0][1])[:80]}" if row_stores else
              "no injection writes `*_signal_wires` into `conditions`: `Signal a = (\"signal-A\", 5); Signal b = (\"signal-A\", -3); Signal r = (a > 0) && (b > 0);` — a arrives on red, b on green, "
              "both rows read red + green = 2 and r is 1", iw.loc())

    # ---------------- R15 --------------------------------------------------------------
    rep.rule("C01-R15", "every decider gets all the wire selections it needs: in the planner's injection loop the three injections (left/right operand, output value, condition rows) are "
             "reached for every combinator of the right kind — none of them is skipped because another one applies (a folded `(a > 0 && b > 0) : v` needs rows *and* output value)")
    from .util import cguards as _cg15r, stmt_of as _so15r
    cinj15 = _c10r(iw)
    for meth, needs in (("_inject_operand_wire_color", None), ("_inject_output_value_wire_color", "decider-combinator"), ("_inject_condition_wire_colors", "decider-combinator")):
        calls15 = [c for c in calls_in(iw.node, meth)]
        if not calls15:
            rep.bad("C01-R15", f"injection loop calls {meth}", "never called from _inject_wire_colors_into_placements", iw.loc())
            continue
        for c15 in calls15[:1]:
            gs15 = _cg15r(iw, _so15r(iw, c15))
            foreign = [("" if pol else "not ") + g for g, pol in gs15 if "entity_type" not in g
                       and not (meth == "_inject_condition_wire_colors" and pol and "'conditions'" in g)]  # "has rows" is that injection's own precondition
            rep.check(not foreign, "C01-R15", f"injection loop reaches {meth} for every {'decider' if needs else 'combinator'}",
                      "guarded by the entity type only" if not foreign else
                      f"reached only under `{foreign[0][:80]}`: a decider to which that does not apply misses this selection and reads red + green", iw.loc(c15))

    # ---------------- R16 --------------------------------------------------------------
    rep.rule("C01-R16", "an operand that is a wire merge is read on the colour its sources were wired with: a merge has no entity, so the colour question for "
             "(merge id, sink, signal) is answered from the planned edges that originate from that merge (`originating_merge_id == <source asked for>` and the same sink) — "
             "without that the operand is read on red whatever the wires are, and `(a + b) * (c + d)` on one signal type multiplies a+b by itself")
    gw = repo.func("ConnectionPlanner.get_wire_color_for_edge")
    src_p, sink_p = [p_ for p_ in gw.params if p_ != "self"][:2]
    hits16 = []
    for comp in [n for n in ast.walk(gw.node) if isinstance(n, (ast.SetComp, ast.ListComp, ast.GeneratorExp, ast.DictComp, ast.For))]:
        txt = " ".join(norm(x) for x in ast.walk(comp) if isinstance(x, ast.Compare))
        if f".originating_merge_id == {src_p}" in txt and f".sink_entity_id == {sink_p}" in txt and "_circuit_edges" in norm(comp):
            hits16.append(comp)
    uses_colours = any("_edge_wire_colors" in norm(h) or "_edge_color_map" in norm(h) for h in hits16)
    rep.check(bool(hits16) and uses_colours, "C01-R16", "get_wire_color_for_edge answers for a merge id from the edges the merge expanded into",
              "edges with originating_merge_id == source and the same sink, colours from the planned edge colours" if hits16 and uses_colours else
              "no lookup by originating merge: a merge operand falls through to the default `red`", gw.loc())

    # ---------------- R17 --------------------------------------------------------------
    rep.rule("C01-R17", "a gate that passes a value through outputs the signal it copies: a decider in copy-count mode emits, on its output signal, the count that signal has on the "
             "input — so wherever the lowerer builds a decider whose output value may be a reference, the output type on every path where it is a reference is that "
             "reference's own signal type (what the analyzer inferred is a placeholder inside a function body), and no later step renames the output of such a gate")
    from .util import cguards as _cg17, canon
    n17 = 0
    per17: dict[str, int] = {}
    for f17 in repo.all_funcs():
        if ".lowering." not in f17.module.name + ".":
            continue
        for c17 in calls_in(f17.node):
            if call_name(c17) not in ("decider", "decider_multi") or "ir_builder" not in norm(c17.func):
                continue
            kw17 = {k.arg: k.value for k in c17.keywords}
            cp17 = kw17.get("copy_count_from_input")
            ov17 = kw17.get("output_value") or (c17.args[3] if len(c17.args) > 3 else None)
            ot17 = kw17.get("output_type") or (c17.args[4] if len(c17.args) > 4 else None)
            if cp17 is None or (isinstance(cp17, ast.Constant) and cp17.value is False) or ov17 is None or ot17 is None or isinstance(ov17, ast.Constant):
                continue
            if not isinstance(ot17, ast.Name) or not isinstance(ov17, ast.Name):
                raise AnalysisError(f"C01-R17: {f17.short}: output type/value of a copy-count decider is not a local ({norm(ot17)}, {norm(ov17)})")
            cf17 = canon(f17)
            ovt = cf17.text(ov17, c17) + ".signal_type"
            ovn = cf17.text(ov17, c17)
            gf17 = __import__("fv.cfg", fromlist=["CFG"]).CFG(f17.node)
            pm17 = parents_map(f17.node)
            call_st = c17
            while not isinstance(call_st, ast.stmt):
                call_st = pm17[call_st]
            defs17 = [x for x in walk_local(f17.node) if isinstance(x, ast.Assign) and isinstance(x.targets[0], ast.Name) and x.targets[0].id == ot17.id]
            for st in defs17:
                # only a definition that is still the variable's value when the gate is built
                if not gf17.reaches_avoiding(st, {id(call_st)}, lambda n_, st=st: n_ is not st and any(n_ is d for d in defs17), start_inclusive=False):
                    continue
                gs = _cg17(f17, st)
                if any((g == f"isinstance({ovn}, SignalRef)" and not pol) or (g == f"isinstance({ovn}, int)" and pol) for g, pol in gs):
                    continue  # the value is a literal on this path: constant mode
                n17 += 1
                per17[f17.short] = per17.get(f17.short, 0) + 1
                vt = cf17.text(st.value, st)
                same = vt == ovt or any((not pol) and f"{ovt} != {vt}" in g for g, pol in gs)
                rep.check(same, "C01-R17", f"{f17.short}: output type #{per17[f17.short]} of the pass-through gate is the passed signal's type", vt[:80] if same else
                          f"output type `{vt[:70]}` on a path where the value is a reference: the gate copies the input count of *that* signal, which is not the one the value arrives on", f17.loc(st))
    rep.floor("C01-R17", "output-type assignments of pass-through gates", n17, 4)
    pf17 = repo.func("ExpressionLowerer._try_fold_projection_into_source")
    retype17 = [s for s in walk_local(pf17.node) if isinstance(s, ast.Assign) and isinstance(s.targets[0], ast.Attribute) and s.targets[0].attr == "output_type"]
    if not retype17:
        raise AnalysisError("C01-R17: retyping store not found in _try_fold_projection_into_source")
    g17 = __import__("fv.cfg", fromlist=["CFG"]).CFG(pf17.node)
    declines = [n for n in walk_local(pf17.node) if isinstance(n, ast.If) and "copy_count_from_input" in norm(n.test) and "IRDecider" in norm(n.test)
                and any(isinstance(x, ast.Return) and (x.value is None or (isinstance(x.value, ast.Constant) and x.value.value is None)) for x in n.body)]
    ok17 = any(g17.dominates(d, retype17[0]) for d in declines)
    rep.check(ok17, "C01-R17", "_try_fold_projection_into_source declines for a pass-through gate", "`return None` for a copy-count decider dominates the retyping store" if ok17 else
              "`((a > 0) : b) | \"signal-O\"` renames the gate's output to signal-O while it still copies the input count of signal-O (nothing)", pf17.loc(retype17[0]))

    # ---------------- R18 --------------------------------------------------------------
    from .shared import borrow as _borrow01b
    _borrow01b(repo, rep, "C10", "C10-R18", "C01-R18", "a value that is both a place() coordinate and an operand is still computed: `Signal pos = base + 2;` used as a coordinate and in "
               "`pos * s` keeps its combinator", floor=3)

    # ---------------- R19 --------------------------------------------------------------
    _borrow01b(repo, rep, "C12", "C12-R10", "C01-R19", "an operand is not added to by a foreign value of the same signal type: `x = a * b; y = c * b` with a and c on one signal "
               "computes a * b and c * b, not (a + c) * b", floor=1)

    # ---------------- R20 --------------------------------------------------------------
    rep.rule("C01-R20", "two operands of one combinator that share a source are still two operands: `(a + b) - a` feeds a into the same combinator twice, once inside the merge and once "
             "alone, and the two uses need different colours (a alone on one, a + b on the other) — the per-sink grouping of the colour planner keeps one entry per "
             "(source, use), so a table keyed by the source alone, which silently drops the second use, is a defect")
    pw20 = repo.func("plan_wire_colors")
    # name-free: `for (k, v) in <entries>: if k not in D: D[k] = v` keeps, per sink, one entry per first component (the source) and forgets the other second
    # components (which merge the edge belongs to, i.e. which operand it is)
    pm20 = parents_map(pw20.node)
    dedups = []
    for st in walk_local(pw20.node):
        if not (isinstance(st, ast.Assign) and isinstance(st.targets[0], ast.Subscript) and isinstance(st.targets[0].value, ast.Name) and isinstance(st.targets[0].slice, ast.Name)
                and isinstance(st.value, ast.Name)):
            continue
        cur = st
        loop = None
        while cur in pm20:
            cur = pm20[cur]
            if isinstance(cur, ast.For):
                loop = cur
                break
        if loop is not None and isinstance(loop.target, ast.Tuple) and len(loop.target.elts) == 2 and all(isinstance(e, ast.Name) for e in loop.target.elts) \
                and loop.target.elts[0].id == st.targets[0].slice.id and loop.target.elts[1].id == st.value.id:
            dedups.append(st)
    n20 = 0
    for st in dedups:
        n20 += 1
        rep.bad("C01-R20", "plan_wire_colors keeps one entry per (source, use) at a sink",
                f"`{ckey20(pw20, st)}` keeps the first use of a source at a sink and drops the others: the source gets one colour for the merge it is part of and for its own operand", pw20.loc(st))
    if not dedups:
        rep.ok("C01-R20", "plan_wire_colors keeps one entry per (source, use) at a sink", "no de-duplication by the source alone", pw20.loc())

    # ---------------- R23 --------------------------------------------------------------
    _boolean_producers(repo, rep, "C01-R23")

    # ---------------- R22 --------------------------------------------------------------
    _operand_order_into_folders(repo, rep, "C01-R22")

    # ---------------- R21 --------------------------------------------------------------
    from .shared import zero_is_a_value as _zero_v
    _zero_v(repo, rep, "C01-R21")



def ckey20(f, st) -> str:
    from .util import ckey
    return ckey(f, st)


def _operand_order_into_folders(repo, rep, rule: str) -> None:
    """Every call of a two-operand folding helper passes the left operand first: a swapped pair is invisible for + and ==, and wrong for - / % << < > and friends."""
    from .util import canon as _canon

    rep.rule(rule, "operands keep their sides into the compile-time evaluators: wherever a two-operand folding helper (fold_binary_operation, _fold_arithmetic, "
             "_fold_comparison, _fold_binary_constant, _compare_constants) is called with values taken from the two sides of an expression, a node or a condition row, "
             "the first value comes from the left / first side and the second from the right / second side")
    helpers = ("fold_binary_operation", "_fold_arithmetic", "_fold_comparison", "_compare_constants", "_fold_binary_constant")
    LEFTS, RIGHTS = (".left", "'left_operand'", "'first_constant'", "'first_"), (".right", "'right_operand'", "'second_constant'", "'second_")
    n = 0
    for f in repo.all_funcs():
        for c in calls_in(f.node):
            if call_name(c) not in helpers or len(c.args) < 3:
                continue
            cc = _canon(f)
            a, b = cc.text(c.args[1], c), cc.text(c.args[2], c)
            a_l, a_r = any(k in a for k in LEFTS), any(k in a for k in RIGHTS)
            b_l, b_r = any(k in b for k in LEFTS), any(k in b for k in RIGHTS)
            if not (a_l or a_r or b_l or b_r):
                if isinstance(c.args[1], ast.Name) and isinstance(c.args[2], ast.Name) and c.args[1].id in f.params and c.args[2].id in f.params:
                    n += 1
                    ok = f.params.index(c.args[1].id) < f.params.index(c.args[2].id)
                    rep.check(ok, rule, f"{f.short}: {call_name(c)} receives its own operands in order", f"({c.args[1].id}, {c.args[2].id})", f.loc(c))
                continue
            n += 1
            ok = a_l and not a_r and b_r and not b_l
            rep.check(ok, rule, f"{f.short}: {call_name(c)} receives (left, right)", f"({a[:50]}, {b[:50]})" if ok else
                      f"first operand `{a[:70]}`, second `{b[:70]}`: the sides are swapped, `5 - 3` is evaluated as `3 - 5` and `a < b` as `b < a`", f.loc(c))
    rep.floor(rule, "calls of two-operand folding helpers", n, 8)


def _boolean_producers(repo, rep, rule: str) -> None:
    rep.rule(rule, "`&&` and `||` use the cheap arithmetic forms (product, sum) only for operands that are 0 or 1 whatever the inputs are: a decider counts only when it outputs "
             "the constant 0 or 1 (`cond : 7` does not), a constant only when it is not a declared input (the value written for an input is a placeholder) — everything "
             "else goes through the `!= 0` normalisation")
    bp = repo.func("ExpressionLowerer._is_boolean_producer")
    rets = [n for n in walk_local(bp.node) if isinstance(n, ast.Return) and n.value is not None]
    from .util import cguards as _cgb
    n_ = 0
    for r in rets:
        gs = [g for g, pol in _cgb(bp, r) if pol]
        if any("IRDecider" in g for g in gs) and not any("IRArith" in g for g in gs):
            n_ += 1
            t = norm(r.value)
            ok = "output_value in (0, 1)" in t or ".output_value == 1" in t
            rep.check(ok, rule, "_is_boolean_producer: a decider counts as boolean only with output 0 or 1", t[:80] if ok else
                      f"`return {t[:60]}` for every decider with an integer output: `((a > 5) : 7) && (b > 0)` is computed as 7 * 1", bp.loc(r))
        if any("IRConst" in g for g in gs) and norm(r.value) != "False":
            n_ += 1
            excl = any(isinstance(x, ast.If) and "user_declared" in norm(x.test) and any(isinstance(b, ast.Return) and norm(b.value) == "False" for b in x.body) for x in walk_local(bp.node))
            rep.check(excl, rule, "_is_boolean_producer: a declared input is not a boolean because its placeholder is 0 or 1", "user-declared constants are excluded" if excl else
                      "`Signal a = (\"signal-A\", 0); Signal out = a && a;` is computed as a * a (25 for a = 5)", bp.loc(r))
    rep.floor(rule, "boolean-producer answers for deciders and constants", n_, 2)
