"""C15 Calling a function equals substituting its body — structural clauses of the inliner.

R1 save/restore pairing of every scoped map the callee body can mutate
R2 the callee's parameter environment replaces (does not merge into) the caller's
R3 identity freshness of everything a declaration registers (memory ids, entity ids, IR node ids)
R4 actual-argument typing never adopts a wildcard signal
"""

from __future__ import annotations

import ast
import re

from ..cfg import CFG, EXIT
from ..core import AnalysisError, Func, Repo, Report, call_name, calls_in, chain, norm, walk_local
from ..dataflow import DefUse
from ..resolve import Resolver
from .util import canon

ACCUMULATORS = {
    "referenced_signal_names": "program-wide set of names that were read; only ever grows (set.add) and is consumed after lowering",
    "_expr_context_stack": "push/pop pairs around each expression (checked as pairs, not as scoped state)",
    "_inlining_stack": "call stack of the inliner itself (append before the body, pop in finally)",
    "returned_entity_id": "one-shot channel from `return <entity>` to the declaration that receives it; cleared by the receiver",
}


def scoped_state(repo: Repo) -> dict[str, str]:
    """Attributes of ASTLowerer created in __init__ as empty dict/set/None: name -> kind."""
    lw = repo.cls("ASTLowerer")
    init = lw.methods["__init__"]
    out: dict[str, str] = {}
    for n in walk_local(init.node):
        t = v = None
        if isinstance(n, ast.Assign) and len(n.targets) == 1:
            t, v = n.targets[0], n.value
        elif isinstance(n, ast.AnnAssign):
            t, v = n.target, n.value
        if isinstance(t, ast.Attribute) and isinstance(t.value, ast.Name) and t.value.id == "self" and v is not None:
            if isinstance(v, ast.Dict) and not v.keys:
                out[t.attr] = "dict"
            elif isinstance(v, ast.Call) and call_name(v) in ("set", "dict") and not v.args:
                out[t.attr] = call_name(v)
            elif isinstance(v, ast.List) and not v.elts:
                out[t.attr] = "list"
            elif isinstance(v, ast.Constant) and v.value is None:
                out[t.attr] = "scalar"
    return out


def _lowerer_attr(node: ast.AST) -> str | None:
    """self.parent.X / self.X (inside ASTLowerer) -> X."""
    ch = chain(node)
    if not ch:
        return None
    if len(ch) >= 3 and ch[0] == "self" and ch[1] == "parent":
        return ch[2]
    return None


def mutated_attrs(repo: Repo, rs: Resolver, root: Func, exclude: set[str]) -> dict[str, list[str]]:
    """ASTLowerer attributes stored into by functions reachable from root (excluding the scoping functions themselves)."""
    out: dict[str, list[str]] = {}
    for f in rs.reachable([root]):
        if f.qual in exclude or not any(p in f.module.name + "." for p in (".lowering.",)):
            continue
        for n in walk_local(f.node):
            attr = None
            if isinstance(n, ast.Subscript) and isinstance(n.ctx, (ast.Store, ast.Del)):
                attr = _lowerer_attr(n.value)
            elif isinstance(n, ast.Attribute) and isinstance(n.ctx, ast.Store):
                attr = _lowerer_attr(n)
            elif isinstance(n, ast.Call) and isinstance(n.func, ast.Attribute) and n.func.attr in ("update", "pop", "add", "append", "clear", "setdefault"):
                attr = _lowerer_attr(n.func.value)
            if attr:
                out.setdefault(attr, []).append(f.loc(n))
    return out


def run(repo: Repo, rep: Report, tier: str) -> None:
    rs = Resolver(repo)
    inl = repo.func("ExpressionLowerer.lower_function_call_inline")
    stmt_root = repo.func("StatementLowerer.lower_statement")
    forl = repo.func("StatementLowerer.lower_for_stmt")
    state = scoped_state(repo)
    rep.floor("C15-R1", "scoped-state candidates on ASTLowerer", len(state), 6)
    mutated = mutated_attrs(repo, rs, stmt_root, {inl.qual, forl.qual})
    scoped = {a: k for a, k in state.items() if a in mutated and a not in ACCUMULATORS}
    rep.analysed["C15-R1:scoped maps mutated by statement lowering"] = {a: mutated[a][:3] for a in scoped}
    rep.analysed["C15-R1:accumulators (reasoned exceptions)"] = {a: ACCUMULATORS[a] for a in state if a in ACCUMULATORS}
    rep.floor("C15-R1", "scoped maps mutated by statement lowering", len(scoped), 4)

    # ---------------- R1 ---------------------------------------------------------------
    rep.rule("C15-R1", "for every ASTLowerer map that statement lowering can mutate, the inliner takes a snapshot that dominates the "
             "lowering of the callee body and restores it on every normal exit (a `finally` counts)")
    cfg = CFG(inl.node)
    body_loops = [s for s in cfg.stmts() if isinstance(s, ast.For) and norm(s.iter).endswith(".body")]
    if not body_loops:
        raise AnalysisError("C15-R1: loop over the callee body not found in lower_function_call_inline")
    loop = body_loops[0]
    du = DefUse(inl)
    for attr in sorted(scoped):
        snaps = []
        for s in cfg.stmts():
            if isinstance(s, (ast.Assign, ast.AnnAssign)) and s.value is not None:
                reads = [n for n in ast.walk(s.value) if isinstance(n, ast.Attribute) and _lowerer_attr(n) == attr]
                tgt = s.targets[0] if isinstance(s, ast.Assign) else s.target
                if reads and isinstance(tgt, ast.Name) and cfg.dominates(s, loop) and s is not loop:
                    snaps.append((s, tgt.id))
        restores = []
        for s in cfg.stmts():
            if s in [x for x, _ in snaps]:
                continue
            writes_attr = False
            if isinstance(s, ast.Assign) and any(_lowerer_attr(t) == attr for t in s.targets if isinstance(t, ast.Attribute)):
                writes_attr = True
            if isinstance(s, ast.Assign) and any(isinstance(t, ast.Subscript) and _lowerer_attr(t.value) == attr for t in s.targets):
                writes_attr = True
            if isinstance(s, ast.Expr) and isinstance(s.value, ast.Call) and isinstance(s.value.func, ast.Attribute) and _lowerer_attr(s.value.func.value) == attr and s.value.func.attr in ("pop", "clear", "update"):
                writes_attr = True
            if not writes_attr:
                continue
            uses_snap = any(isinstance(n, ast.Name) and n.id in {nm for _, nm in snaps} for n in ast.walk(s))
            in_guarded_by_snap = any(isinstance(a, (ast.If, ast.For)) and any(isinstance(n, ast.Name) and n.id in {nm for _, nm in snaps} for n in ast.walk(a.test if isinstance(a, ast.If) else a.iter)) for a in cfg.ancestors(s))
            if (uses_snap or in_guarded_by_snap) and not cfg.dominates(s, loop):
                restores.append(s)
        construct = f"inliner saves and restores ASTLowerer.{attr} around the callee body"
        if not snaps:
            rep.bad("C15-R1", construct, f"no snapshot of {attr} dominates the body loop; mutated by the body at e.g. {mutated[attr][0]}", inl.loc(loop))
            continue
        if not restores:
            rep.bad("C15-R1", construct, f"snapshot {snaps[0][1]} is taken but {attr} is never restored from it", inl.loc(snaps[0][0]))
            continue
        # every normal path from the loop to EXIT passes a restore statement
        rset = {id(r) for r in restores}
        # statements nested in a restore loop count as the loop itself
        blocked = lambda n: id(n) in rset or any(id(a) in rset for a in (cfg.ancestors(n) if isinstance(n, ast.stmt) else []))  # noqa: E731
        leak = cfg.reaches_avoiding(loop, {id(EXIT)}, blocked, start_inclusive=False)
        rep.check(not leak, construct and "C15-R1", construct,
                  f"snapshot `{norm(snaps[0][0])[:60]}`, restored on every normal exit" if not leak else
                  "a normal exit after the body does not pass the restore", inl.loc(restores[0]))

    rep.rule("C15-R6", "entities the callee created are merged back into the caller's map only under names the caller did not have before the call (a callee local never rebinds a caller's entity name)")
    upd = [s_ for s_ in cfg.stmts() if isinstance(s_, ast.Expr) and isinstance(s_.value, ast.Call) and isinstance(s_.value.func, ast.Attribute) and s_.value.func.attr == "update"
           and _lowerer_attr(s_.value.func.value) == "entity_refs" and not cfg.dominates(s_, loop)]
    for u in upd:
        arg = u.value.args[0]
        comps = [v for v in du.value_exprs(arg.id)] if isinstance(arg, ast.Name) else [arg]
        comp = next((v for v in comps if isinstance(v, ast.DictComp)), None)
        snap_names = {nm for _, nm in [(None, x) for x in du.defs if any("entity_refs" in norm(v) and ".copy()" in norm(v) for v in du.value_exprs(x))]}
        ok = comp is not None and any(isinstance(c, ast.Compare) and isinstance(c.ops[0], ast.NotIn) and norm(c.comparators[0]) in snap_names and norm(c.left) == norm(comp.key)
                                      for g in comp.generators for i in g.ifs for c in ([i] + (list(i.values) if isinstance(i, ast.BoolOp) else [])))
        rep.check(ok, "C15-R6", "callee-created entities are merged back only under new names",
                  norm(comp)[:120] if comp is not None else norm(u), inl.loc(u))

    # ---------------- R2 ---------------------------------------------------------------
    rep.rule("C15-R2", "while the callee body is lowered the parameter environment holds only the callee's parameters: "
             "merging (`.update`) into the live map keeps the caller's parameters visible to the callee (identifier lookup consults parameters first)")
    lid = repo.func("ExpressionLowerer.lower_identifier")
    order = [(_lowerer_attr(n.comparators[0]), n.lineno) for n in walk_local(lid.node)
             if isinstance(n, ast.Compare) and isinstance(n.ops[0], ast.In) and _lowerer_attr(n.comparators[0])]
    first = sorted(order, key=lambda x: x[1])[0][0] if order else None
    rep.analysed["C15-R2:identifier lookup order"] = [a for a, _ in sorted(order, key=lambda x: x[1])]
    merges = [s for s in cfg.stmts() if isinstance(s, ast.Expr) and isinstance(s.value, ast.Call) and isinstance(s.value.func, ast.Attribute)
              and s.value.func.attr == "update" and _lowerer_attr(s.value.func.value) == "param_values" and cfg.dominates(s, loop)]
    replaces = [s for s in cfg.stmts() if isinstance(s, ast.Assign) and any(isinstance(t, ast.Attribute) and _lowerer_attr(t) == "param_values" for t in s.targets) and cfg.dominates(s, loop)]
    clears = [s for s in cfg.stmts() if isinstance(s, ast.Expr) and isinstance(s.value, ast.Call) and isinstance(s.value.func, ast.Attribute)
              and s.value.func.attr == "clear" and _lowerer_attr(s.value.func.value) == "param_values" and cfg.dominates(s, loop)]
    hidden = bool(replaces or clears)
    if not merges and not replaces:
        raise AnalysisError("C15-R2: binding of the parameter environment not found in the inliner")
    rep.check(hidden or first != "param_values", "C15-R2", "callee sees only its own parameters",
              "parameter map replaced for the duration of the call" if hidden else
              f"`{norm(merges[0])}` merges into the caller's live map and lower_identifier consults param_values first: a free name of the callee that equals a parameter of an enclosing call resolves to that parameter",
              inl.loc(merges[0] if merges else replaces[0]))

    rep.rule("C15-R5", "every place in lowering that resolves an identifier by name consults the parameter environment before signal_refs / the symbol table")
    from .shared import identifier_resolvers
    identifier_resolvers(repo, rep, "C15-R5")

    # ---------------- R3 ---------------------------------------------------------------
    rep.rule("C15-R3", "every id under which a declaration is registered during lowering has a per-instance counter (ir_builder.next_id) "
             "in its backward slice; an id built from the declared name alone is shared by every expansion of the declaration")
    n_ids = 0
    for f in rs.reachable([stmt_root]):
        if ".lowering." not in f.module.name + ".":
            continue
        du_f = None
        for c in calls_in(f.node):
            nm = call_name(c)
            idarg = None
            what = None
            if nm == "memory_create" and c.args:
                idarg, what = c.args[0], "memory id"
            elif nm == "place_entity" and c.args:
                idarg, what = c.args[0], "entity id"
            if idarg is None:
                continue
            n_ids += 1
            du_f = du_f or DefUse(f)
            leaves = du_f.leaves(idarg)
            fresh = any(l.kind == "call" and l.text in ("next_id", "uuid4", "count") for l in leaves)
            rep.check(fresh, "C15-R3", f"{f.short}: {what} passed to {nm} is fresh per expansion",
                      f"{norm(idarg)} derives from {sorted(str(l) for l in leaves if l.kind != 'const')}" +
                      ("" if fresh else ": every call of the enclosing function and every loop iteration reuses this id"), f.loc(c))
    rep.floor("C15-R3", "declaration id sites", n_ids, 2)
    b = repo.cls("IRBuilder")
    for m in b.methods.values():
        for c in calls_in(m.node):
            k = call_name(c)
            if k in ("IRConst", "IRArith", "IRDecider", "IRWireMerge", "IRMemRead") and c.args:
                dub = DefUse(m)
                fresh = any(l.kind == "call" and l.text == "next_id" for l in dub.leaves(c.args[0]))
                rep.check(fresh, "C15-R3", f"{m.short}: node id of {k} comes from next_id", norm(c.args[0]), m.loc(c))
    # freshness by "has this id been declared before?" needs every declaration to be findable: lookups by id that name effect nodes (`mem_create_<id>`)
    # only work while add_operation indexes every node it is given
    ao = b.methods["add_operation"]
    idx = [n for n in walk_local(ao.node) if isinstance(n, ast.Assign) and isinstance(n.targets[0], ast.Subscript) and norm(n.targets[0].value) == "self._operation_index"]
    if not idx:
        raise AnalysisError("C15-R3: IRBuilder.add_operation no longer fills self._operation_index")
    effect_lookups = [(f, c) for f in repo.all_funcs() if ".lowering." in f.module.name + "." for c in calls_in(f.node, "get_operation")
                      if c.args and isinstance(c.args[0], ast.JoinedStr) and any(isinstance(v, ast.Constant) and "create" in str(v.value) for v in c.args[0].values)]
    rep.analysed["C15-R3:lookups of effect nodes by id"] = [f"{f.short}: {norm(c.args[0])[:50]}" for f, c in effect_lookups]
    from .util import cguards as _cg3
    cond_idx = [g for g, pol in _cg3(ao, idx[0]) if "isinstance(" in g]
    ok_idx = not effect_lookups or not cond_idx
    rep.check(ok_idx, "C15-R3", "IRBuilder.add_operation indexes every node, so a re-declaration is recognised by id", "unconditional index store" if not cond_idx else
              ("no lookup depends on effect nodes" if ok_idx else
               f"the index admits nodes only under `{cond_idx[0][:60]}` while {effect_lookups[0][0].short} looks a memory declaration up by id: the lookup never finds it and every expansion reuses `mem_<name>`"), ao.loc(idx[0]))
    nid = b.methods["next_id"]
    incr = any(isinstance(n, ast.AugAssign) and isinstance(n.op, ast.Add) and "node_counter" in norm(n.target) for n in walk_local(nid.node))
    rep.check(incr, "C15-R3", "IRBuilder.next_id increments its counter on every call", "counter += 1" if incr else "counter is not advanced", nid.loc())

    # ---------------- R4 ---------------------------------------------------------------
    rep.rule("C15-R4", "_get_actual_type_from_ref returns the semantic type (never the reference's type) for the wildcard signals")
    gat = repo.func("ExpressionLowerer._get_actual_type_from_ref")
    wild = None
    for n in walk_local(gat.node):
        if isinstance(n, ast.Assign) and isinstance(n.value, ast.Set):
            vals = {e.value for e in n.value.elts if isinstance(e, ast.Constant)}
            if any("signal-each" == v for v in vals) or any(v.startswith("signal-") for v in vals):
                wild = (n, vals)
    from ..core import module_const
    try:
        WILDCARDS = set(module_const(repo, repo.module("common.signals"), "WILDCARD_SIGNALS"))
    except Exception:
        WILDCARDS = {"signal-each", "signal-anything", "signal-everything"}
    ok = wild is not None and WILDCARDS <= wild[1]
    guard = any(isinstance(n, ast.If) and isinstance(n.test, ast.Compare) and isinstance(n.test.ops[0], ast.In) and n.body and isinstance(n.body[0], ast.Return)
                and norm(n.body[0].value) == "semantic_type" for n in walk_local(gat.node))
    rep.check(ok and guard, "C15-R4", "wildcard signals never become an output type through actual-argument typing",
              f"guarded set {sorted(wild[1]) if wild else None} covers {sorted(WILDCARDS)}; returns semantic_type" if ok and guard else "wildcard guard missing or incomplete", gat.loc())

    # ---------------- R7 ---------------------------------------------------------------
    rep.rule("C15-R7", "inside an inlined body an operand has the type of the actual argument: _get_actual_type_from_ref answers with the reference's own signal type whenever the "
             "reference carries one that differs from the parameter's declared type (the test is on the reference's type, which is also the name used)")
    from .util import canon as _c7, cguards as _g7
    gat = repo.func("ExpressionLowerer._get_actual_type_from_ref")
    c7 = _c7(gat)
    rets7 = [n for n in walk_local(gat.node) if isinstance(n, ast.Return) and isinstance(n.value, ast.Call) and call_name(n.value) == "SignalValue"]
    rep.floor("C15-R7", "returns that rebuild the operand type from the reference", len(rets7), 1)
    for r7 in rets7:
        t7 = c7.text(r7.value)
        m7 = re.search(r"name=([^,]+),", t7)
        nm7 = m7.group(1) if m7 else "?"
        gs7 = [g for g, pol in _g7(gat, r7) if pol]
        ok7 = any(g == f"{nm7} and {nm7} != get_signal_type_name(semantic_type)" or g == f"{nm7} and get_signal_type_name(semantic_type) != {nm7}" for g in gs7) or \
            (any(g == nm7 for g in gs7) and any(g in (f"{nm7} != get_signal_type_name(semantic_type)",) for g in gs7))
        rep.check(ok7, "C15-R7", "the operand type follows the actual argument whenever the reference carries a different signal type",
                  f"name={nm7} under `{nm7} and {nm7} != declared`" if ok7 else f"name={nm7} but guarded by {[g[-80:] for g in gs7][-1:]}: a typed Signal passed for an `int` parameter is not recognised in the body, int-only arithmetic on it lands on a fresh signal", gat.loc(r7))

    from .shared import borrow as _borrow15
    _borrow15(repo, rep, "C10", "C10-R2", "C15-R8", "a constant argument bound to a Signal parameter has several consumers in the inlined body: the optimizer keeps it while any node, effect nodes included, still reads it",
              select=lambda o: "scan for other consumers" in o.construct or "IREntityPropWrite" in o.construct or "IRMemWrite" in o.construct, floor=3)

    # ---------------- R9 ---------------------------------------------------------------
    rep.rule("C15-R9", "names of the caller survive a call unchanged: after the body is lowered, the lowerer's name tables (signal_refs, entity_refs) are put back from a snapshot "
             "(`.copy()` / dict(...)) taken before the body, not rebuilt from the table the body has been writing to (a body-local `Signal x` would otherwise replace the caller's x)")
    inl = repo.func("ExpressionLowerer.lower_function_call_inline")
    ci = canon(inl)
    n9 = 0
    for tbl in ("signal_refs", "entity_refs", "memory_refs", "memory_types"):
        body_loops9 = [n for n in walk_local(inl.node) if isinstance(n, ast.For) and ".body" in norm(n.iter)]
        if not body_loops9:
            raise AnalysisError("C15-R9: body loop of the inliner not found")
        # restores are the stores after the body; a store ahead of the body sets the callee's view up (C15-R20) and is not a restore
        stores = [n for n in walk_local(inl.node) if isinstance(n, ast.Assign) and norm(n.targets[0]) == f"self.parent.{tbl}" and n.lineno > (body_loops9[0].end_lineno or 0)]
        if not stores:
            n9 += 1
            rep.bad("C15-R9", f"lower_function_call_inline restores {tbl}", f"no store to self.parent.{tbl} after the body: declarations of the callee stay visible in the caller", inl.loc())
            continue
        for st in stores:
            n9 += 1
            alts = ci.alts(st.value)
            snap = (f"self.parent.{tbl}.copy()", f"dict(self.parent.{tbl})", f"{{**self.parent.{tbl}}}")
            ok9 = all(a in snap for a in alts)
            rep.check(ok9, "C15-R9", f"lower_function_call_inline restores {tbl} from a snapshot", alts[0][:80] if ok9 else
                      f"restored from `{alts[0][:100]}`: built from the table as the body left it, so a caller's name the body re-declared keeps the body's value", inl.loc(st))
    rep.floor("C15-R9", "restore stores", n9, 4)

    # ---------------- R10 --------------------------------------------------------------
    rep.rule("C15-R10", "a value that can still be read under a name is never retyped in place: before _try_fold_projection_into_source rewrites the producer's output type it scans "
             "every name table from which lower_identifier hands out references (parameters of the function being inlined as well as declared names) and declines "
             "when the producer is bound there; otherwise `f(a * 2)` with body `(x | \"t\") * x` reads x on a signal its producer no longer emits")
    li = repo.func("ExpressionLowerer.lower_identifier")
    cli_ = canon(li)
    tables10 = sorted({m.group(1) for r in walk_local(li.node) if isinstance(r, ast.Return) and r.value is not None
                       for m in [re.match(r"self\.parent\.(\w+)\[", cli_.text(r.value))] if m})
    rep.floor("C15-R10", "name tables lower_identifier returns references from", len(tables10), 2)
    pf = repo.func("ExpressionLowerer._try_fold_projection_into_source")
    gpf = CFG(pf.node)
    retype = [s for s in gpf.stmts() if isinstance(s, ast.Assign) and isinstance(s.targets[0], ast.Attribute) and s.targets[0].attr == "output_type"]
    if not retype:
        raise AnalysisError("C15-R10: the in-place retyping store was not found in _try_fold_projection_into_source")
    for t10 in tables10:
        scans = [s for s in gpf.stmts() if isinstance(s, ast.For) and re.search(rf"self\.parent\.{t10}\b", norm(s.iter))
                 and any(isinstance(x, ast.Return) and (x.value is None or (isinstance(x.value, ast.Constant) and x.value.value is None)) for x in ast.walk(s))
                 and any(isinstance(x, ast.Compare) and "source_id" in norm(x) for x in ast.walk(s))]
        ok10 = any(gpf.dominates(s, retype[0]) for s in scans)
        rep.check(ok10, "C15-R10", f"the fold declines for a producer bound in `{t10}`", "scan with `return None` dominates the retyping store" if ok10 else
                  f"`{t10}` is not scanned before `{norm(retype[0])}`: a producer bound there is retyped although the body can read it again under its old type", pf.loc(retype[0]))

    # ---------------- R11 --------------------------------------------------------------
    _borrow15(repo, rep, "C16", "C16-R6", "C15-R11", "a function body is analysed once and lowered once per call: the analyzer may rewrite the shared syntax tree only by functions of "
              "the syntax itself, never by what a name is bound to at analysis time (a parameter's placeholder type is the same for every call site)", floor=1)

    # ---------------- R12 --------------------------------------------------------------
    rep.rule("C15-R12", "parameters go out of scope with the call: every name bound in the lowerer's parameter table for the call (`param_values.update(<bindings>)`) is, after the "
             "body, either given back its previous value or removed — by a full snapshot assignment, or by a loop over the bound names that restores or pops each one; "
             "a parameter that stays bound shadows a same-named variable of the code that follows")
    bind12 = [c for c in calls_in(inl.node, "update") if norm(c.func.value) == "self.parent.param_values"]
    # binding by replacement: `self.parent.param_values = dict(<bindings>)` (a value that is not derived from the map itself)
    repl12 = [n for n in walk_local(inl.node) if isinstance(n, ast.Assign) and norm(n.targets[0]) == "self.parent.param_values"
              and "self.parent.param_values" not in ci.text(n.value)]
    if not bind12 and not repl12:
        raise AnalysisError("C15-R12: the parameter binding (`self.parent.param_values.update(...)` or a replacement of the map) was not found")
    bound_names = {ci.text(c.args[0]) for c in bind12 if c.args}
    snap12 = [n for n in walk_local(inl.node) if isinstance(n, ast.Assign) and norm(n.targets[0]) == "self.parent.param_values"
              and all(a in ("self.parent.param_values.copy()", "dict(self.parent.param_values)") for a in ci.alts(n.value))]
    loops12 = []
    for n in walk_local(inl.node):
        if isinstance(n, ast.For) and ci.text(n.iter) in bound_names | {b + ".keys()" for b in bound_names} | {b + ".items()" for b in bound_names}:
            pops = any(isinstance(x, ast.Call) and call_name(x) == "pop" and norm(x.func.value) == "self.parent.param_values" for x in ast.walk(n)) or any(
                isinstance(x, ast.Delete) and any("self.parent.param_values[" in norm(t) for t in x.targets) for x in ast.walk(n))
            restores = any(isinstance(x, ast.Assign) and isinstance(x.targets[0], ast.Subscript) and norm(x.targets[0].value) == "self.parent.param_values" for x in ast.walk(n))
            if pops and restores:
                loops12.append(n)
    ok12 = bool(snap12) or bool(loops12)
    rep.check(ok12, "C15-R12", "lower_function_call_inline unbinds the call's parameters", "restore-or-pop loop over the bound names" if loops12 else ("snapshot assignment" if snap12 else
              "the bound names are never removed (only previous values are written back): after `abs(p)` the name x stays bound to p, and a later `Signal q = x * x;` of the caller reads p"), inl.loc(bind12[0] if bind12 else repl12[0]))

    # ---------------- R13 --------------------------------------------------------------
    _borrow15(repo, rep, "C12", "C12-R7", "C15-R13", "`e = make()` binds e to the entity the call returned, at top level and inside function or loop bodies alike: the returned-entity channel is "
              "reset before the call, read after it, and its content is bound without consulting the analyzer's (top-level only) symbol table", floor=4)

    # ---------------- R14 --------------------------------------------------------------
    rep.rule("C15-R14", "a memory declared in a function body does not change what the caller's memory of the same name is: the analyzer's memory table (name -> declared type), which the "
             "lowerer reads when it creates the cell, is keyed per scope or restored when the scope is left — a flat name-keyed table keeps the last declaration for every "
             "cell of that name")
    an14 = repo.cls("SemanticAnalyzer")
    stores14 = [(m, n) for m in an14.methods.values() for n in walk_local(m.node) if isinstance(n, ast.Assign) and isinstance(n.targets[0], ast.Subscript)
                and norm(n.targets[0].value) == "self.memory_types"]
    if not stores14:
        raise AnalysisError("C15-R14: the analyzer's memory table is never written")
    restores14 = [(m, n) for m in an14.methods.values() for n in walk_local(m.node)
                  if (isinstance(n, ast.Assign) and norm(n.targets[0]) == "self.memory_types" and m.name != "__init__")
                  or (isinstance(n, ast.Call) and call_name(n) in ("pop", "clear") and isinstance(n.func, ast.Attribute) and norm(n.func.value) == "self.memory_types")
                  or (isinstance(n, ast.Delete) and any("self.memory_types[" in norm(t) for t in n.targets))]
    scoped_key = all(not isinstance(n.targets[0].slice, ast.Attribute) or "scope" in norm(n.targets[0].slice) for _, n in stores14) and any("scope" in norm(n.targets[0].slice) for _, n in stores14)
    # third way: the table stays flat, but whoever reads an entry to decide a cell's type (the analyzer's write check, the lowering of the declaration) first checks
    # that the entry belongs to the memory at hand (`<entry>.symbol is <the resolved symbol>` / `<entry>.symbol.defined_at is <this declaration>`) and drops it otherwise
    readers14 = [(m, n) for m in list(an14.methods.values()) + [repo.func("MemoryLowerer.lower_mem_decl")] for n in walk_local(m.node)
                 if isinstance(n, ast.Assign) and isinstance(n.targets[0], ast.Name) and isinstance(n.value, ast.Call) and call_name(n.value) == "get" and "memory_types" in norm(n.value.func)]
    def _validated14(m, n) -> bool:
        x = n.targets[0].id
        for iff in [q for q in walk_local(m.node) if isinstance(q, ast.If) and q.lineno > n.lineno]:
            t = norm(iff.test)
            if f"{x}.symbol" in t and " is not " in t and any(isinstance(b, ast.Assign) and norm(b.targets[0]) == x and norm(b.value) == "None" for b in iff.body):
                return True
        return False
    validated14 = len(readers14) >= 2 and all(_validated14(m, n) for m, n in readers14)
    ok14 = bool(restores14) or scoped_key or validated14
    m14, n14 = stores14[0]
    rep.check(ok14, "C15-R14", "SemanticAnalyzer.memory_types distinguishes a callee's memory from the caller's memory of the same name",
              ("every deciding reader checks that the entry is the memory at hand" if validated14 else "restored on scope exit / keyed by scope") if ok14 else
              f"`{norm(n14)[:60]}` is keyed by the bare name and never restored: after `func f() {{ Memory c: \"signal-B\"; ... }}` the caller's `Memory c: \"signal-A\"` is created on signal-B", m14.loc(n14))

    # ---------------- R15 --------------------------------------------------------------
    rep.rule("C15-R15", "a function hands back the entity it places however the return is spelled: in the inliner's return branch the returned-entity channel is filled for "
             "`return <name>` and for `return place(...)` alike (the second form used to return a value and forget the entity, so writes to the result were dropped)")
    ret_br = [n for n in walk_local(inl.node) if isinstance(n, ast.If) and "isinstance(ELEM(" in ci.text(n.test) and "ReturnStmt" in ci.text(n.test)]
    if not ret_br:
        raise AnalysisError("C15-R15: the return branch of the inliner was not found")
    chan = [x for x in ast.walk(ret_br[0]) if isinstance(x, ast.Assign) and any(isinstance(t, ast.Attribute) and t.attr == "returned_entity_id" for t in x.targets)]
    forms = {"name": False, "place": False}
    from .util import cguards as _cg15
    for x in chan:
        gtxt = " ".join(g for g, pol in _cg15(inl, x) if pol)
        if "IdentifierExpr" in gtxt:
            forms["name"] = True
        if "CallExpr" in gtxt and "'place'" in gtxt:
            forms["place"] = True
    for form, okf in forms.items():
        rep.check(okf, "C15-R15", f"inliner records the returned entity for `return {'<name>' if form == 'name' else 'place(...)'}`", "channel filled under that form" if okf else
                  "the channel is never filled for this form: `func make(int x) { return place(\"small-lamp\", x, 0); } Entity l = make(3); l.enable = ...;` loses the write", inl.loc(ret_br[0]))

    # ---------------- R16 --------------------------------------------------------------
    rep.rule("C15-R16", "a function body is the statement list the program wrote: the transformer's func_decl keeps every statement class the grammar allows inside `{ }` (all "
             "subclasses of Statement in ast/statements.py); a class missing from its filter is dropped without a diagnostic — the body compiles, the statements are gone")
    stm = repo.module("ast.statements")
    stmt_classes = sorted(c.name for c in stm.classes.values() if any(norm(b) == "Statement" for b in c.node.bases))
    rep.floor("C15-R16", "statement classes", len(stmt_classes), 6)
    fd = repo.func("DSLTransformer.func_decl")
    tests16 = [n.test for n in walk_local(fd.node) if isinstance(n, ast.If) and any(isinstance(b, ast.Expr) and isinstance(b.value, ast.Call) and call_name(b.value) == "append" for b in n.body)]
    if not tests16:
        raise AnalysisError("C15-R16: the body filter of DSLTransformer.func_decl was not found")
    def _accepted(test) -> set[str] | None:
        t = norm(test)
        acc: set[str] = set()
        found = False
        for x in ast.walk(test):
            # name-based filter: "Stmt" in <obj>.__class__.__name__  /  <obj>.__class__.__name__ in [...]
            if isinstance(x, ast.Compare) and isinstance(x.ops[0], ast.In) and "__class__.__name__" in norm(x):
                found = True
                if isinstance(x.left, ast.Constant) and isinstance(x.left.value, str):
                    acc |= {c for c in stmt_classes if x.left.value in c}
                elif isinstance(x.comparators[0], (ast.List, ast.Tuple, ast.Set)):
                    acc |= {e.value for e in x.comparators[0].elts if isinstance(e, ast.Constant)}
            if isinstance(x, ast.Call) and call_name(x) == "isinstance" and len(x.args) == 2:
                found = True
                cls_arg = x.args[1]
                names = []
                if isinstance(cls_arg, ast.Tuple):
                    names = [norm(e) for e in cls_arg.elts]
                elif isinstance(cls_arg, ast.Name):
                    try:
                        from ..core import module_const as _mc16
                        val = None
                        for st in fd.module.tree.body:
                            if isinstance(st, ast.Assign) and any(isinstance(t_, ast.Name) and t_.id == cls_arg.id for t_ in st.targets) and isinstance(st.value, ast.Tuple):
                                val = [norm(e) for e in st.value.elts]
                        names = val if val is not None else [cls_arg.id]
                    except Exception:  # noqa: BLE001
                        names = [cls_arg.id]
                if "Statement" in names:
                    acc |= set(stmt_classes)
                acc |= set(names)
        return acc if found else None
    for i16, t16 in enumerate(tests16):
        acc16 = _accepted(t16)
        if acc16 is None:
            continue
        missing = [c for c in stmt_classes if c not in acc16 and c != "ImportStmt"]
        rep.check(not missing, "C15-R16", f"DSLTransformer.func_decl: body filter #{i16 + 1} keeps every statement class", f"accepts {sorted(acc16 & set(stmt_classes))}" if not missing else
                  f"{missing} fall through the filter: a `for` loop (or that statement kind) written in a function body is silently left out of the function", fd.loc(t16))

    # ---------------- R17 --------------------------------------------------------------
    rep.rule("C15-R17", "a re-expanded declaration finds the cell of the earlier expansion: the probe that decides whether a memory of this name was already created asks the "
             "builder's index under exactly the id the creation node is stored under (IRMemCreate's id format applied to the id the declaration would use) — any other key "
             "never matches, the second call (or iteration) then reuses the first one's cell and the two expansions share state")
    lmd = repo.func("MemoryLowerer.lower_mem_decl")
    cl17 = canon(lmd)
    mc17 = repo.cls("IRMemCreate").methods["__init__"]
    fmt17 = None
    for c in calls_in(mc17.node, "__init__"):
        if c.args and isinstance(c.args[0], ast.JoinedStr):
            fmt17 = c.args[0]
    if fmt17 is None:
        raise AnalysisError("C15-R17: IRMemCreate does not spell its node id as an f-string")
    idparam = mc17.params[1] if mc17.params and mc17.params[0] == "self" else mc17.params[0]

    def _flat17(e: ast.AST, subst: dict[str, ast.AST] | None = None) -> list[str]:
        out: list[str] = []
        if isinstance(e, ast.JoinedStr):
            for v in e.values:
                if isinstance(v, ast.Constant):
                    out.append(str(v.value))
                elif isinstance(v, ast.FormattedValue):
                    out += _flat17(v.value, subst)
        elif isinstance(e, ast.Constant) and isinstance(e.value, str):
            out.append(e.value)
        elif subst and isinstance(e, ast.Name) and e.id in subst:
            out += _flat17(subst[e.id], None)
        else:
            out.append("{" + norm(e) + "}")
        merged: list[str] = []
        for p_ in out:
            if merged and not merged[-1].startswith("{") and not p_.startswith("{"):
                merged[-1] += p_
            else:
                merged.append(p_)
        return merged

    probes17 = [c for c in calls_in(lmd.node, "get_operation") if c.args]
    creates17 = [c for c in calls_in(lmd.node, "memory_create") if c.args]
    if not creates17:
        raise AnalysisError("C15-R17: lower_mem_decl no longer calls memory_create")
    n17 = 0
    for p17 in probes17:
        iff = None
        pm17 = __import__("fv.core", fromlist=["parents_map"]).parents_map(lmd.node)
        cur = p17
        while cur in pm17 and not isinstance(cur, ast.If):
            cur = pm17[cur]
        if not isinstance(cur, ast.If):
            continue
        iff = cur
        # the id the declaration would use: what the create call's id is before the fresh-id arm rewrites it
        base = cl17.node(creates17[0].args[0], iff)
        want = _flat17(fmt17, {idparam: base})
        got = _flat17(cl17.node(p17.args[0], iff))
        n17 += 1
        rep.check(want == got, "C15-R17", "lower_mem_decl: the re-declaration probe uses the creation node's id", "".join(got) if want == got else
                  f"probes `{''.join(got)}`, the node is stored under `{''.join(want)}`: the probe never matches, every expansion after the first shares the first one's cell", lmd.loc(p17))
    if n17 == 0:
        # no probe at all: whether expansions get cells of their own is then decided by the id's derivation alone (C15-R3, C16-R4); nothing to compare here
        rep.ok("C15-R17", "lower_mem_decl: no re-declaration probe to check", "freshness does not go through the builder's index", lmd.loc(), nontrivial=False)

    # ---------------- R18 --------------------------------------------------------------
    _borrow15(repo, rep, "C01", "C01-R10", "C15-R18", "an int argument (or a constant bound to a Signal parameter) reaches `cond : param` in the body as a literal: the gate then outputs that "
              "literal, as the substituted body `cond : 7` does — a gate left in copy-from-input mode copies a wire that carries nothing", floor=2)

    # ---------------- R19 --------------------------------------------------------------
    rep.rule("C15-R19", "a local declaration is typed by its own symbol or by none: the lowering finds symbols by name in the analyzer's global table, and a function or loop body "
             "is lowered after its scope is gone — wherever lower_decl_stmt takes a channel from a looked-up symbol (`<symbol>.value_type`), the symbol was first checked to be "
             "the one this very statement defined (`defined_at is stmt`); otherwise `Signal t = 5;` in a function body is emitted on the channel of the caller's `t`")
    lds = repo.func("StatementLowerer.lower_decl_stmt")
    pm19 = __import__("fv.core", fromlist=["parents_map"]).parents_map(lds.node)
    g19 = CFG(lds.node)
    decl_p = lds.params[1] if lds.params[0] == "self" else lds.params[0]
    looks = [n for n in walk_local(lds.node) if isinstance(n, ast.Assign) and isinstance(n.targets[0], ast.Name) and isinstance(n.value, ast.Call) and call_name(n.value) == "lookup"
             and "symbol_table" in norm(n.value.func) and n.value.args and norm(n.value.args[0]) == f"{decl_p}.name"]
    n19 = 0
    for lk in looks:
        x = lk.targets[0].id
        resets = []
        for iff in [n for n in walk_local(lds.node) if isinstance(n, ast.If)]:
            conj = list(iff.test.values) if isinstance(iff.test, ast.BoolOp) and isinstance(iff.test.op, ast.And) else [iff.test]
            if any(norm(c) == f"{x}.defined_at is not {decl_p}" for c in conj) and any(isinstance(b, ast.Assign) and norm(b.targets[0]) == x and norm(b.value) == "None" for b in iff.body):
                resets.append(iff)
        for use in [n for n in walk_local(lds.node) if isinstance(n, ast.Attribute) and n.attr == "value_type" and isinstance(n.value, ast.Name) and n.value.id == x]:
            st = use
            while not isinstance(st, ast.stmt):
                st = pm19[st]
            if not g19.dominates(lk, st):
                continue
            n19 += 1
            own = any(pol and g == f"{x}.defined_at is {decl_p}" for g, pol in [(norm(t), p) for t, p in __import__("fv.sites", fromlist=["guard_chain"]).guard_chain(lds, st, pm19)])
            dom = any(g19.dominates(r, st) and g19.dominates(lk, r) for r in resets)
            rep.check(own or dom, "C15-R19", f"lower_decl_stmt: symbol use #{n19} is the statement's own symbol", "identity with the declaring statement is established first" if (own or dom) else
                      f"`{x}.value_type` of a symbol found by name only: inside a function or loop body the global table holds the caller's variable of that name", lds.loc(use))
    rep.floor("C15-R19", "uses of a looked-up symbol's type in lower_decl_stmt", n19, 2)

    # ---------------- R20 --------------------------------------------------------------
    rep.rule("C15-R20", "free names of a callee are the program's, not the calling function's: the body is lowered with the name maps in force where the outermost call was made "
             "(plus its own parameters) — before the body loop each scoped map is re-seated from something other than the map the caller is using; a body lowered in the "
             "caller's live maps sees the caller's locals, and `func addk(x) { return x + k; }` called from a function with a local `k` adds that local")
    inl20 = repo.func("ExpressionLowerer.lower_function_call_inline")
    c20 = canon(inl20)
    loops20 = [n for n in walk_local(inl20.node) if isinstance(n, ast.For) and ".body" in norm(n.iter)]
    if not loops20:
        raise AnalysisError("C15-R20: body loop of the inliner not found")
    loop20 = loops20[0]
    g20 = CFG(inl20.node)
    for m20 in ("signal_refs", "entity_refs", "memory_refs", "memory_types"):
        reseats = []
        for st in walk_local(inl20.node):
            if isinstance(st, ast.Assign) and norm(st.targets[0]) == f"self.parent.{m20}" and st.lineno < loop20.lineno:
                alts = c20.alts(st.value, st)
                if all(f"self.parent.{m20}" not in a for a in alts):
                    reseats.append(st)
        rep.check(bool(reseats), "C15-R20", f"inliner: {m20} is re-seated for a nested call before the body is lowered", f"{len(reseats)} re-seating store(s) ahead of the body loop" if reseats else
                  f"the body is lowered in the caller's live `{m20}`: the callee resolves free names to the locals of whichever function called it", inl20.loc(loop20))

    # ---------------- R21 --------------------------------------------------------------
    _borrow15(repo, rep, "C03", "C03-R2", "C15-R21", "the literal 1 passed for a Signal parameter that the body uses as `when=` is a constant 1 on a fresh signal, not on the enable signal: it "
              "opens the gates only if the lowering projects it like any other signal", select=lambda o: "exempt from retyping" in o.construct, floor=1)

    # ---------------- R22 --------------------------------------------------------------
    _borrow15(repo, rep, "C01", "C01-R17", "C15-R22", "`cond : param` in a function body forwards the argument on the argument's own signal, as the substituted body does: the analyzer "
              "knows a parameter only by a placeholder type, so the gate's output type comes from the lowered value", select=lambda o: "output type #" in o.construct, floor=4)

    # ---------------- R23 --------------------------------------------------------------
    _borrow15(repo, rep, "C16", "C16-R11", "C15-R23", "a loop in a function body whose iterator is named like a parameter runs over its own values, as it does once the body is substituted "
              "with the parameter replaced by the argument", floor=1)

    # ---------------- R24 --------------------------------------------------------------
    rep.rule("C15-R24", "an Entity argument is the entity the body works on: the binding of the Entity parameters (`entity_refs.update(<entity params>)`) is the last thing that "
             "happens to the entity table before the body is lowered — a re-seating of the table for a nested call after it throws the bindings away, and `e.enable = ...` in "
             "the callee lands on a global entity that happens to be called like the parameter")
    upd24 = [c for c in calls_in(inl20.node, "update") if norm(c.func.value) == "self.parent.entity_refs" and c.lineno < loop20.lineno]
    seats24 = [st for st in walk_local(inl20.node) if isinstance(st, ast.Assign) and norm(st.targets[0]) == "self.parent.entity_refs" and st.lineno < loop20.lineno]
    if not upd24:
        raise AnalysisError("C15-R24: the binding of Entity parameters was not found ahead of the body loop")
    pm24 = __import__("fv.core", fromlist=["parents_map"]).parents_map(inl20.node)
    def _st24(n):
        while not isinstance(n, ast.stmt):
            n = pm24[n]
        return n
    u24 = _st24(upd24[-1])
    later = [st for st in seats24 if g20.reaches_avoiding(u24, {id(st)}, lambda n_: False, start_inclusive=False)]
    ok24 = g20.dominates(u24, loop20) and not later
    rep.check(ok24, "C15-R24", "inliner: Entity parameters are bound after every re-seating of the entity table", "update(...) dominates the body loop, no re-seating after it" if ok24 else
              (f"`{norm(later[0])[:70]}` can run after the binding: a nested call loses its Entity arguments" if later else "the binding does not reach the body loop on every path"), inl20.loc(u24))

    # ---------------- R25 --------------------------------------------------------------
    rep.rule("C15-R25", "a parameter is looked up before anything else: wherever a lowering function resolves one name against both the parameter table and the table of "
             "declared names, the parameter table is asked first (a loop takes its own names out of the parameter table, C16-R11, so nothing declared in the body can be "
             "hidden by it) — the other order makes `param.type` or `param` in a callee answer with the caller's variable of the same name. And a function that resolves an "
             "expression identifier by name at all (global symbol table, declared names) asks the parameter table as well")
    n25 = 0
    for f25 in repo.all_funcs():
        if ".lowering." not in f25.module.name + ".":
            continue
        g25 = None
        tests_p = [n for n in walk_local(f25.node) if isinstance(n, ast.If) and isinstance(n.test, ast.Compare) and isinstance(n.test.ops[0], ast.In) and norm(n.test.comparators[0]) == "self.parent.param_values"]
        tests_s = [n for n in walk_local(f25.node) if isinstance(n, ast.If) and isinstance(n.test, ast.Compare) and isinstance(n.test.ops[0], ast.In) and norm(n.test.comparators[0]) == "self.parent.signal_refs"]
        for tp in tests_p:
            for ts in tests_s:
                if norm(tp.test.left) != norm(ts.test.left):
                    continue
                n25 += 1
                g25 = g25 or CFG(f25.node)
                ok25 = g25.dominates(tp, ts) or tp.lineno < ts.lineno and not g25.dominates(ts, tp)
                k25 = sum(1 for o in rep.obs if o.rule == "C15-R25" and o.construct.startswith(f25.short + ": name look-up")) + 1
                rep.check(ok25, "C15-R25", f"{f25.short}: name look-up #{k25} asks the parameters first", "parameter table first" if ok25 else
                          "the table of declared names is asked first: inside a callee the caller's variable of that name answers for the parameter", f25.loc(ts))
        # an expression identifier resolved by name without the parameter table
        for iff in [n for n in walk_local(f25.node) if isinstance(n, ast.If) and "isinstance(" in norm(n.test) and "IdentifierExpr" in norm(n.test)]:
            subj = next((c.args[0].id for c in ast.walk(iff.test) if isinstance(c, ast.Call) and call_name(c) == "isinstance" and len(c.args) == 2 and isinstance(c.args[0], ast.Name)
                         and "IdentifierExpr" in norm(c.args[1])), None)
            if subj is None:
                continue
            body25 = " ".join(norm(b) for b in iff.body)
            by_name = any(k in body25 for k in (f"symbol_table.lookup({subj}.name)", f"current_scope.lookup({subj}.name)", f"signal_refs.get({subj}.name)", f"signal_refs[{subj}.name]"))
            if not by_name:
                continue
            n25 += 1
            asks = "param_values" in body25
            rep.check(asks, "C15-R25", f"{f25.short}: an expression identifier resolved by name also asks the parameter table", "asks param_values" if asks else
                      f"`{subj}.name` is looked up in the global symbol table / the declared names only: inside a function body a parameter of that name is taken for "
                      "whatever the rest of the program calls so", f25.loc(iff))
    rep.floor("C15-R25", "double look-ups of one name", n25, 1)

    # ---------------- R26 --------------------------------------------------------------
    rep.rule("C15-R26", "a cell's signal type is asked of the lowering's own scoped record first: `_memory_signal_type` consults `self.parent.memory_types` (saved and restored around "
             "callee bodies and loop iterations) before the analyzer's table, which keeps one entry per name for the whole program — the other order types a function-local "
             "`Memory prev` with whatever another function's `prev` was declared as")
    mst = repo.func("MemoryLowerer._memory_signal_type")
    g26 = CFG(mst.node)
    own26 = [n for n in walk_local(mst.node) if isinstance(n, ast.If) and "self.parent.memory_types" in norm(n.test)]
    foreign26 = [n for n in g26.stmts() if any(isinstance(x, ast.Attribute) and norm(x) in ("self.semantic.memory_types", "self.semantic.symbol_table") for x in ast.walk(n))
                 or ("getattr(self.semantic, 'memory_types'" in norm(n))]
    foreign26 = [n for n in foreign26 if not isinstance(n, (ast.FunctionDef,))]
    ok26 = bool(own26) and bool(foreign26) and all(g26.dominates(own26[0], n) for n in foreign26)
    rep.check(ok26, "C15-R26", "_memory_signal_type: the scoped record is consulted before the program-wide tables", "own record first" if ok26 else
              "the analyzer's name-keyed table answers before the lowering's own record", mst.loc(foreign26[0]) if foreign26 else mst.loc())

    # ---------------- R27 --------------------------------------------------------------
    rep.rule("C15-R27", "an `int` declared in a function or loop body is the compile-time constant it is at top level: the lowering keeps an integer-valued declaration as a raw "
             "integer when the *declaration* says `int` (the symbol of a body-local is out of reach by then) — otherwise it becomes a constant combinator, and "
             "`int k = 3; for j in 0..k { ... }` in a function body ends in an uncaught ValueError while the substituted program compiles")
    raw27 = [st for st in walk_local(lds.node) if isinstance(st, ast.Assign) and isinstance(st.targets[0], ast.Subscript) and norm(st.targets[0].value) == "self.parent.signal_refs"
             and isinstance(st.value, ast.Name)]
    ok27 = False
    for st in raw27:
        par = pm19.get(st)
        if isinstance(par, ast.If) and any(isinstance(b, ast.Return) for b in par.body) and "IntValue" in norm(par.test):
            ok27 = f"{decl_p}.type_name == 'int'" in norm(par.test) and isinstance(par.test, ast.BoolOp) and isinstance(par.test.op, ast.Or)
            rep.check(ok27, "C15-R27", "lower_decl_stmt: the declared type `int` alone makes the value a raw integer", norm(par.test)[:100] if ok27 else
                      f"`{norm(par.test)[:90]}`: only a symbol found in the global table does; a body-local int is materialised as a signal", lds.loc(par))
            break
    else:
        raise AnalysisError("C15-R27: the raw-integer store of lower_decl_stmt was not found")

    # ---------------- R28 --------------------------------------------------------------
    rep.rule("C15-R28", "the fresh id of a re-expanded memory is free: `mem_<name>_<n>` can be the id of a memory the program itself called `<name>_<n>`, so the id taken from the "
             "counter is probed against the builder's index until it is unused")
    loops28 = [n for n in walk_local(lmd.node) if isinstance(n, ast.While) and any(call_name(c) == "get_operation" for c in ast.walk(n.test) if isinstance(c, ast.Call))
               and any(isinstance(b, ast.Assign) and isinstance(b.value, ast.Call) and call_name(b.value) == "next_id" for b in n.body)]
    rep.check(bool(loops28), "C15-R28", "lower_mem_decl: the counter id is probed until it is unused", "while <index has it>: take the next" if loops28 else
              "the counter id is used unseen: `Memory m_5` next to a function-local `Memory m` expanded twice gives two cells called mem_m_5", lmd.loc())
