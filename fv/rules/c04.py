"""C04 Self-referential writes iterate the written function exactly — structural clauses (thin, stated as such).

R1 guard dominance: the arithmetic-feedback rewrite runs only for an always-write whose data is an arithmetic node that depends on a read of the same cell
R2 rewire pairing: when the optimisation is recorded, both gates are flagged unused, the cell's source and every recorded read of that cell are re-pointed
R3 feedback realisation: single node -> output->input self-wire on the colour locked for the feedback signal; chain -> edge last -> first consumer
R4 traversal coverage: the dependence walk and the first-consumer search inspect both operands of an arithmetic node
R5 self-feedback edges are routed directly (never folded into the spanning tree)
"""

from __future__ import annotations

import ast

from ..cfg import CFG
from ..core import AnalysisError, Repo, Report, call_name, calls_in, kwarg, norm, parents_map, walk_local
from ..sites import guard_chain
from .util import canon, cguards, cguards_any


def run(repo: Repo, rep: Report, tier: str) -> None:
    mb = repo.cls("MemoryBuilder")
    hw = mb.methods["handle_write"]
    opt = mb.methods["_optimize_to_arithmetic_feedback"]

    # ---------------- R1 ---------------------------------------------------------------
    rep.rule("C04-R1", "_optimize_to_arithmetic_feedback is called only under is_always_write and _can_use_arithmetic_feedback; the latter requires an IRArith data source "
             "that transitively depends on a read of the same memory id")
    pm = parents_map(hw.node)
    cs = calls_in(hw.node, "_optimize_to_arithmetic_feedback")
    rep.floor("C04-R1", "call sites of the feedback optimisation", len(cs), 1)
    callers = [f for f in repo.all_funcs() if f.qual != hw.qual and calls_in(f.node, "_optimize_to_arithmetic_feedback")]
    rep.check(not callers, "C04-R1", "the optimisation has a single call site", str([f.short for f in callers]), hw.loc())
    for c in cs:
        gs = [t for t, pol in cguards(hw, c) if pol]
        ok = any("self._is_always_write(op)" in g and "self._can_use_arithmetic_feedback(op, " in g and " and " in g for g in gs)
        rep.check(ok, "C04-R1", "feedback rewrite only for always-write cells that depend on their own read", "; ".join(gs), hw.loc(c))
    can = mb.methods["_can_use_arithmetic_feedback"]
    ccan = canon(can)
    ok_arith = any(isinstance(n, ast.If) and ccan.text(n.test) == "not isinstance(self._ir_nodes.get(op.data_signal.source_id), IRArith)" and isinstance(n.body[-1], ast.Return) and norm(n.body[-1].value) == "False" for n in walk_local(can.node))
    dep = [c for c in calls_in(can.node, "_operation_depends_on_memory")]
    ok_dep = bool(dep) and ccan.text(dep[0].args[0]) == "op.data_signal.source_id" and norm(dep[0].args[1]) == "op.memory_id"
    rep.check(ok_arith and ok_dep, "C04-R1", "eligibility requires an arithmetic data node depending on this memory", f"IRArith check: {ok_arith}; depends_on(data node, op.memory_id): {ok_dep}", can.loc())
    odm = mb.methods["_operation_depends_on_memory"]
    ok = any(isinstance(n, ast.If) and canon(odm).text(n.test) == "self._read_sources.get(op_id) == memory_id" for n in walk_local(odm.node))
    rep.check(ok, "C04-R1", "dependence means: reaches a read whose memory id equals this cell's", "_read_sources.get(op_id) == memory_id" if ok else "comparison missing", odm.loc())

    # ---------------- R2 ---------------------------------------------------------------
    rep.rule("C04-R2", "on every path of the optimisation that records module.optimization, both *_gate_unused flags are set, the memory's source is re-pointed at the arithmetic node and "
             "a loop over _read_sources filtered on the memory id re-points every read")
    cfg = CFG(opt.node)
    mark = [s for s in cfg.stmts() if isinstance(s, ast.Assign) and norm(s.targets[0]) == "module.optimization"]
    if not mark:
        raise AnalysisError("C04-R2: module.optimization is never recorded")
    def must(pred, what):
        hits = [s for s in cfg.stmts() if pred(s)]
        ok = bool(hits) and not cfg.reaches_avoiding(mark[0], {id("EXIT")}, lambda n: any(n is h for h in hits), start_inclusive=False) if False else bool(hits) and any(cfg.dominates(mark[0], h) or cfg.dominates(h, mark[0]) for h in hits)
        from ..cfg import EXIT
        leak = cfg.reaches_avoiding(mark[0], {id(EXIT)}, lambda n: any(n is h for h in hits), start_inclusive=False) if hits else True
        pre = any(cfg.dominates(h, mark[0]) for h in hits)
        rep.check(bool(hits) and (pre or not leak), "C04-R2", what, f"{len(hits)} site(s), on every path with the optimisation flag" if hits and (pre or not leak) else "missing on some path after the optimisation is recorded", opt.loc(hits[0]) if hits else opt.loc(mark[0]))
    must(lambda s: isinstance(s, ast.Assign) and norm(s) == "module.write_gate_unused = True", "write gate is flagged unused")
    must(lambda s: isinstance(s, ast.Assign) and norm(s) == "module.hold_gate_unused = True", "hold gate is flagged unused")
    copt = canon(opt)
    ARITH = "op.data_signal.source_id"
    must(lambda s: isinstance(s, ast.Expr) and isinstance(s.value, ast.Call) and call_name(s.value) == "set_source" and norm(s.value.args[0]) == "op.memory_id" and ARITH in copt.text(s.value.args[1]), "the cell's source becomes the arithmetic node")
    must(lambda s: isinstance(s, ast.For) and "_read_sources" in norm(s.iter) and any(isinstance(x, ast.Call) and call_name(x) == "set_source" and ARITH in copt.text(x.args[1]) for x in ast.walk(s))
         and any(isinstance(x, ast.Compare) and "op.memory_id" in norm(x) for x in ast.walk(s)), "every recorded read of this cell is re-pointed at the arithmetic node")
    must(lambda s: isinstance(s, ast.Assign) and norm(s.targets[0]) == "module.output_node_id" and ARITH in copt.text(s.value), "later reads are served by the arithmetic node (output_node_id)")
    # set_source appends: the removed gates stay producers of the cell and of its earlier reads unless the old list is emptied first
    ss = repo.func("SignalGraph.set_source")
    appends = any(isinstance(x, ast.Call) and call_name(x) == "append" for x in walk_local(ss.node)) and not any(
        isinstance(x, ast.Assign) and isinstance(x.targets[0], ast.Subscript) and "_sources" in norm(x.targets[0].value) for x in walk_local(ss.node))
    rep.analysed["C04-R2:set_source appends to the producer list"] = appends
    if appends:
        def _clears_cell(s):
            return isinstance(s, ast.Assign) and isinstance(s.targets[0], ast.Subscript) and norm(s.targets[0]) == "signal_graph._sources[op.memory_id]" and norm(s.value) == "[]"
        # either the store itself, or the store under the only guard that leaves nothing to clear (`op.memory_id in signal_graph._sources`)
        must(lambda s: _clears_cell(s) and not any(isinstance(p_, ast.If) and any(x is s for x in p_.body) for p_ in walk_local(opt.node))
             or (isinstance(s, ast.If) and norm(s.test) == "op.memory_id in signal_graph._sources" and any(_clears_cell(x) for x in s.body)),
             "the cell's old producers (the removed gates) are dropped before the arithmetic node is added")
        must(lambda s: isinstance(s, ast.For) and "_read_sources" in norm(s.iter) and any(
                 isinstance(x, ast.Assign) and isinstance(x.targets[0], ast.Subscript) and norm(x.targets[0].value) == "signal_graph._sources" and norm(x.value) == "[]"
                 and copt.text(x.targets[0].slice).startswith("ELEM(self._read_sources.items())") for x in ast.walk(s)),
             "the old producers of every earlier read of the cell are dropped before the arithmetic node is added")
    hr = mb.methods["handle_read"]
    chr_ = canon(hr)
    ok = any(isinstance(n, ast.If) and "arithmetic_feedback" in norm(n.test) and any(isinstance(x, ast.Call) and call_name(x) == "set_source" and chr_.text(x.args[1]).endswith(".output_node_id") and "self._modules" in chr_.text(x.args[1]) for x in ast.walk(n)) for n in walk_local(hr.node))
    rep.check(ok, "C04-R2", "reads lowered after the write use module.output_node_id", "handle_read branch for arithmetic_feedback" if ok else "missing", hr.loc())
    rec = [n for n in walk_local(hr.node) if isinstance(n, ast.Assign) and norm(n.targets[0]) == "self._read_sources[op.node_id]"]
    rep.check(bool(rec) and norm(rec[0].value) == "op.memory_id", "C04-R2", "every read is recorded under its memory id before any early return", norm(rec[0]) if rec else "", hr.loc())

    from .shared import reads_repointed_only_for_own_cell
    reads_repointed_only_for_own_cell(repo, rep, "C04-R2", absent_is="violation")

    # ---------------- R3 ---------------------------------------------------------------
    rep.rule("C04-R3", "single-node case: has_self_feedback/feedback_signal are written and read by a function that adds an output->input self-connection whose colour equals the colour locked "
             "for the feedback signal; chain case: an edge from the last node to the first consumer is registered")
    w_flag = [n for n in walk_local(opt.node) if isinstance(n, ast.Assign) and "['has_self_feedback']" in norm(n.targets[0])]
    w_sig = [n for n in walk_local(opt.node) if isinstance(n, ast.Assign) and "['feedback_signal']" in norm(n.targets[0])]
    ok = bool(w_flag) and bool(w_sig) and any("self._find_first_memory_consumer(op.memory_id)" in t and pol for t, pol in cguards(opt, w_flag[0]))
    rep.check(ok, "C04-R3", "single-combinator loops are flagged for a self-feedback wire", "; ".join(norm(n.targets[0])[-40:] for n in w_flag + w_sig), opt.loc())
    asf = repo.func("ConnectionPlanner._add_self_feedback_connections")
    casf = canon(asf)
    wc = calls_in(asf.node, "WireConnection")
    col = kwarg(wc[0], "wire_color").value if wc and isinstance(kwarg(wc[0], "wire_color"), ast.Constant) else None
    ok = bool(wc) and casf.text(kwarg(wc[0], "source_entity_id")) == casf.text(kwarg(wc[0], "sink_entity_id")) and "entity_placements.items()" in casf.text(kwarg(wc[0], "source_entity_id")) \
        and norm(kwarg(wc[0], "source_side")) == "'output'" and norm(kwarg(wc[0], "sink_side")) == "'input'" \
        and casf.text(kwarg(wc[0], "signal_name")).endswith(".properties.get('feedback_signal')") and any("has_self_feedback" in norm(n) for n in walk_local(asf.node))
    rep.check(ok, "C04-R3", "flagged combinators get an output->input self-wire carrying the feedback signal", norm(wc[0])[:120] if wc else "", asf.loc())
    dl = repo.func("LayoutPlanner._determine_locked_wire_colors")
    cdl = canon(dl)
    lk = [n for n in walk_local(dl.node) if isinstance(n, ast.Assign) and isinstance(n.targets[0], ast.Subscript) and isinstance(n.value, ast.Constant) and cdl.text(n.targets[0].slice).endswith(".properties.get('feedback_signal'))")]
    # the cell's own operand is looked up as the edge (cell, cell, signal), which is never planned: it reads the self-wire's colour if the cell's output is pinned to that
    # colour, or if the lookup's last resort for an unplanned edge is that colour (locks keyed by a *feeding source* are a different matter: C04-R10)
    own_lk = [n for n in lk if isinstance(n.targets[0].slice, ast.Tuple) and "entity_placements.items()" in cdl.text(n.targets[0].slice.elts[0])]
    gwc3 = repo.func("ConnectionPlanner.get_wire_color_for_edge")
    last3 = [n for n in gwc3.node.body if isinstance(n, ast.Return)]
    dflt3 = last3[-1].value.value if last3 and isinstance(last3[-1].value, ast.Constant) else None
    ok3 = (bool(own_lk) and all(n.value.value == col for n in own_lk)) or (not own_lk and dflt3 == col)
    rep.check(ok3, "C04-R3", "the feedback signal is locked to the colour of the self-wire", f"lock {norm(own_lk[0].value) if own_lk else None}, lookup default {dflt3!r}, wire {col}", dl.loc())
    pc = repo.func("ConnectionPlanner.plan_connections")
    cpc = canon(pc)
    order = [call_name(c) for c in calls_in(pc.node) if call_name(c) in ("_add_self_feedback_connections", "clear")]
    ext = [c for c in calls_in(pc.node, "extend") if "list(self.layout_plan.wire_connections)" in cpc.text(c.args[0])]
    rep.check(bool(ext) and order[:1] == ["_add_self_feedback_connections"], "C04-R3", "self-feedback wires are added before the plan's wires are rebuilt and are preserved", f"order {order}, preserved: {bool(ext)}", pc.loc())
    chain = [n for n in walk_local(opt.node) if isinstance(n, ast.If) and any(isinstance(x, ast.Call) and call_name(x) == "add_sink" for s_ in n.body for x in ast.walk(s_))]
    ok = False
    for n in chain:
        t = copt.text(n.test)
        for x in [x for s_ in n.body for x in ast.walk(s_) if isinstance(x, ast.Call) and call_name(x) == "add_sink"]:
            if ARITH in copt.text(x.args[0]) and "self._find_first_memory_consumer(op.memory_id)" in copt.text(x.args[1]) and "!=" in t:
                ok = True
    rep.check(ok, "C04-R3", "multi-node loops register the edge last node -> first consumer", "add_sink(arithmetic node, first consumer)" if ok else "missing", opt.loc())

    # ---------------- R4 ---------------------------------------------------------------
    rep.rule("C04-R4", "_operation_depends_on_memory and _find_first_memory_consumer inspect both IRArith.left and IRArith.right")
    for f in (odm, mb.methods["_find_first_memory_consumer"]):
        sides = set()
        for n in walk_local(f.node):
            if isinstance(n, ast.Attribute) and n.attr in ("left", "right") and isinstance(n.value, ast.Name):
                # must take part in the decision: appear in an isinstance(...SignalRef) test with .source_id use
                sides.add(n.attr)
        used_in_decision = set()
        for n in walk_local(f.node):
            if isinstance(n, (ast.If, ast.Return)):
                txt = norm(n.test if isinstance(n, ast.If) else n.value)
                names = {x.id for x in ast.walk(n.test if isinstance(n, ast.If) else n.value) if isinstance(x, ast.Name)} if (n.test if isinstance(n, ast.If) else n.value) is not None else set()
                for side in ("left", "right"):
                    if f".{side}" in txt:
                        used_in_decision.add(side)
                # decisions through locals: left_uses / right_uses
                from ..dataflow import DefUse
                du = DefUse(f)
                for nm in names:
                    for v in du.value_exprs(nm):
                        for side in ("left", "right"):
                            if f".{side}" in norm(v):
                                used_in_decision.add(side)
        rep.check(used_in_decision == {"left", "right"}, "C04-R4", f"{f.short} follows both operands of an arithmetic node",
                  f"operands taking part in the decision: {sorted(used_in_decision)}" + ("" if used_in_decision == {"left", "right"} else ": a cell read on the other operand is not recognised"), f.loc())

    # ---------------- R5 ---------------------------------------------------------------
    rep.rule("C04-R5", "an edge whose reverse exists in the same signal group (in particular a self-loop) is classified bidirectional and routed directly; the classification has no extra exclusions")
    fb = repo.func("ConnectionPlanner._find_bidirectional_pairs")
    cfb = canon(fb)
    adds = [c for c in calls_in(fb.node, "add") if isinstance(c.func, ast.Attribute) and isinstance(c.func.value, ast.Name) and c.args and isinstance(c.args[0], (ast.Tuple, ast.Name))]
    rep.floor("C04-R5", "pair registrations", len(adds), 2)
    for c in adds[:1]:
        gs = cguards(fb, c)
        def allowed(g: str, pol: bool) -> bool:
            if pol and g.startswith("(ELEM(edges).sink_entity_id, ELEM(edges).source_entity_id) in "):
                return True
            return (not pol) and g == "ELEM(edges).source_entity_id is None"
        ok = all(allowed(g, p) for g, p in gs) and any(p and " in " in g for g, p in gs)
        rep.check(ok, "C04-R5", "bidirectional classification depends only on the reverse edge being present",
                  "; ".join(("" if p else "not ") + g[:90] for g, p in gs), fb.loc(c))
    pop = repo.func("ConnectionPlanner._populate_wire_connections")
    cpop = canon(pop)
    # the set of bidirectional sinks: a local set filled under membership in the pairs found by _find_bidirectional_pairs
    bidir_sets = {c_.func.value.id for c_ in calls_in(pop.node, "add") if isinstance(c_.func, ast.Attribute) and isinstance(c_.func.value, ast.Name)
                  and any(pol and "self._find_bidirectional_pairs(" in g and " in " in g for g, pol in cguards(pop, c_))}
    rep.floor("C04-R5", "local sets of bidirectional sinks", len(bidir_sets), 1)
    routing_loops = []
    for call_ in calls_in(pop.node, "_route_edge_directly"):
        cur = call_
        while cur in cpop.pm and not isinstance(cur, ast.For):
            cur = cpop.pm[cur]
        if isinstance(cur, ast.For) and cur not in routing_loops:
            routing_loops.append(cur)
    over_bidir = [n for n in routing_loops if any(isinstance(x, ast.Name) and x.id in bidir_sets for x in ast.walk(n.iter))]
    ok = any(not any("mst" in g.lower() for g, _ in cguards(pop, n)) for n in over_bidir)
    rep.check(ok, "C04-R5", "bidirectional sinks are always routed directly", "a loop over the bidirectional sinks routes them with _route_edge_directly whatever the spanning tree did" if ok else
              ("no direct-routing loop over the bidirectional sinks" if not over_bidir else "the only loop that routes bidirectional sinks is conditional on the spanning-tree outcome: when the tree succeeds the loop-closing wire of a two-combinator feedback loop is never laid"), pop.loc())

    # every sink of a source is wired by exactly one of: the spanning tree, the fallback direct loop, the bidirectional direct loop
    mst_calls = calls_in(pop.node, "_apply_mst_to_source_fanout")
    fallback = [n for n in routing_loops if any((not pol) and "_apply_mst_to_source_fanout(" in g for g, pol in cguards(pop, n)) or any("mst" in g.lower() for g, _ in cguards(pop, n))]
    rep.floor("C04-R5", "spanning-tree call sites in the wire population", len(mst_calls), 1)
    for mc_ in mst_calls:
        tree_arg = cpop.text(mc_.args[1]) if len(mc_.args) > 1 else ""
        same = bool(fallback) and all(cpop.text(n.iter) == tree_arg for n in fallback)
        covers = any(f"not in set()" in tree_arg and nm for nm in bidir_sets) and tree_arg.count(" if ") == 1
        rep.check(same and covers, "C04-R5", "the sinks handed to the spanning tree are exactly the non-bidirectional sinks, and the same list is wired directly when the tree is not used",
                  "tree argument == fallback loop iterable == [sink for sink in sinks if sink not in bidirectional]" if same and covers else
                  (f"the tree gets `{tree_arg[-70:]}` but the fallback loop wires `{cpop.text(fallback[0].iter)[-70:] if fallback else 'nothing'}`: sinks outside the tree are wired only when the tree fails"
                   if not same else "the list handed to the tree excludes more than the bidirectional sinks"), pop.loc(mc_))

    # ---------------- R6 ---------------------------------------------------------------
    from .shared import borrow as _borrow4
    _borrow4(repo, rep, "C03", "C03-R7", "C04-R6", "the loop's last combinator emits the signal the cell is read on: the written value is coerced onto the cell's signal on every path")

    # ---------------- R7 ---------------------------------------------------------------
    rep.rule("C04-R7", "in a loop of two combinators the forward edge is the reverse of the feedback edge: the colour table the operand filters are read from keeps, for each pair, "
             "the colour of the edge that really runs there — the fan-out router may add an entry under a reversed or spanning-tree key, but never replace one")
    from .shared import mst_colour_keys as _mck4
    _mck4(repo, rep, "C04-R7")

    # ---------------- R8 ---------------------------------------------------------------
    rep.rule("C04-R8", "an operand that reads a folded cell finds the combinator that now holds it: _resolve_source_entity falls back to the signal graph with a key for every way it can "
             "obtain a candidate id (the id of a removed read names no placement; without the key the operand gets no wire selection and reads red + green)")
    rse = repo.func("LayoutPlanner._resolve_source_entity")
    crse = canon(rse)
    fallback = [c for c in calls_in(rse.node, "get_source") if c.args]
    rets8 = [n for n in walk_local(rse.node) if isinstance(n, ast.Return) and isinstance(n.value, ast.Name)]
    if not fallback or not rets8:
        raise AnalysisError("C04-R8: fallback lookup / candidate return not found in _resolve_source_entity")
    cand_alts = set()
    for r8 in rets8:
        cand_alts |= {a for a in crse.alts(r8.value) if a != "None" and "get_source(" not in a}
    key_alts = {a for c in fallback for a in crse.alts(c.args[0]) if a != "None"}
    missing8 = sorted(cand_alts - key_alts)
    rep.check(not missing8, "C04-R8", "_resolve_source_entity: every candidate id can also be looked up in the signal graph", f"candidates {sorted(cand_alts)}; graph keys {sorted(key_alts)}" if not missing8 else
              f"candidate(s) {missing8} have no graph key: a reference whose node was replaced (a read of a cell folded into an arithmetic loop) resolves to nothing", rse.loc(fallback[0]))

    # ---------------- R9 ---------------------------------------------------------------
    _borrow4(repo, rep, "C12", "C12-R2", "C04-R9", "the loop's wire carries only the loop: a relay pole on a long feedback or reader wire is shared with another network of the same "
             "colour only through can_route_network, otherwise the other network's value of the cell's signal is added into the cell every tick", floor=5)

    # ---------------- R10 --------------------------------------------------------------
    rep.rule("C04-R10", "a one-combinator loop reads its own value and its input apart: the loop wire of a folded cell is red, so whatever else reaches that combinator on the "
             "cell's signal is locked to the other colour (a lock keyed by the feeding source, set under `source != the cell`) — with both on red the operand sees value + input "
             "twice and `c.write(c.read() + x)` iterates 2v + 2x")
    dl = repo.func("LayoutPlanner._determine_locked_wire_colors")
    from .util import cguards as _cg10
    stores10 = []
    for st in walk_local(dl.node):
        if isinstance(st, ast.Assign) and isinstance(st.targets[0], ast.Subscript) and isinstance(st.targets[0].slice, ast.Tuple) and len(st.targets[0].slice.elts) == 2 \
                and isinstance(st.value, ast.Constant) and st.value.value in ("red", "green"):
            gs = _cg10(dl, st)
            if any(pol and "'has_self_feedback'" in g for g, pol in gs):
                stores10.append((st, gs))
    # the loop wire itself is laid red by the connection planner; whether the cell's *output to its readers* is pinned to red as well is not required (two folded
    # cells on one signal that meet in a reader need different colours there)
    other = [(st, gs) for st, gs in stores10 if st.value.value == "green" and any(isinstance(x, ast.For) for x in _anc10(dl.node, st))]
    apart = [1 for st, gs in other if any((not pol) and " == " in g for g, pol in gs)]
    own = stores10
    rep.check(bool(other) and bool(apart), "C04-R10", "_determine_locked_wire_colors: other sources of the cell's signal into a folded cell are locked to green",
              "lock keyed by the feeding source, for sources other than the cell" if other and apart else
              "only the cell's own output is locked: an input on the cell's signal shares the red loop wire", dl.loc(own[0][0]) if own else dl.loc())

    # ---------------- R11 --------------------------------------------------------------
    rep.rule("C04-R11", "two folded cells on one signal that are read together stay two loops: each cell's loop wire joins its output to its own input, so a reader that takes both "
             "outputs on one colour joins the two loops and each cell adds the other's value every tick — the colour of a folded cell's output towards its readers must be "
             "left to the conflict colouring (no lock keyed by the cell itself)")
    rep.check(not own_lk, "C04-R11", "_determine_locked_wire_colors does not pin a folded cell's output to one colour", "no lock keyed by the cell" if not own_lk else
              f"`{norm(own_lk[0])[:80]}`: `c.write(c.read() + 1); d.write(d.read() + 2);` on one signal with a reader `c.read() + d.read()` puts both outputs on red and the loops merge", dl.loc(own_lk[0]) if own_lk else dl.loc())

    # ---------------- R12 --------------------------------------------------------------
    _borrow4(repo, rep, "C01", "C01-R4", "C04-R12", "the folded loop reads its own value and its input on the colours they were wired with: the arithmetic configurator hands "
             "each operand's wire selection to that operand's slot (the loop wire is red, an input on the cell's signal green: crossed selections add the cell to itself)",
             select=lambda o: "_configure_arithmetic" in o.construct, floor=2)

    # ---------------- R13 --------------------------------------------------------------
    _borrow4(repo, rep, "C10", "C10-R3", "C04-R13", "the folded loop keeps reading the cell's signal with optimisation on: CSE merges the written expression with an earlier copy of it "
             "only if the two agree in everything the key holds, the output signal included (a copy projected onto another signal would take the loop's place)",
             select=lambda o: "output_type" in o.construct or "IRArith" in o.construct, floor=3)


def _anc10(root: ast.AST, node: ast.AST) -> list[ast.AST]:
    from ..core import parents_map
    pm = parents_map(root)
    out = []
    cur = node
    while cur in pm:
        cur = pm[cur]
        out.append(cur)
    return out
