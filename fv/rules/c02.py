"""C02 Bundle operations act member-wise and never leak foreign signals — structural clauses.

R1 wildcard role table: each bundle constructor uses the wildcard the Factorio semantics of the operation require
R2 separation flag chain: a scalar/condition signal next to a bundle sets the flag, the placer forwards it, the planner locks one input to the non-default colour,
   and the operand wire selection written for a resolved source is a single colour
R3 bundle literals: a constant member goes to the constant part or the computed part, never both; duplicate detection covers nested bundles like direct members
"""

from __future__ import annotations

import ast
import re

from ..cfg import CFG
from ..core import AnalysisError, Repo, Report, call_name, calls_in, kwarg, module_const, norm, parents_map, walk_local
from ..dataflow import DefUse
from ..sites import guard_chain
from .util import attr_stores, canon, cguards, cguards_any, stmt_of


def _sigref_literals(f) -> list[tuple[str, ast.Call]]:
    out = []
    for c in calls_in(f.node, "SignalRef"):
        if c.args and isinstance(c.args[0], ast.Constant) and isinstance(c.args[0].value, str) and c.args[0].value.startswith("signal-"):
            out.append((c.args[0].value, c))
    return out


def run(repo: Repo, rep: Report, tier: str) -> None:
    b = repo.cls("IRBuilder")
    el = repo.cls("ExpressionLowerer")
    # ---------------- R1 ---------------------------------------------------------------
    rep.rule("C02-R1", "member-wise map/filter uses signal-each as first operand and output; gating a whole bundle outputs signal-everything; any() reads signal-anything and all() "
             "signal-everything, in the lowerer and in the inlined entity condition alike; an each-output arithmetic without an each input is never emitted")
    ba = b.methods["bundle_arithmetic"]
    c = calls_in(ba.node, "IRArith")
    st = {k: v[-1] for k, v in attr_stores(ba).items()}
    ok = bool(c) and norm(c[0].args[1]) == "'signal-each'" and st.get("left") == "SignalRef('signal-each', bundle.source_id)" and st.get("right") == "operand" and st.get("op") == "op"
    rep.check(ok, "C02-R1", "bundle OP scalar: each-arithmetic (each in, each out, scalar on the right)", str({k: st.get(k) for k in ("op", "left", "right")}), ba.loc())
    bd = b.methods["bundle_decider"]
    c = calls_in(bd.node, "IRDecider")
    st = {k: v[-1] for k, v in attr_stores(bd).items()}
    ok = bool(c) and norm(c[0].args[1]) == "'signal-each'" and st.get("left") == "SignalRef('signal-each', bundle.source_id)" and st.get("right") == "compare_value" and st.get("test_op") == "op" \
        and st.get("copy_count_from_input") == "copy_count_from_input" and st.get("output_value") == "output_value"
    rep.check(ok, "C02-R1", "bundle filter: each-decider (each compared, each output, copy or constant per member)", str(st), bd.loc())
    bg = b.methods["bundle_gating_decider"]
    c = calls_in(bg.node, "IRDecider")
    st = {k: v[-1] for k, v in attr_stores(bg).items()}
    ok = bool(c) and norm(c[0].args[1]) == "'signal-everything'" and st.get("left") == "left" and st.get("right") == "right" and st.get("test_op") == "op" \
        and st.get("output_value") == "SignalRef('signal-everything', bundle.source_id) if copy_count_from_input else output_value"
    rep.check(ok, "C02-R1", "gating: scalar condition, output signal-everything copied from the bundle", str(st), bg.loc())
    bc = b.methods["bundle_const"]
    ok = attr_stores(bc).get("signals") == ["signals.copy()"] and any(call_name(x) == "BundleRef" and norm(x.args[0]) == "set(signals.keys())" for x in calls_in(bc.node))
    rep.check(ok, "C02-R1", "bundle constant carries exactly the listed members", "signals copied; members = keys", bc.loc())
    for name, want in (("lower_bundle_any", "signal-anything"), ("lower_bundle_all", "signal-everything")):
        lits = [l for l, _ in _sigref_literals(el.methods[name])]
        rep.check(lits == [want], "C02-R1", f"{name} reads {want}", str(lits), el.methods[name].loc())
    sl = repo.cls("StatementLowerer").methods["_lower_inlined_bundle_condition"]
    csl = canon(sl)
    dd = [n for n in walk_local(sl.node) if isinstance(n, ast.Dict) and any(isinstance(k, ast.Constant) and k.value == "signal" for k in n.keys)]
    sig = csl.text(dict(zip([k.value for k in dd[0].keys], dd[0].values))["signal"]) if dd else ""
    ok = sig == "'signal-everything' if ('all' if isinstance(expr.left, BundleAllExpr) else 'any') == 'all' else 'signal-anything'"
    rep.check(ok, "C02-R1", "inlined entity condition maps all/any to the same wildcards as the lowerer", sig, sl.loc())
    ca = repo.func("PlanEntityEmitter._configure_arithmetic")
    g = [n for n in walk_local(ca.node) if isinstance(n, ast.If) and "signal-each" in norm(n.test)]
    gt = canon(ca).text(g[0].test) if g else ""
    parts = [canon(ca).text(v) for v in g[0].test.values] if g and isinstance(g[0].test, ast.BoolOp) and isinstance(g[0].test.op, ast.And) else []
    ok = len(parts) == 3 and "props.get('output_signal')" in parts[0] and parts[0].endswith("== 'signal-each'") and parts[1] == "props.get('left_operand') != 'signal-each'" and parts[2] == "props.get('right_operand') != 'signal-each'"
    rep.check(ok, "C02-R1", "an each output without an each input is replaced before emission", gt or "guard missing", ca.loc())
    bs = el.methods["lower_bundle_select"]
    rets = [c for c in calls_in(bs.node, "SignalRef")]
    ok = bool(rets) and all(norm(c.args[0]) == "expr.signal_type" and canon(bs).text(c.args[1]) == "self.lower_expr(expr.bundle).source_id" for c in rets)
    rep.check(ok, "C02-R1", "bundle[\"t\"] reads member t from the bundle's own source", "; ".join(norm(c)[:60] for c in rets), bs.loc())
    bo = el.methods["_lower_bundle_op"]
    c = calls_in(bo.node, "bundle_arithmetic")
    ok = bool(c) and canon(bo).text(c[0].args[1]) == "self.lower_expr(expr.left)" and canon(bo).text(c[0].args[2]) == "self.lower_expr(expr.right)"
    rep.check(ok, "C02-R1", "bundle OP x: the bundle is the each-side, x the scalar side", norm(c[0])[:80] if c else "", bo.loc())

    # ---------------- R2 ---------------------------------------------------------------
    rep.rule("C02-R2", "where a bundle builder receives a signal-valued scalar/condition it sets the separation flag on every such path; the placer forwards it for both node kinds; the planner locks "
             "exactly one of the two inputs to the non-default colour; the wire selection stored for an operand with a resolved source is a single colour from the planner's lookup")
    for name, operand in (("bundle_arithmetic", "operand"), ("bundle_decider", "compare_value"), ("bundle_gating_decider", "left")):
        m = b.methods[name]
        flags = [n for n in walk_local(m.node) if isinstance(n, ast.Assign) and "needs_wire_separation" in norm(n.targets[0]) and norm(n.value) == "True"]
        if name == "bundle_gating_decider":
            # the condition is `left OP right`; either side may be the signal (`(3 == k) : b`), so the decision has to look at both
            gtxt = [t for t, pol in cguards(m, flags[0]) if pol and "SignalRef" in t] if flags else []
            names_read = {x.id for t in gtxt for x in ast.walk(ast.parse(t, mode="eval")) if isinstance(x, ast.Name)}
            ok = bool(flags) and {"left", "right"} <= names_read
            rep.check(ok, "C02-R2", f"{name} flags wire separation when either side of the condition is a signal", (gtxt[0][:90] if gtxt else "") if ok else
                      (f"decided on {sorted(names_read & {'left', 'right'})} only: with the signal on the other side (`(3 == k) : b`) the condition signal shares the bundle's wire and is "
                       "passed through with it" if flags else "flag never set"), m.loc(flags[0]) if flags else m.loc())
            continue
        ok = bool(flags) and any(t == f"isinstance({operand}, SignalRef)" and pol for t, pol in cguards_any(m, flags[0]))
        rep.check(ok, "C02-R2", f"{name} flags wire separation when `{operand}` is a signal", norm(flags[0]) if flags else "flag never set", m.loc())
    ep = repo.cls("EntityPlacer")
    rep.rule("C02-R15", "a bundle constant is never read as a number: an unnamed `{...}` literal is an IRConst with member signals and value 0; the layout may inline an unnamed "
             "scalar constant into its consumer as a literal, but for a constant with members either the inlining test declines or the materialisation decision keeps it "
             "— otherwise `{(\"signal-A\", 5), (\"signal-B\", 7)} * k` multiplies the literal 0")
    dm15 = repo.func("SignalAnalyzer._decide_materialization")
    ci15 = repo.func("SignalAnalyzer.can_inline_constant")
    declines15 = any(isinstance(n, ast.If) and ".signals" in norm(n.test) and any(isinstance(x, ast.Return) and norm(x.value) == "False" for x in n.body) for n in walk_local(ci15.node))
    keeps15 = []
    for n in walk_local(dm15.node):
        if isinstance(n, ast.If) and norm(n.test).endswith(".signals") and any(isinstance(b, ast.Assign) and norm(b.targets[0]).endswith(".should_materialize") and norm(b.value) == "True" for b in n.body) \
                and any(isinstance(b, ast.Return) for b in n.body):
            keeps15.append(n)
    inl15 = [n for n in walk_local(dm15.node) if isinstance(n, ast.Assign) and norm(n.targets[0]).endswith(".should_materialize") and "consumers" in norm(n.value)]
    if not inl15:
        raise AnalysisError("C02-R15: the inlining decision (`should_materialize = bool(... consumers ...)`) was not found")
    g15 = CFG(dm15.node)
    dom15 = any(g15.dominates(k, inl15[0]) for k in keeps15)
    rep.check(declines15 or dom15, "C02-R15", "a constant with member signals is kept as a combinator", "can_inline_constant declines" if declines15 else "kept before the inlining decision" if dom15 else
              "the inlining decision does not look at `.signals`: an unnamed bundle literal with consumers is replaced by its `value`, 0", dm15.loc(inl15[0]))
    rep.rule("C02-R16", "the bundle side of a gate is kept apart from the condition whatever the bundle is made of: a merged bundle `{b1, b2}` has no entity, its parts are wired to "
             "the gate, so the gating lock walks the merge junctions down to producing entities (a lock keyed by the merge id binds nothing); and the gate's pass-through "
             "colour is whatever the planner answers for that operand, fallbacks included, not a constant default when no edge carries the operand's own name")
    dl16 = repo.func("LayoutPlanner._determine_locked_wire_colors")
    walks16 = [n for n in walk_local(dl16.node) if isinstance(n, (ast.While, ast.For)) and any("_wire_merge_junctions" in norm(x) for x in ast.walk(n))]
    from .util import cguards as _cg16
    gate_locks16 = [n for n in walk_local(dl16.node) if isinstance(n, ast.Assign) and isinstance(n.targets[0], ast.Subscript) and isinstance(n.value, ast.Constant) and n.value.value == "green"
                    and any(pol and "output_value_signal_id" in g for g, pol in _cg16(dl16, n))]
    in_loop16 = [n for n in gate_locks16 if any(isinstance(p_, ast.For) for p_ in _ancestors16(dl16.node, n))]
    ok16 = bool(walks16) and bool(in_loop16)
    rep.check(ok16, "C02-R16", "_determine_locked_wire_colors: the gating lock is set for every producer of a merged bundle", "junctions expanded; one lock per producer" if ok16 else
              "the lock is keyed by the bundle's own node id: for `(lvl > 3) : {b1, b2}` that is a merge id no edge starts from, the parts stay on the condition's wire and the gate passes lvl through", dl16.loc(gate_locks16[0]) if gate_locks16 else dl16.loc())
    iov16 = repo.func("LayoutPlanner._inject_output_value_wire_color")
    consts16 = [n for n in walk_local(iov16.node) if isinstance(n, ast.Assign) and isinstance(n.targets[0], ast.Name) and n.targets[0].id == "color" and isinstance(n.value, ast.Constant) and isinstance(n.value.value, str)]
    rep.check(not consts16, "C02-R16", "_inject_output_value_wire_color never answers with a constant colour", "every colour comes from the connection planner" if not consts16 else
              f"`{norm(consts16[0])}` stands whenever no edge carries the operand's own name: the gate then copies from red although a merged bundle arrives on green", iov16.loc(consts16[0]) if consts16 else iov16.loc())
    rep.rule("C02-R17", "a wildcard row of a folded condition reads its own bundle only: `(any(b1) > 6) && (any(b2) > 6)` is one decider with two signal-anything rows, b1 and b2 "
             "arrive on different colours, and each row must be told its colour — the edge that brings a bundle is named after the bundle, never after the wildcard, so the "
             "per-row injection may not insist on an edge under the row's own signal name")
    icw = repo.func("LayoutPlanner._inject_condition_wire_colors")
    stores17 = [n for n in walk_local(icw.node) if isinstance(n, ast.Assign) and isinstance(n.targets[0], ast.Subscript) and "_signal_wires" in norm(n.targets[0])]
    if not stores17:
        raise AnalysisError("C02-R17: the per-row colour store was not found in _inject_condition_wire_colors")
    for st17 in stores17:
        strict = []
        for gnode, pol in __import__("fv.sites", fromlist=["guard_chain"]).guard_chain(icw, st17, parents_map(icw.node)):
            if not pol:
                continue
            gexp = canon(icw).node(gnode, st17)
            conj = list(gexp.values) if isinstance(gexp, ast.BoolOp) and isinstance(gexp.op, ast.And) else [gexp]
            strict += [c for c in conj if isinstance(c, ast.Compare) and isinstance(c.ops[0], ast.In) and "_edge_wire_colors" in norm(c.comparators[0])]
        rep.check(not strict, "C02-R17", "_inject_condition_wire_colors: a row is coloured whenever its source is wired to the decider", "no exact-name requirement" if not strict else
                  f"requires `{norm(strict[0])[:100]}`: a signal-anything / signal-everything row has no edge of that name and stays unselected, so it sees both bundles", icw.loc(st17))
    rep.rule("C02-R18", "a projection never renames the output of a bundle operation: `(b * 2)[\"coal\"] | \"signal-1\"` selects a member and projects it; the each-combinator "
             "behind `b * 2` outputs every member under its own name, and folding the projection into it (output signal-1) sums all members onto that one signal — "
             "_try_fold_projection_into_source declines when the producer outputs a wildcard")
    pf18 = repo.func("ExpressionLowerer._try_fold_projection_into_source")
    g18 = CFG(pf18.node)
    ret18 = [n for n in walk_local(pf18.node) if isinstance(n, ast.Assign) and isinstance(n.targets[0], ast.Attribute) and n.targets[0].attr == "output_type"]
    dec18 = [n for n in walk_local(pf18.node) if isinstance(n, ast.If) and ".output_type" in norm(n.test) and "signal-each" in norm(n.test)
             and any(isinstance(b, ast.Return) and (b.value is None or (isinstance(b.value, ast.Constant) and b.value.value is None)) for b in n.body)]
    if not ret18:
        raise AnalysisError("C02-R18: the retyping store of _try_fold_projection_into_source was not found")
    ok18 = any(g18.dominates(d, ret18[0]) for d in dec18)
    rep.check(ok18, "C02-R18", "_try_fold_projection_into_source declines for a producer that outputs a wildcard", "`return None` for signal-each / signal-everything producers dominates the retyping" if ok18 else
              "a bundle arithmetic or filter can be renamed to a single output signal: all members are summed onto it (46 instead of 6 for b = {100, -80, 3} * 2)", pf18.loc(ret18[0]))
    rep.rule("C02-R19", "a gate passes a bundle whatever its condition is made of: each function that lowers `cond : value` (comparison, named condition, compound condition) "
             "has an arm for a bundle value that builds the bundle gate (`bundle_gating_decider`) — without it the value is treated as a scalar and `c : b` or "
             "`((k > 2) && (j > 0)) : b` yields an empty bundle")
    for fn19 in ("lower_output_spec_expr", "_lower_identifier_condition_output_spec", "_lower_compound_output_spec"):
        f19 = repo.func(f"ExpressionLowerer.{fn19}")
        arms19 = [n for n in walk_local(f19.node) if isinstance(n, ast.If) and "BundleRef" in norm(n.test) and "isinstance(" in norm(n.test)
                  and any(isinstance(x, ast.Call) and call_name(x) == "bundle_gating_decider" for b in n.body for x in ast.walk(b))]
        rep.check(bool(arms19), "C02-R19", f"{fn19}: a bundle value gets the bundle gate", "isinstance(..., BundleRef) -> bundle_gating_decider" if arms19 else
                  "no arm for a bundle value: the gate is built as a scalar decider and nothing of the bundle comes out", f19.loc())
    rep.rule("C02-R20", "the same holds for a wildcard row of a folded condition: `(all(b) < 150) && (k > 0)` is one multi-condition decider whose first row reads signal-everything; "
             "the row for k reads a signal that travels to the same combinator, so the multi-condition placement has to ask for wire separation as the single-condition one "
             "does (C02-R14) — otherwise k is counted as a member of b")
    pmc20 = ep.methods["_place_multi_condition_decider"]
    c20 = calls_in(pmc20.node, "create_and_add_placement")
    asks20 = bool(c20) and kwarg(c20[0], "needs_wire_separation") is not None
    rep.check(asks20, "C02-R20", "_place_multi_condition_decider separates wildcard rows from signal rows", "passes a separation flag" if asks20 else
              "the multi-condition placement never asks for wire separation: `Signal r = (all(b) < 150) && (k > 0);` with k = 200 is 0 (k is counted as a member)", pmc20.loc(c20[0]) if c20 else pmc20.loc())
    rep.rule("C02-R14", "a wildcard compared with a signal does not count that signal: `any(b) CMP k` / `all(b) CMP k` is a decider whose first operand is signal-anything / "
             "signal-everything; the placement raises the separation flag for it, and the planner then brings the scalar in on green as it does for a bundle filter")
    pa = ep.methods["_place_arithmetic"]
    c = calls_in(pa.node, "create_and_add_placement")
    rep.check(bool(c) and norm(kwarg(c[0], "needs_wire_separation")) == "op.needs_wire_separation", "C02-R2", "_place_arithmetic forwards the flag", norm(kwarg(c[0], "needs_wire_separation")) if c else "", pa.loc())
    pd = ep.methods["_place_single_condition_decider"]
    c = calls_in(pd.node, "create_and_add_placement")
    alts_f = canon(pd).alts(kwarg(c[0], "needs_wire_separation"), c[0]) if c else []
    META_F = "op.debug_metadata.get('needs_wire_separation'"
    # the placement may raise the flag on its own (a literal True on some path); it never lowers what the node asked for
    META_RE = re.compile(r"op\.debug_metadata\.get\('needs_wire_separation'(, False)?\)")
    ok = bool(alts_f) and any(META_RE.fullmatch(a) for a in alts_f) and all(META_RE.fullmatch(a) or a == "True" for a in alts_f)
    rep.check(ok, "C02-R2", "_place_single_condition_decider forwards the flag from the node's metadata", "; ".join(a[:50] for a in alts_f), pd.loc())
    # any(bundle) / all(bundle) compared with a signal: the wildcard counts every signal on the wire, the scalar included, unless the two are separated
    raises = []
    cpd14 = canon(pd)
    for iff in [n for n in walk_local(pd.node) if isinstance(n, ast.If)]:
        t = cpd14.text(iff.test, iff)
        if "signal-anything" in t and "signal-everything" in t and "isinstance(self.signal_analyzer.get_operand_for_combinator(op.right), str)" in t \
                and any(isinstance(b, ast.Assign) and "needs_wire_separation" in norm(b.targets[0]) and norm(b.value) == "True" for b in iff.body):
            raises.append(iff)
    rep.check(bool(raises), "C02-R14", "_place_single_condition_decider separates a wildcard comparison from its scalar", "flag raised for (anything|everything CMP signal)" if raises else
              "`all(b) > k` is placed without wire separation: k travels on the bundle's wire and is counted as a member (all(b) > 3 is false for b = {5, 7} and k = 3)", pd.loc())
    from ..core import module_const as mc
    WC = tuple(mc(repo, repo.module("layout.wire_router"), "WIRE_COLORS"))
    default = WC[0]
    dl = repo.func("LayoutPlanner._determine_locked_wire_colors")
    locks = [n for n in walk_local(dl.node) if isinstance(n, ast.Assign) and isinstance(n.targets[0], ast.Subscript) and isinstance(n.value, ast.Constant) and n.value.value in WC
             and isinstance(n.targets[0].value, ast.Name)]
    kinds = {}
    for n in locks:
        gs = cguards(dl, n)
        if not any("needs_wire_separation" in t and pol for t, pol in gs):
            continue
        for t, pol in gs:
            if pol and ".entity_type ==" in t:
                kinds[t.split("==")[1].strip().strip("'")] = n
    # a separated decider comes in two forms — gating (condition scalar, bundle as output value) and filtering (each CMP scalar): both need a lock
    dec_locks = [n for n in locks if any("needs_wire_separation" in t and pol for t, pol in cguards(dl, n)) and any(pol and ".entity_type == 'decider-combinator'" in t for t, pol in cguards(dl, n))]
    cdl = canon(dl)
    forms = {"gating (bundle is the output value)": "output_value_signal_id", "filter (scalar is the right operand)": "right_operand_signal_id"}
    for form, key in forms.items():
        hit = [n for n in dec_locks if key in cdl.text(n.targets[0].slice)]
        rep.check(bool(hit), "C02-R2", f"planner separates the inputs of a decider in {form.split(' ')[0]} form", f"lock keyed by {key}" if hit else
                  f"no lock derived from `{key}`: for `(b >= k) : 1` the scalar k stays on the bundle's wire, `each` sees it and it appears in the result", dl.loc(hit[0]) if hit else dl.loc())
    for kind in ("arithmetic-combinator", "decider-combinator"):
        n = kinds.get(kind)
        ok = n is not None and n.value.value != default and n.value.value in WC
        rep.check(ok, "C02-R2", f"planner locks one input of a separated {kind} to the non-default colour",
                  f"lock = {n.value.value!r}; unlocked sources default to {default!r}" if n is not None else "no lock for this entity type", dl.loc(n) if n is not None else dl.loc())
    inj = repo.func("LayoutPlanner._inject_operand_wire_color")
    cinj = canon(inj)
    stores = [n for n in walk_local(inj.node) if isinstance(n, ast.Assign) and isinstance(n.targets[0], ast.Subscript) and "_operand_wires" in norm(n.targets[0].slice)]
    n_res = 0
    for n in stores:
        gs = cguards(inj, n)
        resolved = any("self._resolve_source_entity(" in g and pol for g, pol in gs)
        if not resolved:
            continue
        n_res += 1
        v = cinj.text(n.value)
        single = isinstance(n.value, ast.Set) and len(n.value.elts) == 1 and "get_wire_color_for_edge(" in v
        rep.check(single, "C02-R2", "an operand with a resolved source reads exactly the one colour recorded for its edge",
                  v[:100] if single else f"{v[:100]}: the operand may read both colours, so a scalar on the other colour is swept into `each` / the wildcard", inj.loc(n))
    rep.floor("C02-R2", "wire-selection stores for resolved sources", n_res, 1)

    # ---------------- R3 ---------------------------------------------------------------
    rep.rule("C02-R3", "in lower_bundle_literal a constant member is recorded in the constant part and then skipped (never also lowered as a computed member); in the analyzer's bundle "
             "literal check every branch that contributes members tests them against, and records them in, the seen-map")
    bl = el.methods["lower_bundle_literal"]
    cfg = CFG(bl.node)
    loop = [s for s in cfg.stmts() if isinstance(s, ast.For) and norm(s.iter) == "expr.elements"]
    if not loop:
        raise AnalysisError("C02-R3: element loop not found in lower_bundle_literal")
    loop = loop[0]
    # the store of a constant member (a dict subscript store whose value is the extracted constant) and the lowering of the same element
    cbl = canon(bl)
    cs = [s for s in cfg.stmts() if isinstance(s, ast.Assign) and isinstance(s.targets[0], ast.Subscript) and "extract_constant_int" in cbl.text(s.value)]
    apps = [s for s in cfg.stmts() if isinstance(s, ast.Expr) and isinstance(s.value, ast.Call) and call_name(s.value) == "append" and "self.lower_expr(ELEM(expr.elements))" in cbl.text(s.value.args[0])]
    ok = bool(cs) and bool(apps)
    if ok:
        ok = not any(cfg.reaches_avoiding(cs[0], {id(a_)}, lambda n: n is loop, start_inclusive=False) for a_ in apps)
    rep.check(ok, "C02-R3", "a constant member is listed once (constant part only)", "`continue` after the constant store" if ok else "a constant member also reaches the computed list: it is emitted twice and summed on the wire", bl.loc(cs[0]) if cs else bl.loc())
    # every member whose signal is announced in the bundle's type set is also delivered: from the `all_signal_types.add(...)` of a scalar member no path
    # reaches the next element without storing the constant or appending the lowered element
    # the member-type set, by role: the local that starts as `set()` and receives the name of a scalar member (`<type>.signal_type.name`)
    adds = [s for s in cfg.stmts() if isinstance(s, ast.Expr) and isinstance(s.value, ast.Call) and call_name(s.value) == "add"
            and isinstance(s.value.func, ast.Attribute) and isinstance(s.value.func.value, ast.Name) and "set()" in cbl.alts(s.value.func.value)
            and s.value.args and ".signal_type.name" in cbl.text(s.value.args[0])]
    if not adds:
        raise AnalysisError("C02-R3: the member-type recording (`all_signal_types.add`) was not found in lower_bundle_literal")
    contrib = {id(x) for x in cs + apps}
    for a3 in adds:
        lost = cfg.reaches_avoiding(a3, {id(loop)}, lambda n: id(n) in contrib, start_inclusive=False)
        rep.check(not lost, "C02-R3", "a scalar member announced in the bundle's signal set is delivered on every path (constant part or computed part)",
                  f"{len(cs)} constant store(s), {len(apps)} computed append(s) cover every path to the next element" if not lost else
                  "a path from the type recording to the next element skips both the constant store and the lowering: `{(\"signal-A\", x + 1), y}` loses its first member", bl.loc(a3))
    from .shared import bundle_literal_sibling_branches
    bundle_literal_sibling_branches(repo, rep, "C02-R3")

    # ---------------- R4 ---------------------------------------------------------------
    rep.rule("C02-R4", "the materialisation flag describes scalar constants only (bundle constants are always placed): outside the analyzer it is consulted only where the value is known to be "
             "a scalar reference (`isinstance(ref, SignalRef)`) or together with `not op.signals`; otherwise the wires of an anonymous bundle literal are dropped and its members vanish")
    n4 = 0
    for f4 in repo.all_funcs():
        if ".layout." not in f4.module.name + "." or (f4.cls is not None and f4.cls.name == "SignalAnalyzer"):
            continue
        for a4 in walk_local(f4.node):
            if not (isinstance(a4, ast.Attribute) and a4.attr == "should_materialize" and isinstance(a4.ctx, ast.Load)):
                continue
            n4 += 1
            st4 = stmt_of(f4, a4)
            own = canon(f4).text(st4.test) if isinstance(st4, ast.If) else ""
            gs4 = cguards(f4, st4)
            scalar_only = any(pol and g.startswith("isinstance(") and g.endswith(", SignalRef)") for g, pol in gs4)
            with_signals = "not op.signals" in own or ".signals" in own
            rep.check(scalar_only or with_signals, "C02-R4", f"{f4.short}: should_materialize is consulted for a scalar reference only",
                      "under isinstance(..., SignalRef)" if scalar_only else ("combined with the bundle test (op.signals)" if with_signals else
                      "the value here can be a bundle: an anonymous bundle constant is flagged not-materialised although its combinator is always placed, so its wires are skipped"), f4.loc(a4))
    rep.floor("C02-R4", "reads of the materialisation flag outside the analyzer", n4, 2)

    # ---------------- R5 ---------------------------------------------------------------
    rep.rule("C02-R5", "`(bundle CMP x) : out` always goes through the bundle decider with the program's comparator, bundle and comparison value: no path of the filter lowering returns "
             "the input bundle itself (an `identity` shortcut ignores the output spec: `(b != 0) : 1` must yield ones, not the members' values)")
    bf = repo.func("ExpressionLowerer._lower_bundle_filter_output_spec")
    cbf = canon(bf)
    rets5 = [n for n in walk_local(bf.node) if isinstance(n, ast.Return) and n.value is not None]
    rep.floor("C02-R5", "returns of the bundle-filter lowering", len(rets5), 2)
    for r5 in rets5:
        for alt in cbf.alts(r5.value):
            if alt.startswith("BundleRef(set(), "):
                ok5 = any((not pol) and g.startswith("isinstance(") and g.endswith(", BundleRef)") for g, pol in cguards(bf, r5))
                rep.check(ok5, "C02-R5", "the empty error bundle is returned only when the left side is not a bundle", alt[:60], bf.loc(r5))
                continue
            ok5 = alt.startswith("self.ir_builder.bundle_decider(") and "op=expr.condition.op" in alt and "bundle=self.lower_expr(expr.condition.left)" in alt \
                and "compare_value=self.lower_expr(expr.condition.right)" in alt
            rep.check(ok5, "C02-R5", "a bundle filter is lowered to bundle_decider(op, bundle, compare value) of the program's condition",
                      alt[:110] if ok5 else f"returns `{alt[:90]}`: the filter (and its output spec) is skipped on this path", bf.loc(r5))

    # ---------------- R6 ---------------------------------------------------------------
    from .shared import borrow as _borrow2
    _borrow2(repo, rep, "C01", "C01-R10", "C02-R7", "`(b CMP x) : b` forwards each kept member's own value: the lowering spells this as a literal 1 with the copy-count flag on signal-each, "
             "and the placer keeps the flag for a literal that was already a literal in the IR", select=lambda o: "never for the IR's own literal" in o.construct, floor=2)
    _borrow2(repo, rep, "C13", "C13-R3", "C02-R6", "a member read from a bundle (`b[\"t\"]`) keeps the name t whatever signal the bundle's own producer was resolved to: the name resolver "
             "passes explicit names through on the strength of the name alone", floor=2)

    # ---------------- R8 ---------------------------------------------------------------
    rep.rule("C02-R8", "a compile-time output value of a bundle filter is the program's: wherever the lowering replaces a missing constant by a literal default (`if c is None: c = <literal>`), "
             "the constant was looked for with the lowerer's symbol resolver, so int variables, int parameters and loop iterators count as constants")
    n8 = 0
    for f8 in el.methods.values():
        for st in walk_local(f8.node):
            if not (isinstance(st, ast.If) and isinstance(st.test, ast.Compare) and isinstance(st.test.ops[0], ast.Is) and isinstance(st.test.left, ast.Name)
                    and isinstance(st.test.comparators[0], ast.Constant) and st.test.comparators[0].value is None):
                continue
            var8 = st.test.left.id
            if not any(isinstance(x, ast.Assign) and isinstance(x.targets[0], ast.Name) and x.targets[0].id == var8 and isinstance(x.value, ast.Constant) for x in st.body):
                continue
            defs8 = [x for x in walk_local(f8.node) if isinstance(x, ast.Assign) and isinstance(x.targets[0], ast.Name) and x.targets[0].id == var8
                     and isinstance(x.value, ast.Call) and call_name(x.value) == "extract_constant_int"]
            for d8 in defs8:
                n8 += 1
                ok8 = kwarg(d8.value, "symbol_resolver") is not None or len(d8.value.args) >= 3
                rep.check(ok8, "C02-R8", f"{f8.short}: constant with a literal default is extracted with the symbol resolver", "symbol_resolver passed" if ok8 else
                          "no symbol resolver: `int n = 7; Bundle f = (b > 3) : n;` outputs the default 1 per kept member instead of 7", f8.loc(d8))
    rep.floor("C02-R8", "defaulted constant extractions", n8, 1)

    # ---------------- R9 ---------------------------------------------------------------
    rep.rule("C02-R9", "unary operators act member-wise on a bundle: the analyzer gives `-b` the operand's (bundle) type, so lower_unary_op decides the bundle case before it "
             "builds scalar nodes — a scalar arithmetic node with a bundle operand names no signal at all")
    an9 = repo.func("SemanticAnalyzer.infer_expr_type")
    can9 = canon(an9)
    un_br = [n for n in walk_local(an9.node) if isinstance(n, ast.If) and "isinstance(expr, UnaryOp)" in norm(n.test)]
    passes_operand_type = bool(un_br) and any(isinstance(r, ast.Return) and r.value is not None and can9.text(r.value) == "self.get_expr_type(expr.expr)" for x in un_br[0].body for r in ast.walk(x))
    lu = el.methods["lower_unary_op"]
    g9 = CFG(lu.node)
    clu = canon(lu)
    scalar_nodes = [s for s in g9.stmts() if not isinstance(s, (ast.If, ast.For, ast.While, ast.Try, ast.With)) and any(
        call_name(c) in ("arithmetic", "decider") and isinstance(c.func, ast.Attribute) and "ir_builder" in norm(c.func.value) for c in calls_in(s))]
    bundle_ifs = [s for s in g9.stmts() if isinstance(s, ast.If) and clu.text(s.test) == "isinstance(self.lower_expr(expr.expr), BundleRef)"
                  and s.body and isinstance(s.body[-1], ast.Return)]
    exits_all = bool(bundle_ifs) and all(any(isinstance(x, ast.Return) for x in ast.walk(b)) for b in [bundle_ifs[0]])
    ok9 = (not passes_operand_type) or (exits_all and all(any(g9.dominates(bi, sn) for bi in bundle_ifs) for sn in scalar_nodes))
    rep.floor("C02-R9", "scalar node constructions in lower_unary_op", len(scalar_nodes), 2)
    rep.check(ok9, "C02-R9", "lower_unary_op handles a bundle operand before the scalar constructions", "analyzer rejects bundles here" if not passes_operand_type else
              ("`isinstance(<operand>, BundleRef)` branch returns first" if ok9 else
               "no bundle branch: `Bundle n = -b;` becomes a scalar `*` whose left operand is the text of the bundle reference; nothing is computed"), lu.loc())

    # ---------------- R10 --------------------------------------------------------------
    rep.rule("C02-R10", "a bundle built from bundles keeps every member: when the edges out of a wire merge are expanded to its sources, a source that is itself a wire merge "
             "(`{ {b, k}, z }`) is expanded in turn — an edge whose source is a merge id names no entity and is dropped, and the inner members never reach the consumer")
    xm = repo.func("ConnectionPlanner._expand_merge_edges")
    cxm = canon(xm)
    mk = [c for c in calls_in(xm.node, "CircuitEdge")]
    if not mk:
        raise AnalysisError("C02-R10: edge construction not found in _expand_merge_edges")
    for i10, c10 in enumerate(mk):
        gs10 = cguards(xm, stmt_of(xm, c10))
        screened = any((not pol) and "wire_merge_junctions.get(" in g and "source_id" in g for g, pol in gs10) or any(
            (not pol) and " in wire_merge_junctions" in g and "source_id" in g for g, pol in gs10)
        rep.check(screened, "C02-R10", f"_expand_merge_edges: expanded edge #{i10 + 1} never starts at an inner merge",
                  "inputs that are merges themselves are expanded first" if screened else
                  "an input that is itself a wire merge becomes the edge's source: `Bundle m = { {b, k}, z };` wires only z to the consumer", xm.loc(c10))

    # ---------------- R11 --------------------------------------------------------------
    rep.rule("C02-R11", "`bundle[\"t\"]` used as an operand is read on the wire its bundle arrives on: the operand's edge is recorded under the bundle's name, not under t, so the "
             "planner's colour lookup answers with a fixed default only after it has looked at all recorded edges between the same two entities (and found none, or both colours)")
    gw = repo.func("ConnectionPlanner.get_wire_color_for_edge")
    ggw = CFG(gw.node)
    cgw = canon(gw)
    WCOL = {"red", "green"}
    fixed = []
    for st in ggw.stmts():
        if isinstance(st, ast.Return) and st.value is not None:
            v = st.value
            if isinstance(v, ast.Constant) and v.value in WCOL:
                fixed.append(st)
            elif isinstance(v, ast.Call) and call_name(v) == "get" and len(v.args) == 2 and isinstance(v.args[1], ast.Constant) and v.args[1].value in WCOL:
                fixed.append(st)
    def _scans(st):
        return any(isinstance(x, (ast.SetComp, ast.ListComp, ast.GeneratorExp, ast.DictComp, ast.For)) and "_edge_wire_colors" in norm(x) and "source_entity_id" in norm(x) and "sink_entity_id" in norm(x)
                   for x in ast.walk(st))
    scans = [s_ for s_ in ggw.stmts() if not isinstance(s_, ast.Return) and _scans(s_)]
    if not fixed:
        rep.ok("C02-R11", "get_wire_color_for_edge has no fixed default", "no constant colour is returned", gw.loc())
    for st in fixed:
        direct_default = isinstance(st.value, ast.Call)
        # ... and what the scan found is used: some return between the scan and the default answers with a colour taken from the scanned edges
        used = [r for r in ggw.stmts() if isinstance(r, ast.Return) and r.value is not None and not isinstance(r.value, ast.Constant)
                and "_edge_wire_colors.items()" in cgw.text(r.value) and any(ggw.dominates(sc, r) for sc in scans)]
        ok11 = (not direct_default) and any(ggw.dominates(sc, st) for sc in scans) and bool(used)
        rep.check(ok11, "C02-R11", "get_wire_color_for_edge: the fixed default is used only after the edges between the two entities were consulted",
                  "a scan of the recorded edges dominates the default" if ok11 else
                  f"`{norm(st)[:70]}` answers `red` for any name that is not an edge name: `b * c[\"coal\"]` reads coal on red while c arrives on green, the product is 0", gw.loc(st))

    # ---------------- R12 --------------------------------------------------------------
    _borrow2(repo, rep, "C10", "C10-R15", "C02-R12", "`(b > 0) : b` and `(b > 0) : 1` stay two filters: the common-subexpression key of a decider distinguishes copying the members' values "
             "from outputting a constant", floor=2)

    # ---------------- R13 --------------------------------------------------------------
    _borrow2(repo, rep, "C01", "C01-R4", "C02-R13", "a filter or gate whose scalar stands on the left (`(3 < b) : b`, `(3 == k) : b`) reads that scalar on its own wire: in the mirrored "
             "form the operand that moves to the first slot takes its wire selection with it", select=lambda o: "mirrored" in o.construct or "_operand_wires" in o.construct, floor=3)


def _ancestors16(root: ast.AST, node: ast.AST) -> list[ast.AST]:
    pm = parents_map(root)
    out = []
    cur = node
    while cur in pm:
        cur = pm[cur]
        out.append(cur)
    return out
