"""C07 The printed blueprint string carries the whole circuit — structural clauses.

R1 sibling pipelines: compile_dsl_source and compile_dsl_file are the same stage sequence; the two mains route the result the same way
R2 result pass-through: the returned text is exactly to_string()/json.dumps(to_dict()) of the emitted blueprint and reaches stdout/-o unchanged
R3 emission totality: all placements and all wires are emitted; a failed entity is an error; each combinator type has a configurator
R4 no dropped configuration: every configuration key a producer writes for a combinator kind is read by that kind's configurator (bag agreement)
"""

from __future__ import annotations

import ast

from ..bags import match, placement_writers, property_readers, readers_in, row_writers
from ..cfg import CFG
from ..core import AnalysisError, Repo, Report, call_name, calls_in, kwarg, norm, walk_local
from ..dataflow import DefUse
from .util import canon, cguards, ckey as ckey8, stmt_of as stmt_of8
import re
from ..pipeline import STAGE_CTORS, compile_funcs, mains, top_statements

# keys written on combinator placements that are deliberately not emitted (consumed by layout, or documentation only)
BOOKKEEPING = {
    "is_input": "edge-layout hint for the solver (inputs north)",
    "is_output": "edge-layout hint for the solver (outputs south)",
    "signal_type": "category of the constant's signal, informational",
    "alignment": "layout hint",
    "needs_wire_separation": "consumed by LayoutPlanner._determine_locked_wire_colors",
    "left_operand_signal_id": "consumed by the wire-colour injection",
    "right_operand_signal_id": "consumed by the wire-colour injection",
    "output_value_signal_id": "consumed by the wire-colour injection",
    "has_self_feedback": "consumed by ConnectionPlanner._add_self_feedback_connections",
    "feedback_signal": "consumed by ConnectionPlanner._add_self_feedback_connections",
    "debug_info": "turned into the description",
    "footprint": "layout",
    "user_specified_position": "layout",
    "fixed_position": "layout",
    "is_power_pole": "layout",
    "pole_type": "layout",
    "property_writes": "applied by _apply_property_writes",
}


def _stage_trace(f) -> list[str]:
    """Normalised sequence of pipeline events in a compile function (input-reading prologue dropped)."""
    ev = []
    cf_ = canon(f)
    def norm_c(e):  # canonical text, with the per-entry input name abstracted
        return cf_.text(e)
    for st in top_statements(f):
        txt = norm(st)
        for c in [n for n in ast.walk(st) if isinstance(n, ast.Call)]:
            nm = call_name(c)
            if nm in STAGE_CTORS or nm in ("ConstantPropagationOptimizer", "CSEOptimizer", "ProgramDiagnostics"):
                kws = sorted(f"{k.arg}={norm_c(k.value)}" for k in c.keywords if k.arg)
                args = [norm_c(a) for a in c.args]
                ev.append(f"new {nm}({', '.join(args + kws)})")
            elif nm in ("parse", "visit", "lower_program", "plan_layout", "emit_from_plan", "optimize", "to_dict", "to_string", "dumps"):
                recv = norm_c(c.func.value) if isinstance(c.func, ast.Attribute) else ""
                argt = [norm_c(a) for a in c.args]
                if nm in ("visit", "lower_program", "plan_layout", "emit_from_plan", "optimize", "dumps", "to_dict", "to_string"):
                    # arguments are results of earlier stages: name the producing stage call only
                    def _head(a):
                        cn = cf_.node(a)
                        return (call_name(cn) + "(...)") if isinstance(cn, ast.Call) else " ".join(ast.unparse(cn).split())
                    argt = [_head(a) for a in c.args]
                if nm == "parse":
                    # the two functions obtain the text differently (parameter / read_text); what must agree is the transformation applied to it
                    _m = re.search(r"\.(strip|rstrip|lstrip)\(\)$", argt[0]) if argt else None
                    argt = argt[:1] and [f"<source>.{_m.group(1)}()" if _m else "<source>"] + ["<name>"]
                kws = sorted(f"{k.arg}={'<label>' if k.arg == 'blueprint_label' else norm_c(k.value)}" for k in c.keywords if k.arg)
                ev.append(f"{recv.split('(')[0]}.{nm}({', '.join(argt + kws)})")
        if isinstance(st, ast.If) and "has_errors()" in txt:
            ev.append("gate " + norm_c(st.test).split("(")[0] + "..." + norm_c(st.test).rsplit(".", 1)[-1] + " -> " + norm(st.body[-1]).replace("'", '"')[:40])
        if isinstance(st, ast.If) and norm(st.test) in ("optimize", "use_json"):
            ev.append("if " + norm(st.test))
        if isinstance(st, ast.Return):
            ev.append("return " + norm_c(st.value)[:40] if st.value is not None else "return")
    return ev


def run(repo: Repo, rep: Report, tier: str) -> None:
    cfs = compile_funcs(repo)
    # ---------------- R1 ---------------------------------------------------------------
    rep.rule("C07-R1", "the two compile functions have the same normalised stage trace (constructors with arguments, stage calls, has_errors gates, optimizer block, "
             "output split); the two mains pass the same options and route `result` identically")
    traces = {f.qual: _stage_trace(f) for f in cfs}
    a, b = list(traces.items())[:2]
    ta = [e for e in a[1] if not e.startswith("return (False, f")]
    tb = [e for e in b[1] if not e.startswith("return (False, f")]
    rep.floor("C07-R1", "stage events per pipeline", min(len(ta), len(tb)), 15)
    if ta == tb:
        rep.ok("C07-R1", "compile_dsl_source and compile_dsl_file run the same stage sequence", f"{len(ta)} events agree", cfs[0].loc())
    else:
        diff = [(x, y) for x, y in zip(ta, tb) if x != y][:3] or [("<length>", f"{len(ta)} vs {len(tb)}")]
        rep.bad("C07-R1", "compile_dsl_source and compile_dsl_file run the same stage sequence", f"first difference: {diff[0][0]!r} vs {diff[0][1]!r}", cfs[0].loc())
    ms = mains(repo)
    kw_sets = []
    for mf, cf in ms:
        c = calls_in(mf.node, cf.name)[0]
        kw_sets.append({k.arg: norm(k.value) for k in c.keywords if k.arg})
    common = set(kw_sets[0]) & set(kw_sets[1]) - {"source_name"}
    same = all(kw_sets[0][k] == kw_sets[1][k] for k in common)
    need = {"optimize", "power_pole_type", "use_json", "program_name", "max_layout_retries", "log_level"}
    rep.check(same and need <= common, "C07-R1", "both mains pass the same options to their compile function", f"common keywords {sorted(common)}", ms[0][0].loc())
    for mf, cf in ms:
        c = calls_in(mf.node, cf.name)[0]
        kws = {k.arg: norm(k.value) for k in c.keywords if k.arg}
        rep.check(kws.get("use_json") == "json" and kws.get("program_name") == "name", "C07-R1", f"{mf.qual}: --json and --name reach the compiler", str({k: kws.get(k) for k in ("use_json", "program_name")}), mf.loc(c))

    # ---------------- R2 ---------------------------------------------------------------
    rep.rule("C07-R2", "the success result is json.dumps(blueprint.to_dict()) under use_json and blueprint.to_string() otherwise, of the object returned by emit_from_plan; "
             "in both mains it reaches click.echo / write_text unchanged and nothing else is echoed to stdout on the success path unless verbose")
    for f in cfs:
        cf_ = canon(f)
        rets = [n for n in walk_local(f.node) if isinstance(n, ast.Return) and isinstance(n.value, ast.Tuple) and norm(n.value.elts[0]) == "True"]
        alts = cf_.alts(rets[0].value.elts[1]) if len(rets) == 1 else []
        def _exported(t: str) -> str | None:
            if t.startswith("json.dumps(") and t.endswith(".to_dict())"):
                inner = t[len("json.dumps("):-len(".to_dict())")]
                return "json" if inner.startswith("BlueprintEmitter(") and ".emit_from_plan(" in inner and inner.endswith(")") else None
            if t.endswith(".to_string()"):
                inner = t[:-len(".to_string()")]
                return "string" if inner.startswith("BlueprintEmitter(") and ".emit_from_plan(" in inner and inner.endswith(")") else None
            return None
        kinds = sorted(str(_exported(t)) for t in alts)
        ok_res = kinds == ["json", "string"]
        ifs = [n for n in walk_local(f.node) if isinstance(n, ast.If) and norm(n.test) == "use_json"]
        ok_split = bool(ifs) and bool(ifs[0].orelse) and "to_dict" in norm(ifs[0].body[-1]) and "to_string" in norm(ifs[0].orelse[-1])
        rep.check(ok_res and ok_split, "C07-R2", f"{f.short} returns the exported blueprint unchanged",
                  f"success result is one of {kinds} of emit_from_plan's blueprint; json under use_json: {ok_split}", f.loc())
    from ..core import parents_map
    from ..sites import guard_chain
    for mf, cf in ms:
        cfg = CFG(mf.node)
        cm = canon(mf)
        def _is_result(e: ast.AST, ix: int) -> bool:
            t = cm.text(e)
            return t.startswith(cf.name + "(") and t.endswith(f")[{ix}]") and t.count(cf.name + "(") == 1
        writers = [x for s in cfg.stmts() if not isinstance(s, (ast.If, ast.Try, ast.For, ast.With)) for x in ast.walk(s)
                   if isinstance(x, ast.Call) and call_name(x) in ("echo", "write_text", "print") and x.args and cf.name + "(" in cm.text(x.args[0]) and kwarg(x, "err") is None]
        plain = all(_is_result(w.args[0], 1) for w in writers)
        rep.check(len(writers) == 2 and plain, "C07-R2", f"{mf.qual}: result reaches stdout / -o without transformation", "; ".join(norm(w)[:50] for w in writers), mf.loc())
        # other stdout echoes after the success test must be verbose-guarded or go to stderr
        pm = parents_map(mf.node)
        fails = [s for s in cfg.stmts() if isinstance(s, ast.If) and isinstance(s.test, ast.UnaryOp) and isinstance(s.test.op, ast.Not) and _is_result(s.test.operand, 0)]
        for c in calls_in(mf.node, "echo"):
            if c in writers or kwarg(c, "err") is not None:
                continue
            st = c
            while not isinstance(st, ast.stmt):
                st = pm[st]
            gs = [norm(t) for t, pol in guard_chain(mf, st, pm) if pol]
            after = bool(fails) and cfg.dominates(fails[0], st)
            quiet = any("verbose" in g or "log_level" in g for g in gs) or not after or any(g.startswith("not ") or "and input_string" in g for g in gs)
            rep.check(quiet or any("log_level" in g for g in gs), "C07-R2", f"{mf.qual}: extra stdout text `{norm(c)[:40]}` only in verbose mode", "; ".join(gs) or "unguarded", mf.loc(c))

    # ---------------- R3 ---------------------------------------------------------------
    rep.rule("C07-R3", "emit_from_plan iterates all entity_placements and hands all wire_connections to the materialiser; an entity that cannot be created is an error, not a skip; "
             "each of the three combinator types is dispatched to its configurator; the blueprint is stamped version (2, 0)")
    em = repo.func("BlueprintEmitter.emit_from_plan")
    loops = [n for n in walk_local(em.node) if isinstance(n, ast.For)]
    ok = bool(loops) and norm(loops[0].iter) in ("sorted(layout_plan.entity_placements.keys())", "sorted(layout_plan.entity_placements)", "layout_plan.entity_placements.values()", "layout_plan.entity_placements")
    rep.check(ok, "C07-R3", "every placement is emitted", f"for ... in {norm(loops[0].iter)}" if loops else "no loop", em.loc())
    cem = canon(em)
    skips = [n for n in walk_local(em.node) if isinstance(n, ast.If) and cem.text(n.test).endswith(" is None") and ".create_entity(" in cem.text(n.test)]
    ok = bool(skips) and any(isinstance(x, ast.Call) and isinstance(x.func, ast.Attribute) and x.func.attr == "error" for s in skips[0].body for x in ast.walk(s))
    rep.check(ok, "C07-R3", "a placement that yields no entity is reported as an error", "diagnostics.error under `entity is None`" if ok else "silently skipped", em.loc())
    ok = any(call_name(c) == "_materialize_connections" for c in calls_in(em.node)) and any(call_name(c) == "append" and "blueprint.entities" in norm(c.func) for c in calls_in(em.node))
    rep.check(ok, "C07-R3", "entities are appended and wires materialised", "blueprint.entities.append + _materialize_connections", em.loc())
    mc = repo.func("BlueprintEmitter._materialize_connections")
    l2 = [n for n in walk_local(mc.node) if isinstance(n, ast.For)]
    rep.check(bool(l2) and norm(l2[0].iter) == "layout_plan.wire_connections", "C07-R3", "every planned wire is considered", norm(l2[0].iter) if l2 else "", mc.loc())
    from ..core import parents_map as _pm
    from ..sites import guard_chain as _gc
    pmm = _pm(mc.node)
    n_skip = 0
    for n in walk_local(mc.node):
        if isinstance(n, ast.Continue):
            n_skip += 1
            gs = cguards(mc, n)
            ok = any(g == "entity_map.get(ELEM(layout_plan.wire_connections).source_entity_id) is None or entity_map.get(ELEM(layout_plan.wire_connections).sink_entity_id) is None" and pol for g, pol in gs) and len([g for g in gs if g[1]]) == 1
            rep.check(ok, "C07-R3", f"a planned wire is skipped only when an endpoint entity is missing (`continue` #{n_skip})",
                      "; ".join(g for g, p in gs if p) if ok else f"wire dropped under {[g for g, p in gs if p]}: part of the planned circuit is not in the blueprint", mc.loc(n))
    rep.floor("C07-R3", "skip sites in the wire materialiser", n_skip, 1)
    # the plan's own wire list: a wire handed to the plan is recorded; it may be dropped as a duplicate only when both ends, both connector sides and the colour agree
    awc = repo.func("LayoutPlan.add_wire_connection")
    gaw = CFG(awc.node)
    apps3 = [s for s in gaw.stmts() if isinstance(s, ast.Expr) and isinstance(s.value, ast.Call) and call_name(s.value) == "append" and norm(s.value.func.value) == "self.wire_connections"]
    if not apps3:
        raise AnalysisError("C07-R3: LayoutPlan.add_wire_connection does not append to self.wire_connections")
    from ..cfg import ENTRY as _EN3, EXIT as _EX3
    leak3 = gaw.reaches_avoiding(_EN3, {id(_EX3)}, lambda n: any(n is a_ for a_ in apps3), start_inclusive=False)
    if not leak3:
        rep.ok("C07-R3", "LayoutPlan.add_wire_connection records every wire it is given", "append on every path", awc.loc())
    else:
        IDENT3 = {"source_entity_id", "sink_entity_id", "wire_color", "source_side", "sink_side"}
        exits3 = [s for s in gaw.stmts() if isinstance(s, (ast.Return, ast.Continue))]
        cmp_fields = {x.attr for s in gaw.stmts() if isinstance(s, ast.If) for x in ast.walk(s.test) if isinstance(x, ast.Attribute)}
        miss3 = sorted(IDENT3 - cmp_fields)
        rep.check(not miss3, "C07-R3", "LayoutPlan.add_wire_connection records every wire it is given", "a wire is skipped only as an exact duplicate (ends, sides, colour)" if not miss3 else
                  f"a wire can be dropped although it differs from the planned ones in {miss3}: output->input and input->input wires between the same two combinators are different wires", awc.loc(exits3[0]) if exits3 else awc.loc())
    ver = [n for n in walk_local(em.node) if isinstance(n, ast.Assign) and norm(n.targets[0]) == "self.blueprint.version"]
    rep.check(bool(ver) and norm(ver[0].value) == "(2, 0)", "C07-R3", "blueprint version is (2, 0)", norm(ver[0]) if ver else "not set", em.loc())
    ce = repo.func("PlanEntityEmitter.create_entity")
    disp = {}
    for n in walk_local(ce.node):
        if isinstance(n, ast.If) and "placement.entity_type ==" in norm(n.test):
            lit = [c.value for c in ast.walk(n.test) if isinstance(c, ast.Constant) and isinstance(c.value, str)]
            calls = [call_name(c) for s in n.body for c in ast.walk(s) if isinstance(c, ast.Call) and call_name(c).startswith("_configure_")]
            if lit and calls:
                disp[lit[0]] = calls[0]
    want = {"decider-combinator": "_configure_decider", "arithmetic-combinator": "_configure_arithmetic", "constant-combinator": "_configure_constant"}
    rep.check(disp == want, "C07-R3", "each combinator type is configured by its own configurator", str(disp), ce.loc())

    # ---------------- R4 ---------------------------------------------------------------
    rep.rule("C07-R4", "for each combinator kind every key written by a producer of that kind is read by the kind's configurator (or is a listed bookkeeping key with a reader "
             "elsewhere); every key the configurator reads has a writer; the same for the rows of multi-condition deciders")
    writers = placement_writers(repo)
    readers = property_readers(repo)
    emit_cls = repo.cls("PlanEntityEmitter")
    conf = {"decider-combinator": ["_configure_decider", "_configure_decider_multi_condition"], "arithmetic-combinator": ["_configure_arithmetic"], "constant-combinator": ["_configure_constant"]}
    n_keys = 0
    all_conf = [x for v in conf.values() for x in v]
    all_rkeys = {r.key for r in readers if r.f.cls and r.f.cls.name == "PlanEntityEmitter" and r.f.name in all_conf}
    for kind, fns in conf.items():
        rkeys = {r.key for r in readers if r.f.cls and r.f.cls.name == "PlanEntityEmitter" and r.f.name in fns}
        wkeys = {}
        for w in writers:
            if w.kind == kind:
                wkeys.setdefault(w.key, w)
        # dynamic stores (no kind literal) apply to combinators too
        for w in writers:
            if w.kind is None and w.f.cls and w.f.cls.name in ("LayoutPlanner", "MemoryBuilder") and w.key not in wkeys and not w.key.startswith("debug_info"):
                if kind != "constant-combinator":
                    wkeys.setdefault(w.key, w)
        for k, w in sorted(wkeys.items()):
            n_keys += 1
            read = any(match(k, rk) for rk in (rkeys if w.kind is not None else all_rkeys))
            if read:
                rep.ok("C07-R4", f"{kind}: key '{k}' written by {w.f.short} is emitted", "read by the configurator", w.loc)
            elif k in BOOKKEEPING and (any(match(k, r.key) for r in readers) or k in ("is_input", "is_output", "signal_type", "alignment")):
                rep.ok("C07-R4", f"{kind}: key '{k}' written by {w.f.short} is emitted", "bookkeeping: " + BOOKKEEPING[k], w.loc, nontrivial=False)
            else:
                rep.bad("C07-R4", f"{kind}: key '{k}' written by {w.f.short} is emitted", f"no reader in {fns}: this part of the configuration is silently dropped from the blueprint", w.loc)
        for rk in sorted(rkeys):
            has_w = any(match(k, rk) for k in wkeys) or rk in ("multi_conditions", "entity_obj")
            rep.check(has_w, "C07-R4", f"{kind}: key '{rk}' read by the configurator has a writer", "written" if has_w else "no producer writes this key (one-sided rename?)", emit_cls.loc())
    rep.floor("C07-R4", "configuration keys on combinator placements", n_keys, 20)
    # operand-side agreement inside the configurators
    from ..sides import side_flows, slot_side
    n_flows = 0
    for fn in ("_configure_decider", "_configure_arithmetic"):
        f = emit_cls.methods[fn]
        from ..sides import mirrored_stores
        mirrored7, _mp7 = mirrored_stores(repo, f)
        for key, side, slot, node in side_flows(f):
            ss = slot_side(slot)
            if ss is None:
                continue
            n_flows += 1
            if id(node) in mirrored7:
                okm = (side == "right" and ss == "left") or (side == "left" and ss == "either")
                rep.check(okm, "C07-R4", f"{fn}: value of '{key}' feeds {slot} in the mirrored (constant-first) comparison", "sides swapped together with the comparator" if okm else "operand sides inconsistent in the mirrored branch", f.loc(node))
                continue
            rep.check(ss in (side, "either"), "C07-R4", f"{fn}: value of '{key}' feeds a {side}-hand slot ({slot})",
                      "sides agree" if ss in (side, "either") else f"'{key}' is written into '{slot}': the {('second' if side == 'left' else 'first')} operand is configured from the other operand's data", f.loc(node))
    rep.floor("C07-R4", "operand-side flows in the configurators", n_flows, 8)
    # condition rows
    mb = repo.cls("MemoryBuilder")
    ep = repo.cls("EntityPlacer")
    row_w = []
    for m in list(mb.methods.values()) + list(ep.methods.values()):
        row_w += row_writers(m)
    mcf = emit_cls.methods["_configure_decider_multi_condition"]
    row_r = {r.key for r in readers_in(mcf, None, lambda t: t == "ELEM(conditions_list)")}
    rep.floor("C07-R4", "row keys written", len({w.key for w in row_w}), 4)
    # bookkeeping keys of a row (a reference kept for the planner, not configuration): read by a layout-stage function off the rows of `conditions`
    layout_row_r: set[str] = set()
    for f_l in repo.all_funcs():
        if ".layout." not in f_l.module.name + ".":
            continue
        c_l = canon(f_l)
        for c in calls_in(f_l.node, "get"):
            if isinstance(c.func, ast.Attribute) and c.args and "'conditions'" in c_l.text(c.func.value) and c_l.text(c.func.value).startswith("ELEM("):
                a0 = c.args[0]
                if isinstance(a0, ast.Constant) and isinstance(a0.value, str):
                    layout_row_r.add(a0.value)
                elif isinstance(a0, ast.JoinedStr):
                    # f"{side}_signal_id" with side drawn from a literal tuple
                    for alt in c_l.alts(a0):
                        m_ = re.fullmatch(r"f'\{ELEM\(\((.+)\)\)\}(\w+)'", alt)
                        if m_:
                            for lit in re.findall(r"'(\w+)'", m_.group(1)):
                                layout_row_r.add(lit + m_.group(2))
    for k in sorted({w.key for w in row_w}):
        w = [x for x in row_w if x.key == k][0]
        ok_k = k in row_r or k in layout_row_r
        rep.check(ok_k, "C07-R4", f"condition-row key '{k}' written by {w.f.short} is emitted", "read by _configure_decider_multi_condition" if k in row_r else
                  ("bookkeeping: read by the planner's colour injection" if ok_k else "row key has no reader"), w.loc)

    # ---------------- R5 ---------------------------------------------------------------
    rep.rule("C07-R5", "the signal-name table is one object shared by identity: the planner's analyzer writes the names it allocates into it and the emitter reads them back for entity "
             "conditions; so both pipelines hand the same expression to LayoutPlanner and BlueprintEmitter, every class on the writer chain stores the parameter itself "
             "(no copy, no `or {}` default, which silently detaches an empty table), and the emitter is built after the layout was planned")
    writers5 = []
    for c5 in repo.all_classes():
        if any(isinstance(n, ast.Subscript) and isinstance(n.ctx, ast.Store) and norm(n.value) == "self.signal_type_map" for m5 in c5.methods.values() for n in walk_local(m5.node)):
            writers5.append(c5)
    chain5 = list(writers5)
    for c5 in repo.all_classes():
        init5 = c5.methods.get("__init__")
        if init5 is None or c5 in chain5:
            continue
        if any(call_name(k) in {w.name for w in writers5} and any(norm(a) == "self.signal_type_map" for a in list(k.args) + [kw.value for kw in k.keywords]) for m5 in c5.methods.values() for k in calls_in(m5.node)):
            chain5.append(c5)
    rep.floor("C07-R5", "classes on the writer chain of the signal-name table", len(chain5), 2)
    for c5 in chain5:
        init5 = c5.methods.get("__init__")
        st5 = [n for n in walk_local(init5.node) if isinstance(n, ast.Assign) and norm(n.targets[0]) == "self.signal_type_map"] if init5 else []
        ok5 = len(st5) == 1 and isinstance(st5[0].value, ast.Name) and st5[0].value.id in init5.params
        rep.check(ok5, "C07-R5", f"{c5.name} keeps the caller's signal-name table (identity, no copy)", norm(st5[0].value) if st5 else "no store",
                  init5.loc(st5[0]) if st5 else c5.loc())
    for f5 in cfs:
        c5n = canon(f5)
        lp5 = calls_in(f5.node, "LayoutPlanner")
        em5 = calls_in(f5.node, "BlueprintEmitter")
        a5 = c5n.text(lp5[0].args[0]) if lp5 and lp5[0].args else (c5n.text(kwarg(lp5[0], "signal_type_map")) if lp5 and kwarg(lp5[0], "signal_type_map") is not None else "")
        b5 = c5n.text(em5[0].args[1]) if em5 and len(em5[0].args) > 1 else (c5n.text(kwarg(em5[0], "signal_type_map")) if em5 and kwarg(em5[0], "signal_type_map") is not None else "")
        cfg5 = CFG(f5.node)
        st_of = {id(x): st for st in cfg5.stmts() for x in ast.walk(st)} if (lp5 and em5) else {}
        plan5 = [st for st in cfg5.stmts() if not isinstance(st, (ast.If, ast.For, ast.Try, ast.With, ast.While)) and any(call_name(k) == "plan_layout" for k in calls_in(st))]
        est5 = [st for st in cfg5.stmts() if not isinstance(st, (ast.If, ast.For, ast.Try, ast.With, ast.While)) and any(call_name(k) == "BlueprintEmitter" for k in calls_in(st))]
        after5 = bool(plan5) and bool(est5) and cfg5.dominates(plan5[0], est5[0])
        rep.check(bool(a5) and a5 == b5 and after5, "C07-R5", f"{f5.short}: planner and emitter receive the same signal-name table, emitter built after planning",
                  f"table {a5[-50:]!r}; emitter after plan_layout: {after5}" if a5 == b5 else f"planner gets {a5[-50:]!r}, emitter gets {b5[-50:]!r}", f5.loc())
    from .shared import borrow as _borrow7
    _borrow7(repo, rep, "C09", "C09-R5", "C07-R6", "static properties of placed entities reach the blueprint: only the frozen bookkeeping keys are skipped, whatever their value")

    # ---------------- R7 ---------------------------------------------------------------
    rep.rule("C07-R7", "the materialiser's loops are exhaustive: a loop of the emission package whose body configures something (stores into an attribute/subscript, or calls for effect) is "
             "never left by `return` or `break` except straight after reporting an error; an early exit drops the configuration of every later element "
             "(a second property write of the same entity, the remaining wires)")
    n7 = 0
    for f7 in repo.all_funcs():
        if ".emission." not in f7.module.name + ".":
            continue
        pm7 = parents_map(f7.node)
        for lp in walk_local(f7.node):
            if not isinstance(lp, (ast.For, ast.While)):
                continue
            effect = any((isinstance(x, (ast.Assign, ast.AugAssign)) and any(isinstance(t, (ast.Attribute, ast.Subscript)) for t in (x.targets if isinstance(x, ast.Assign) else [x.target])))
                         or (isinstance(x, ast.Expr) and isinstance(x.value, ast.Call)) for b in lp.body for x in ast.walk(b))
            if not effect:
                continue
            n7 += 1
            exits = []
            for b in lp.body:
                for x in ast.walk(b):
                    if isinstance(x, ast.Return):
                        exits.append(x)
                    elif isinstance(x, ast.Break):
                        # a break belongs to its innermost loop
                        q = pm7.get(x)
                        while q is not None and not isinstance(q, (ast.For, ast.While)):
                            q = pm7.get(q)
                        if q is lp:
                            exits.append(x)
            def _after_error(x):
                blk = pm7.get(x)
                for fld in ("body", "orelse", "finalbody"):
                    seq = getattr(blk, fld, None)
                    if isinstance(seq, list) and x in seq:
                        i = seq.index(x)
                        prev = seq[i - 1] if i else None
                        return prev is not None and isinstance(prev, ast.Expr) and isinstance(prev.value, ast.Call) and call_name(prev.value) in ("error", "_error")
                return False
            bad7 = [x for x in exits if not _after_error(x)]
            rep.check(not bad7, "C07-R7", f"{f7.short}: loop over `{canon(f7).text(lp.iter)[:60] if isinstance(lp, ast.For) else 'while'}` visits every element",
                      "no early exit" if not bad7 else f"`{type(bad7[0]).__name__.lower()}` at line {bad7[0].lineno} leaves the loop: later elements are never configured", f7.loc(bad7[0] if bad7 else lp))
    rep.floor("C07-R7", "configuring loops in the emission package", n7, 5)

    # ---------------- R8 ---------------------------------------------------------------
    rep.rule("C07-R8", "standard output carries the result and nothing else (at the default log level): in the front ends every write to stdout is the result itself or sits under a "
             "verbosity test; log records never go to stdout (no `stream=sys.stdout` in logging.basicConfig, no StreamHandler on stdout) — a warning printed ahead of the blueprint "
             "makes the printed text undecodable")
    n8 = 0
    for mf, cf in mains(repo):
        cm8 = canon(mf)
        for c in calls_in(mf.node):
            nm = call_name(c)
            if nm not in ("echo", "print", "secho"):
                continue
            to_err = any(k.arg == "err" and isinstance(k.value, ast.Constant) and k.value.value is True for k in c.keywords) or any(
                k.arg == "file" and "stderr" in norm(k.value) for k in c.keywords)
            if to_err:
                continue
            n8 += 1
            arg = cm8.text(c.args[0]) if c.args else ""
            is_result = bool(re.search(rf"\b{cf.name}\(", arg)) and "[1]" in arg
            gs8 = cguards(mf, stmt_of8(mf, c))
            verbose = any(pol and ("log_level" in g) for g, pol in gs8)
            rep.check(is_result or verbose, "C07-R8", f"{mf.short}: stdout write `{nm}({ckey8(mf, c.args[0]) if c.args else ''})`",
                      "the result" if is_result else ("only in verbose mode" if verbose else
                      "written to stdout at the default log level next to the blueprint: the printed text no longer decodes"), mf.loc(c))
    rep.floor("C07-R8", "stdout writes in the front ends", n8, 4)
    n8b = 0
    for m8 in repo.modules.values():
        for c in [x for x in ast.walk(m8.tree) if isinstance(x, ast.Call)]:
            t8 = norm(c.func)
            if t8 in ("logging.basicConfig", "basicConfig"):
                n8b += 1
                st8 = [k for k in c.keywords if k.arg == "stream"]
                ok8 = not st8 or "stderr" in norm(st8[0].value)
                rep.check(ok8, "C07-R8", f"{m8.rel}: logging.basicConfig writes to stderr", "default stream (stderr)" if not st8 else norm(st8[0].value) if ok8 else
                          f"stream={norm(st8[0].value)}: compiler warnings (they go through the root logger) are printed on stdout ahead of the blueprint", f"{m8.rel}:{c.lineno}")
            elif t8.endswith("StreamHandler") and c.args and "stdout" in norm(c.args[0]):
                n8b += 1
                rep.bad("C07-R8", f"{m8.rel}: log handler on stdout", f"`{norm(c)[:70]}`", f"{m8.rel}:{c.lineno}")
    rep.floor("C07-R8", "logging configuration calls", n8b, 2)

    # ---------------- R9 / R10 ---------------------------------------------------------
    _borrow7(repo, rep, "C18", "C18-R7", "C07-R9", "every planned wire has both its ends in the blueprint: no placement is removed once connections are planned (the emitter skips a wire "
             "whose end is missing)", floor=1)
    rep.rule("C07-R10", "each condition row is configured from its own data: the keyword dict handed to DeciderCombinator.Condition(**kw) is created afresh inside the loop over the rows "
             "(a dict that lives across iterations carries `second_signal`, `constant` or network selections of an earlier row into a later one)")
    mcf10 = emit_cls.methods["_configure_decider_multi_condition"]
    n10 = 0
    for lp10 in [n for n in walk_local(mcf10.node) if isinstance(n, ast.For)]:
        for k10 in [c for c in ast.walk(lp10) if isinstance(c, ast.Call) and call_name(c) == "Condition" and any(kw.arg is None for kw in c.keywords)]:
            n10 += 1
            kwname = next(norm(kw.value) for kw in k10.keywords if kw.arg is None)
            fresh = [s for s in ast.walk(lp10) if isinstance(s, (ast.Assign, ast.AnnAssign)) and norm(s.targets[0] if isinstance(s, ast.Assign) else s.target) == kwname
                     and (isinstance(s.value, ast.Dict) or (isinstance(s.value, ast.Call) and call_name(s.value) == "dict"))]
            rep.check(bool(fresh), "C07-R10", f"{mcf10.short}: the keyword dict of a condition row is created per row", "dict display inside the loop body" if fresh else
                      f"`{kwname}` is created outside the loop and only overwritten key by key: a key set for row 1 and not for row 2 (second_signal, constant, *_networks) is still there for row 2", mcf10.loc(k10))
    rep.floor("C07-R10", "Condition(**kw) constructions in row loops", n10, 1)
