"""Helpers for writing rules that do not depend on the names of local variables."""

from __future__ import annotations

import ast

from ..core import Func, norm, parents_map, walk_local
from ..dataflow import Canon
from ..sites import guard_chain, normal_polarity

_CACHE: dict[str, Canon] = {}
_PM: dict[str, dict] = {}


def canon(f: Func) -> Canon:
    k = f.qual + "@" + str(id(f.node))
    if k not in _CACHE:
        _CACHE[k] = Canon(f)
    return _CACHE[k]


def pmap(f: Func) -> dict:
    k = f.qual + "@" + str(id(f.node))
    if k not in _PM:
        _PM[k] = parents_map(f.node)
    return _PM[k]


def stmt_of(f: Func, node: ast.AST) -> ast.AST:
    pm = pmap(f)
    cur = node
    while not isinstance(cur, ast.stmt) and cur in pm:
        cur = pm[cur]
    return cur


def cguards(f: Func, node: ast.AST) -> list[tuple[str, bool]]:
    """Guard chain of `node` with canonical (local-free) texts, in the canonical orientation of sites.normal_polarity
    (no leading `not`, no `is not` / `!=` / `not in`: those are written positively with the opposite polarity)."""
    c = canon(f)
    out = []
    for t, pol in guard_chain(f, stmt_of(f, node), pmap(f)):
        ct, cp = normal_polarity(c.node(t), pol)
        out.append((" ".join(ast.unparse(ct).split()), cp))
    return out


def cguards_any(f: Func, node: ast.AST) -> list[tuple[str, bool]]:
    """Every equivalent spelling of every guard (for `any(...)`-style questions written in whichever orientation reads best)."""
    from ..sites import equivalent_forms

    c = canon(f)
    out: list[tuple[str, bool]] = []
    for t, pol in guard_chain(f, stmt_of(f, node), pmap(f)):
        out += equivalent_forms(c.node(t), pol)
    return out


def attr_stores(f: Func, base: str | None = None) -> dict[str, list[str]]:
    """`<x>.attr = value` stores in f: attr -> canonical value texts (optionally only for receiver text `base` after canon)."""
    c = canon(f)
    out: dict[str, list[str]] = {}
    for n in walk_local(f.node):
        if isinstance(n, ast.Assign) and len(n.targets) == 1 and isinstance(n.targets[0], ast.Attribute):
            out.setdefault(n.targets[0].attr, []).append(c.text(n.value))
    return out


def dict_of(node: ast.Dict, c: Canon) -> dict[str, str]:
    return {k.value: c.text(v) for k, v in zip(node.keys, node.values) if isinstance(k, ast.Constant)}


def rtext(e: ast.AST | None, roles: dict[str, str]) -> str:
    """Source text with the local names in `roles` replaced by their role label."""
    import copy

    if e is None:
        return ""
    e2 = copy.deepcopy(e)
    for x in ast.walk(e2):
        if isinstance(x, ast.Name) and x.id in roles:
            x.id = roles[x.id]
    return " ".join(ast.unparse(e2).split())


def ckey(f: Func, node: ast.AST, width: int = 64) -> str:
    """Short, local-free text of an expression or simple statement, for obligation keys (never source text: keys must not change
    under a rename of locals)."""
    c = canon(f)
    if isinstance(node, ast.Assign):
        t = " = ".join([c.text(x) for x in node.targets] + [c.text(node.value)])
    elif isinstance(node, ast.AugAssign):
        t = f"{c.text(node.target)} op= {c.text(node.value)}"
    elif isinstance(node, ast.Delete):
        t = "del " + ", ".join(c.text(x) for x in node.targets)
    elif isinstance(node, (ast.Expr, ast.Return)):
        t = c.text(node.value) if node.value is not None else ""
    elif isinstance(node, ast.stmt):
        t = type(node).__name__
    else:
        t = c.text(node)
    half = (width - 3) // 2
    return t if len(t) <= width else t[:half] + "..." + t[-half:]
