"""Rules shared by several properties (each property reports them under its own rule id)."""

from __future__ import annotations

import ast
import re

from ..core import AnalysisError, Repo, Report, call_name, norm, parents_map, walk_local
from ..dataflow import DefUse
from ..sites import guard_chain
from .util import ckey


def mst_colour_keys(repo: Repo, rep: Report, rule: str, include_reversed: bool = True) -> None:
    """Colour entries stored under keys that derive from the position-dependent spanning tree may only add, never replace."""
    mst = repo.func("ConnectionPlanner._apply_mst_to_source_fanout")
    dum = DefUse(mst)
    pmm = parents_map(mst.node)
    n_keys = 0
    for n in walk_local(mst.node):
        key = how = None
        if isinstance(n, ast.Assign) and isinstance(n.targets[0], ast.Subscript) and norm(n.targets[0].value) == "self._edge_wire_colors":
            key, how = n.targets[0].slice, "store"
        elif isinstance(n, ast.Call) and call_name(n) == "setdefault" and norm(n.func.value) == "self._edge_wire_colors":
            key, how = n.args[0], "setdefault"
        if key is None:
            continue
        positional = any(l.kind == "call" and "minimum_spanning_tree" in l.text for l in dum.leaves(key)) or any(
            "mst_edges" in norm(v) for x in ast.walk(key) if isinstance(x, ast.Name) for v in dum.value_exprs(x.id))
        # the logical edge being routed, (source_id, <its sink>, signal): the one key this function owns; every other key (the reversed pair kept "for
        # bidirectional lookups", the spanning tree's pairs) may name an edge of its own that another group routes
        own_edge = isinstance(key, ast.Tuple) and len(key.elts) == 3 and isinstance(key.elts[0], ast.Name) and key.elts[0].id in mst.params \
            and any(l.kind == "param" and "sink" in l.text for l in dum.leaves(key.elts[1])) and not positional
        if own_edge or (not positional and not include_reversed):
            continue
        n_keys += 1
        st = n
        while not isinstance(st, ast.stmt):
            st = pmm[st]
        guarded = how == "setdefault" or any(isinstance(t, ast.Compare) and len(t.ops) == 1 and norm(t.comparators[0]) == "self._edge_wire_colors" and norm(t.left) == norm(key)
                                            and ((isinstance(t.ops[0], ast.NotIn) and pol) or (isinstance(t.ops[0], ast.In) and not pol))
                                            for t, pol in guard_chain(mst, st, pmm))
        rep.check(guarded, rule, f"{mst.short}: colour under {'position-derived' if positional else 'foreign (reversed)'} key `{ckey(mst, key)}` never replaces an existing entry",
                  "guarded by `not in` / setdefault" if guarded else
                  ("which pairs the spanning tree joins depends on placement; " if positional else "the reversed pair of a fan-out edge is an edge of its own in a two-combinator loop; ") +
                  "an unguarded store under such a key can overwrite the colour recorded for a real producer->consumer edge of the same signal, so the consumer's operand reads the wrong network", mst.loc(n))
    rep.floor(rule, "colour stores under spanning-tree keys", n_keys, 2)


def identifier_resolvers(repo: Repo, rep: Report, rule: str) -> None:
    """Every lowering branch that resolves an IdentifierExpr by name through signal_refs / the symbol table must consult param_values first
    (as lower_identifier and _resolve_constant_symbol do): inside an inlined call a parameter shadows a same-named outer name."""
    n = 0
    for f in repo.all_funcs():
        if ".lowering." not in f.module.name + ".":
            continue
        for node in walk_local(f.node):
            if isinstance(node, ast.If) and "isinstance" in norm(node.test) and "IdentifierExpr" in norm(node.test):
                reads = []
                for s in node.body:
                    for x in ast.walk(s):
                        if isinstance(x, ast.Attribute) and x.attr in ("signal_refs", "param_values"):
                            reads.append((x.lineno, x.col_offset, x.attr))
                        if isinstance(x, ast.Call) and call_name(x) == "lookup":
                            reads.append((x.lineno, x.col_offset, "lookup"))
                if not any(k in ("signal_refs", "lookup") for _, _, k in reads):
                    continue
                n += 1
                reads.sort()
                first = reads[0][2]
                rep.check(first == "param_values", rule, f"{f.short}: an identifier is resolved through the parameter environment first",
                          "param_values consulted first" if first == "param_values" else
                          f"the branch `{norm(node.test)[:60]}` resolves the name via {first} without consulting param_values: inside an inlined function a parameter that shadows a global is resolved to the global's value",
                          f.loc(node))
    for name in ("ExpressionLowerer.lower_identifier", "ExpressionLowerer._resolve_constant_symbol"):
        f = repo.func(name)
        order = []
        for x in walk_local(f.node):
            if isinstance(x, ast.Compare) and isinstance(x.ops[0], ast.In) and isinstance(x.comparators[0], ast.Attribute) and x.comparators[0].attr in ("param_values", "signal_refs"):
                order.append((x.lineno, x.comparators[0].attr))
        order.sort()
        n += 1
        rep.check(bool(order) and order[0][1] == "param_values", rule, f"{f.short}: parameters are looked up before outer names", str([a for _, a in order]), f.loc())
    rep.floor(rule, "identifier resolvers", n, 2)


def reads_repointed_only_for_own_cell(repo: Repo, rep: Report, rule: str, absent_is: str | None = None) -> None:
    """In the arithmetic-feedback rewrite every re-pointing of a recorded read is guarded by `its memory id == this cell's id`."""
    opt = repo.func("MemoryBuilder._optimize_to_arithmetic_feedback")
    pm = parents_map(opt.node)
    n = 0
    for loop in [x for x in walk_local(opt.node) if isinstance(x, ast.For) and "_read_sources" in norm(x.iter)]:
        mem_var = norm(loop.target.elts[1]) if isinstance(loop.target, ast.Tuple) and len(loop.target.elts) == 2 else None
        for x in ast.walk(loop):
            touches = (isinstance(x, ast.Call) and call_name(x) == "set_source") or (isinstance(x, ast.Assign) and isinstance(x.targets[0], ast.Subscript) and "_sources" in norm(x.targets[0].value))
            if not touches:
                continue
            n += 1
            st = x
            while not isinstance(st, ast.stmt):
                st = pm[st]
            gs = [(norm(t), pol) for t, pol in guard_chain(opt, st, pm)]
            ok = any(pol and mem_var is not None and (g.startswith(f"{mem_var} == op.memory_id") or g.startswith(f"op.memory_id == {mem_var}")) for g, pol in gs)
            rep.check(ok, rule, f"{opt.short}: `{ckey(opt, x)}` only for reads of the cell being optimised",
                      "guarded by the memory id" if ok else "reads of *other* memory cells are re-pointed at this cell's arithmetic node: two independent cells interfere", opt.loc(x))
    if n == 0 and absent_is is not None:
        # no loop over the recorded reads at all: nothing of another cell is touched (fine for non-interference), but the reads of this cell keep
        # pointing at the removed gates (a violation for the feedback rewrite itself)
        (rep.bad if absent_is == "violation" else rep.ok)(rule, f"{opt.short}: reads recorded before the write are re-pointed, and only those of this cell",
                 "no loop over the recorded reads: a read lowered before the write stays attached to the removed gates" if absent_is == "violation" else "no re-pointing loop, nothing of another cell is touched", opt.loc())
        return
    rep.floor(rule, "read re-pointing sites", n, 1)


def bundle_literal_sibling_branches(repo: Repo, rep: Report, rule: str) -> None:
    """Both member-contributing branches of the analyzer's bundle-literal check test members against, and record them in, the seen-map.
    Locals are identified by role: the seen-map is the local initialised to an empty dict, the member set the local initialised to set()."""
    from .util import canon

    ib = repo.func("SemanticAnalyzer._infer_bundle_literal_type")
    c = canon(ib)
    du = c.du
    seen = {n for n, ds in du.defs.items() if any(isinstance(v, ast.Dict) and not v.keys for v, h, _ in ds if h == "assign")}
    members = {n for n, ds in du.defs.items() if any(isinstance(v, ast.Call) and call_name(v) == "set" and not v.args for v, h, _ in ds if h == "assign")}
    if not seen or not members:
        rep.unknown(rule, "bundle literal check: seen-map and member set", f"locals not recognised (dict locals {sorted(seen)}, set locals {sorted(members)})", ib.loc())
        return
    n_br = 0
    for n in walk_local(ib.node):
        if not isinstance(n, ast.If):
            continue
        t = c.text(n.test)
        if not (t.startswith("isinstance(self.get_expr_type(ELEM(expr.elements)),") and ("SignalValue" in t or "BundleValue" in t)):
            continue
        n_br += 1
        body = n.body
        kind = "SignalValue" if "SignalValue" in t else "BundleValue"
        def is_name(x, pool):
            return isinstance(x, ast.Name) and x.id in pool
        adds = [x for s_ in body for x in ast.walk(s_) if (isinstance(x, ast.Call) and call_name(x) in ("add", "update") and isinstance(x.func, ast.Attribute) and is_name(x.func.value, members))
                or (isinstance(x, ast.AugAssign) and is_name(x.target, members))]
        recs = [x for s_ in body for x in ast.walk(s_) if (isinstance(x, ast.Subscript) and isinstance(x.ctx, ast.Store) and is_name(x.value, seen))
                or (isinstance(x, ast.Call) and call_name(x) in ("update", "setdefault") and isinstance(x.func, ast.Attribute) and is_name(x.func.value, seen))]
        tests = [x for s_ in body for x in ast.walk(s_) if (isinstance(x, ast.Compare) and isinstance(x.ops[0], ast.In) and is_name(x.comparators[0], seen))
                 or (isinstance(x, ast.BinOp) and isinstance(x.op, ast.BitAnd) and any(is_name(y, seen) for y in ast.walk(x)))]
        errs = [x for s_ in body for x in ast.walk(s_) if isinstance(x, ast.Call) and isinstance(x.func, ast.Attribute) and x.func.attr == "error"]
        ok = bool(adds) and bool(recs) and bool(tests) and bool(errs)
        rep.check(ok, rule, f"bundle literal check, {kind} members: tested against and recorded in the seen-map",
                  f"adds:{len(adds)} records:{len(recs)} tests:{len(tests)} errors:{len(errs)}" + ("" if ok else ": members contributed by this branch escape duplicate detection, so a later duplicate is accepted and the values are summed"), ib.loc(n))
    rep.floor(rule, "member-contributing branches", n_br, 2)


_BORROWING = False


def borrow(repo: Repo, rep: Report, from_prop: str, from_rule: str, new_rule: str, text: str, select=lambda o: True, floor: int = 1) -> None:
    """Re-state obligations of a sibling property's rule under this property: the mechanism (one function, one table) underlies
    both properties, so a defect in it breaks both.  The sibling's rule set is run on the same source model; nothing is cached."""
    import importlib

    global _BORROWING
    if _BORROWING:
        return  # a rule set that is itself being borrowed from does not borrow further (no cycles, no second-hand obligations)
    rep.rule(new_rule, text + f" (the obligations of {from_rule}, which owns the mechanism)")
    sub = Report(from_prop, "borrow")
    _BORROWING = True
    stopped = None
    try:
        importlib.import_module(f"fv.rules.{from_prop.lower()}").run(repo, sub, "quick")
    except AnalysisError as e:
        # the owning rule set lost an anchor somewhere (possibly in a rule that is not the borrowed one): what it established up to that point still counts,
        # and this property's own rules go on; the borrowed obligations that were not reached are inconclusive, not a reason to stop everything
        stopped = str(e)
    finally:
        _BORROWING = False
    n = 0
    for o in sub.obs:
        if o.rule == from_rule and select(o):
            n += 1
            if o.status == "ok":
                rep.ok(new_rule, o.construct, o.detail, o.loc, o.nontrivial)
            elif o.status == "violated":
                rep.bad(new_rule, o.construct, o.detail, o.loc)
            else:
                rep.unknown(new_rule, o.construct, o.detail, o.loc)
    if stopped is not None and n < floor:
        rep.unknown(new_rule, f"obligations of {from_rule}", f"the rule set of {from_prop} stopped before they were established: {stopped[:160]}", "")
        return
    rep.floor(new_rule, f"obligations taken from {from_rule}", n, floor)


def slot_rewrites_are_self_referential(repo: Repo, rep: Report, rule: str, only_class: str | None = None) -> None:
    """In the optimizer's reference-mapping helpers (`op.F = update(op.F)` per class branch) the new value of a slot may read only that
    slot's own old value: building one slot from another (a copy/paste slip) silently overwrites an operand."""
    from .util import canon

    mod = repo.module("ir.optimizer")
    n = 0
    for f in mod.funcs.values():
        if "update" not in f.params and "replacements" not in f.params:
            continue
        c = canon(f)
        for st in walk_local(f.node):
            if not (isinstance(st, ast.Assign) and isinstance(st.targets[0], ast.Attribute) and isinstance(st.targets[0].value, ast.Name)):
                continue
            recv, fld = st.targets[0].value.id, st.targets[0].attr
            if recv not in f.params and not any(isinstance(x, ast.For) and any(isinstance(t, ast.Name) and t.id == recv for t in ast.walk(x.target)) for x in walk_local(f.node)):
                continue
            if only_class is not None:
                from .util import cguards
                if not any(pol and f"isinstance({f.params[0]}, {only_class})" in g for g, pol in cguards(f, st)):
                    continue
            n += 1
            cv = c.node(st.value)
            others = sorted({x.attr for x in ast.walk(cv) if isinstance(x, ast.Attribute) and isinstance(x.value, ast.Name) and x.value.id == recv and x.attr != fld})
            rep.check(not others, rule, f"{f.short}: new value of .{fld} is built from .{fld} only",
                      f"reads only .{fld}" if not others else f"also reads {['.' + o for o in others]}: .{fld} is overwritten with data of another slot", f.loc(st))
    rep.floor(rule, "slot rewrites in the reference-mapping helpers", n, 3)


def zero_is_a_value(repo: Repo, rep: Report, rule: str) -> None:
    """A slot that holds an optional integer (a constant operand, a folded value, an inlined literal) is tested for presence with `is None` / `is not None`:
    under a truthiness test the value 0 looks like "absent", and `0 < x` or a value folded to 0 silently takes the branch written for "no constant"."""
    from .util import canon

    rep.rule(rule, "zero is a value: wherever the compiler holds an optional integer — the result of a function annotated `int | None` (constant extraction, folding, "
             "inlining) or a `*constant*` entry read from a placement or condition row — its presence is tested with `is None` / `is not None`, never by truthiness "
             "(`if first_constant and ...` treats the literal 0 as absent)")
    opt_funcs = set()
    for f in repo.all_funcs():
        r = f.node.returns
        if r is None:
            continue
        t = norm(r)
        if ("int | None" in t or "Optional[int]" in t or "None | int" in t) and not any(w in t for w in ("str", "Ref", "Signal", "bool")):
            opt_funcs.add(f.name)
    rep.floor(rule, "functions returning an optional integer", len(opt_funcs), 5)

    def optional_int_source(text: str) -> str | None:
        m = re.match(r"(?:[\w\.\(\)\[\]' ]*\.)?(\w+)\(", text)
        head = text.split("(", 1)[0].rsplit(".", 1)[-1] if "(" in text else ""
        if head in opt_funcs and text.endswith(")"):
            return head + "(...)"
        m2 = re.fullmatch(r".*\.get\('([\w]*constant[\w]*)'\)", text)
        if m2:
            return f".get('{m2.group(1)}')"
        return None

    def truthy_names(t: ast.AST, out: list) -> None:
        if isinstance(t, ast.Name):
            out.append(t)
        elif isinstance(t, ast.BoolOp):
            for x in t.values:
                truthy_names(x, out)
        elif isinstance(t, ast.UnaryOp) and isinstance(t.op, ast.Not):
            truthy_names(t.operand, out)

    n_tests = 0
    n_sites = 0
    for f in repo.all_funcs():
        c = None
        pm = None
        for n in walk_local(f.node):
            if not isinstance(n, (ast.If, ast.While, ast.IfExp)):
                continue
            names: list = []
            truthy_names(n.test, names)
            for nm in names:
                c = c or canon(f)
                pm = pm or parents_map(f.node)
                at = n
                while not isinstance(at, ast.stmt) and at in pm:
                    at = pm[at]
                srcs = [s for s in (optional_int_source(a) for a in c.alts(nm, at)) if s]
                n_tests += 1
                if srcs:
                    n_sites += 1
                    rep.bad(rule, f"{f.short}: presence of the optional integer from {srcs[0]} is tested by truthiness",
                            f"`{norm(n.test)[:80]}`: the value 0 takes the branch written for \"absent\"", f.loc(n))
    rep.ok(rule, "optional integers are tested with `is None` / `is not None`", f"{n_tests} truthiness tests on locals examined, {n_sites} on an optional integer", "")
