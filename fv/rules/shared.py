"""Rules shared by several properties (each property reports them under its own rule id)."""

from __future__ import annotations

import ast

from ..core import Repo, Report, call_name, norm, parents_map, walk_local
from ..dataflow import DefUse
from ..sites import guard_chain


def mst_colour_keys(repo: Repo, rep: Report, rule: str) -> None:
    """Colour entries stored under keys that derive from the position-dependent spanning tree may only add, never replace."""
    mst = repo.func("ConnectionPlanner._apply_mst_to_source_fanout")
    dum = DefUse(mst)
    pmm = parents_map(mst.node)
    n_keys = 0
    for n in walk_local(mst.node):
        key = how = None
        if isinstance(n, ast.Assign) and isinstance(n.targets[0], ast.Subscript) and norm(n.targets[0].value) == "self._edge_wire_colors":
            key, how = n.targets[0].slice, "store"
        elif isinstance(n, ast.Call) and call_name(n) == "setdefault" and norm(n.func.value) == "self._edge_wire_colors":
            key, how = n.args[0], "setdefault"
        if key is None:
            continue
        positional = any(l.kind == "call" and "minimum_spanning_tree" in l.text for l in dum.leaves(key)) or any(
            "mst_edges" in norm(v) for x in ast.walk(key) if isinstance(x, ast.Name) for v in dum.value_exprs(x.id))
        if not positional:
            continue
        n_keys += 1
        st = n
        while not isinstance(st, ast.stmt):
            st = pmm[st]
        guarded = how == "setdefault" or any(isinstance(t, ast.Compare) and isinstance(t.ops[0], ast.NotIn) and norm(t.comparators[0]) == "self._edge_wire_colors" and norm(t.left) == norm(key) and pol
                                            for t, pol in guard_chain(mst, st, pmm))
        rep.check(guarded, rule, f"{mst.short}: colour under position-derived key `{norm(key)}` never replaces an existing entry",
                  "guarded by `not in` / setdefault" if guarded else
                  "which pairs the spanning tree joins depends on placement; an unguarded store under such a key can overwrite the colour recorded for a real producer->consumer edge of the same signal, "
                  "so the consumer's operand reads the wrong network", mst.loc(n))
    rep.floor(rule, "colour stores under spanning-tree keys", n_keys, 2)
