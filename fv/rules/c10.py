"""C10 Optimisation never changes what the circuit does — structural clauses.

R1 reference-rewrite completeness of each optimizer against the IR schema
R2 dead-constant test inspects every consumer kind
R3 CSE key covers every behavioural field (frozen, *verified* exception table)
R4 folding keeps the output type and never folds through a user-declared operand
R5 pass configuration of both compile pipelines
R6 spanning-tree wiring stays inside one (signal, colour, source) group
R7 only arithmetic/decider nodes are ever merged
"""

from __future__ import annotations

import ast
import re

from ..core import AnalysisError, Func, Repo, Report, call_name, calls_in, chain, kwarg, norm, walk_local
from ..dataflow import DefUse
from ..irschema import Slot, covers, ir_classes, ir_schema, ladder, touched
from ..pipeline import compile_funcs, mains

IDENTITY_FIELDS = {"node_id", "source_ast", "debug_label", "debug_metadata"}


def _ladder_vars(f: Func, ir_names: set[str]) -> list[str]:
    vs: dict[str, int] = {}
    for n in walk_local(f.node):
        if isinstance(n, ast.Call) and isinstance(n.func, ast.Name) and n.func.id == "isinstance" and len(n.args) == 2 and isinstance(n.args[0], ast.Name):
            t = n.args[1]
            for e in t.elts if isinstance(t, ast.Tuple) else [t]:
                if isinstance(e, ast.Name) and e.id in ir_names:
                    vs[n.args[0].id] = vs.get(n.args[0].id, 0) + 1
    return sorted(vs)


def slot_access(repo: Repo, fs: list[Func], slot: Slot, ir_names: set[str], need: str) -> tuple[bool, str]:
    """Is `slot` read (need='load') / rewritten (need='store') under an isinstance branch for its class
    in any of the functions fs?"""
    for f in fs:
        for var in _ladder_vars(f, ir_names):
            for br in ladder(f, var):
                if not covers(repo, br.classes, slot.cls):
                    continue
                fields, attr_stores = touched(br, var)
                kinds = fields.get(slot.field, set())
                if slot.sub.startswith("[]."):
                    sub_attr = slot.sub[3:]
                    if not kinds:
                        continue
                    if need == "store":
                        if sub_attr in attr_stores:
                            return True, f.loc(br.node)
                    else:
                        for part in br.region:
                            for n in walk_local(part):
                                if isinstance(n, ast.Attribute) and n.attr == sub_attr:
                                    return True, f.loc(br.node)
                    continue
                if need == "store":
                    if "store" in kinds:
                        return True, f.loc(br.node)
                elif kinds:
                    return True, f.loc(br.node)
    return False, ""


def run(repo: Repo, rep: Report, tier: str) -> None:
    schema = ir_schema(repo)
    ir_names = {c.name for c in ir_classes(repo)}
    rep.analysed["ir_schema_slots"] = [str(s) for s in schema]
    optmod = repo.module("ir.optimizer")

    # ---------------- R1 ---------------------------------------------------------------
    rep.rule(
        "C10-R1",
        "every optimizer that records replacements rewrites, under an isinstance branch for the class, every "
        "reference-holding slot of the IR schema (ir/nodes.py annotations); a replaced node id may survive in no slot",
    )
    optimizers = [c for c in optmod.classes.values() if "optimize" in c.methods and any(
        isinstance(n, ast.Attribute) and n.attr == "replacements" and isinstance(n.ctx, ast.Store) for m in c.methods.values() for n in walk_local(m.node))]
    rep.floor("C10-R1", "optimizer classes with a replacements map", len(optimizers), 2)
    for k in optimizers:
        rewriters = [m for m in k.methods.values() if any(
            isinstance(n, ast.Attribute) and isinstance(n.ctx, ast.Store) and isinstance(n.value, ast.Name) and n.value.id != "self" for n in walk_local(m.node))]
        rewriters = _with_module_helpers(k.module, [m for m in k.methods.values() if m.name != "optimize" or True], rewriters)
        if not rewriters:
            raise AnalysisError(f"C10-R1: no reference-rewriting method found in {k.name}")
        for s in schema:
            ok, where = slot_access(repo, rewriters, s, ir_names, "store")
            rep.check(ok, "C10-R1", f"{k.name} rewrites {s}", "rewritten" if ok else
                      f"{k.name} replaces node ids but never rewrites {s}: a consumer keeps a reference to a removed node",
                      where or k.loc())

    from .shared import slot_rewrites_are_self_referential as _srs
    _srs(repo, rep, "C10-R1")
    # ---------------- R2 ---------------------------------------------------------------
    rep.rule(
        "C10-R2",
        "a constant may be declared dead only after every slot that can reference it was inspected "
        "(the function that adds to dead_nodes after scanning consumers)",
    )
    markers = []
    for k in optimizers:
        for m in k.methods.values():
            adds = [c for c in calls_in(m.node, "add") if norm(c.func).endswith("dead_nodes.add")]
            if adds and m.name != "optimize":
                markers.append(m)
    rep.floor("C10-R2", "dead-marking functions", len(markers), 1)
    for m in markers:
        for s in schema:
            ok, where = slot_access(repo, _with_module_helpers(m.module, [m], [m]), s, ir_names, "load")
            rep.check(ok, "C10-R2", f"{m.short} inspects {s}", "inspected" if ok else
                      f"{m.short} can declare a constant dead while {s} still references it", where or m.loc())

    from .util import canon as _c2
    for m in markers:
        cm2 = _c2(m)
        for n2 in walk_local(m.node):
            if isinstance(n2, ast.Continue):
                par2 = cm2.pm.get(n2)
                t2 = cm2.text(par2.test) if isinstance(par2, ast.If) and n2 in par2.body else "unconditional"
                ok2 = "isinstance(" not in t2 and "type(" not in t2
                rep.check(ok2, "C10-R2", f"{m.short}: the scan for other consumers skips a node only for identity/liveness reasons",
                          t2[:90] if ok2 else f"nodes are skipped by kind (`{t2[:80]}`): effect nodes (property writes, memory writes, ...) no longer keep the constant they read alive", m.loc(n2))
    # ---------------- R3 ---------------------------------------------------------------
    rep.rule(
        "C10-R3",
        "for each node class the CSE key is built from, the fields read by the key cover all fields assigned in the "
        "class __init__ (minus identity/debug fields); an absent field needs a verified reason",
    )
    keyfns = [m for k in optimizers for m in k.methods.values() if m.name == "_make_key"]
    if not keyfns:
        keyfns = [m for k in optimizers for m in k.methods.values() if any(
            isinstance(n, ast.Return) and isinstance(n.value, ast.JoinedStr) for n in walk_local(m.node)) and _ladder_vars(m, ir_names)]
    rep.floor("C10-R3", "CSE key functions", len(keyfns), 1)
    keyed_classes: set[str] = set()
    for kf in keyfns:
        for var in _ladder_vars(kf, ir_names):
            for br in ladder(kf, var):
                for cname in br.classes:
                    if cname not in ir_names:
                        continue
                    keyed_classes.add(cname)
                    c = repo.cls(cname)
                    fields_read, _ = touched(br, var)
                    own = _init_fields(repo, c)
                    for fld in sorted(own - IDENTITY_FIELDS):
                        if fld in fields_read:
                            from .util import canon as _canon3
                            rets = [n for part in br.region for n in ([part] if isinstance(part, ast.Return) else [x for x in ast.walk(part) if isinstance(x, ast.Return)]) if n.value is not None]
                            always = all(_unconditional_read(_canon3(kf).node(r.value), var, fld) for r in rets if _mentions_field(_canon3(kf).node(r.value), var, fld))
                            rep.check(always, "C10-R3", f"CSE key reads {cname}.{fld}", "in key" if always else
                                      f"{cname}.{fld} enters the key only on one arm of a conditional expression: nodes that differ in it are merged whenever the other arm is taken", kf.loc(br.node))
                            continue
                        ok, why = _key_exception(repo, cname, fld)
                        rep.check(ok, "C10-R3", f"CSE key reads {cname}.{fld}",
                                  ("absent, verified exception: " + why) if ok else
                                  f"{cname}.{fld} is not part of the CSE key: two nodes differing only in it are merged ({why})",
                                  kf.loc(br.node))
                    # nested records reached through list fields
                    for s in schema:
                        if s.cls == cname and s.sub.startswith("[]."):
                            rec = _record_class(repo, c, s.field)
                            if rec is None:
                                continue
                            # a field of a row counts as read only when it is read off the row the key is being built for: the element of a loop /
                            # comprehension over the list (reading it off one fixed row, `rows[0].f`, keys every row with that row's value)
                            row_vars: set[str] = set()
                            for part in br.region:
                                for n in walk_local(part):
                                    its = []
                                    if isinstance(n, ast.For):
                                        its.append((n.target, n.iter))
                                    elif isinstance(n, (ast.ListComp, ast.SetComp, ast.GeneratorExp, ast.DictComp)):
                                        its += [(g.target, g.iter) for g in n.generators]
                                    for tgt_, it_ in its:
                                        txt_ = norm(it_)
                                        if txt_ == f"{var}.{s.field}" or txt_ == f"enumerate({var}.{s.field})":
                                            row_vars |= {x.id for x in ast.walk(tgt_) if isinstance(x, ast.Name)}
                            region_attrs = set()
                            for part in br.region:
                                for n in walk_local(part):
                                    if isinstance(n, ast.Attribute) and isinstance(n.value, ast.Name) and n.value.id in row_vars:
                                        region_attrs.add(n.attr)
                            for rf in _dataclass_fields(rec):
                                key = f"CSE key reads {cname}.{s.field}[].{rf}"
                                if any(o.construct == key for o in rep.obs):
                                    continue
                                if rf in region_attrs:
                                    rep.ok("C10-R3", key, "in key", kf.loc(br.node))
                                else:
                                    ok, why = _record_exception(repo, rec.name, rf)
                                    rep.check(ok, "C10-R3", key, ("absent, verified exception: " + why) if ok else
                                              f"{rec.name}.{rf} not in the key ({why})", kf.loc(br.node))
    rep.floor("C10-R3", "keyed node classes", len(keyed_classes), 2)
    # operand order is part of the key: any canonicalisation (swap / sort of the operand keys) is allowed only for operators that commute in the IR
    COMMUTATIVE = {"+", "*", "AND", "OR", "XOR"}  # note: in the IR "^" is Factorio's power operator, not xor
    from ..core import class_const, module_const, parents_map as _pm, const_eval, NotConstant
    from ..sites import guard_chain as _gc
    for kf in keyfns:
        pmk = _pm(kf.node)
        for n in walk_local(kf.node):
            swap = isinstance(n, ast.Assign) and isinstance(n.targets[0], ast.Tuple) and isinstance(n.value, ast.Tuple) and len(n.targets[0].elts) == 2 \
                and [norm(e) for e in n.targets[0].elts] == [norm(e) for e in reversed(n.value.elts)]
            srt = isinstance(n, ast.Call) and isinstance(n.func, ast.Name) and n.func.id in ("sorted", "min", "max") and any("key" in norm(a) for a in n.args)
            if not (swap or srt):
                continue
            st = n
            while not isinstance(st, ast.stmt):
                st = pmk[st]
            allowed = None
            for t, pol in _gc(kf, st, pmk):
                if not pol:
                    continue
                for sub in ast.walk(t):
                    if isinstance(sub, ast.Compare) and isinstance(sub.ops[0], ast.In) and norm(sub.left).endswith(".op"):
                        cont = sub.comparators[0]
                        try:
                            if isinstance(cont, ast.Attribute) and kf.cls is not None:
                                allowed = set(class_const(repo, kf.cls, cont.attr))
                            elif isinstance(cont, ast.Name):
                                allowed = set(module_const(repo, kf.module, cont.id))
                            else:
                                allowed = set(const_eval(cont))
                        except NotConstant:
                            allowed = None
            if allowed is None:
                rep.bad("C10-R3", f"{kf.short}: operand keys are reordered only for commutative operators", f"`{norm(n)[:60]}` is not guarded by a literal operator set", kf.loc(n))
            else:
                extra = sorted(allowed - COMMUTATIVE)
                rep.check(not extra, "C10-R3", f"{kf.short}: operand keys are reordered only for commutative operators",
                          f"guard set {sorted(allowed)}" + ("" if not extra else f"; {extra} do not commute in the IR ('^' is power): `a ^ b` and `b ^ a` would be merged"), kf.loc(n))

    # metadata written on keyed node kinds by the builder must be a function of keyed fields
    builder = repo.cls("IRBuilder")
    n_meta = 0
    for m in builder.methods.values():
        made = {call_name(c) for c in calls_in(m.node)} & keyed_classes
        if not made:
            continue
        for n in walk_local(m.node):
            if isinstance(n, ast.Assign) and len(n.targets) == 1 and isinstance(n.targets[0], ast.Subscript):
                tgt = n.targets[0]
                if isinstance(tgt.value, ast.Attribute) and tgt.value.attr == "debug_metadata" and isinstance(tgt.slice, ast.Constant):
                    n_meta += 1
                    ok, why = _guarded_by_keyed_operand(m, n)
                    rep.check(ok, "C10-R3", f"{m.short} metadata '{tgt.slice.value}' is a function of keyed operands",
                              why, m.loc(n))
    rep.analysed["C10-R3:builder metadata stores on keyed kinds"] = n_meta

    # ---------------- R4 ---------------------------------------------------------------
    rep.rule(
        "C10-R4",
        "in the folding pass: every operand whose constant value is consulted is first tested with the "
        "user-declared guard (skip folding), and the replacement constant takes the folded node's output_type",
    )
    for k in optimizers:
        opt = k.methods["optimize"]
        consts = [c for c in calls_in(opt.node, "IRConst")]
        if not consts:
            continue
        for c in consts:
            ot = c.args[1] if len(c.args) > 1 else kwarg(c, "output_type")
            rep.check(ot is not None and norm(ot).endswith(".output_type"), "C10-R4",
                      f"{opt.short} replacement constant #{consts.index(c) + 1} takes the folded node's output_type",
                      f"second argument is {norm(ot)}", opt.loc(c))
        for var in _ladder_vars(opt, ir_names):
            for br in ladder(opt, var):
                guard_args = set()
                read_args: dict[str, ast.AST] = {}
                for part in br.region:
                    for c in calls_in(part):
                        if not c.args:
                            continue
                        a0 = norm(c.args[0])
                        if not a0.startswith(var + "."):
                            continue
                        if "user_declared" in call_name(c):
                            guard_args.add(a0)
                        elif "const_value" in call_name(c):
                            read_args.setdefault(a0, c)
                for a0, c in sorted(read_args.items()):
                    rep.check(a0 in guard_args, "C10-R4",
                              f"{opt.short} [{'/'.join(br.classes)}] guards {'<node>' + a0[len(var):]} against user-declared constants before folding",
                              "guarded" if a0 in guard_args else
                              f"constant value of {a0} is folded into the result without the user-declared test: a declared input is baked in",
                              opt.loc(c))

    # ---------------- R5 ---------------------------------------------------------------
    rep.rule(
        "C10-R5",
        "both compile pipelines run constant propagation then CSE, only under `optimize`, and pass the same flag "
        "as use_mst_optimization; both mains derive optimize from `not no_optimize`",
    )
    for cf in compile_funcs(repo):
        order = []
        for n in walk_local(cf.node):
            if isinstance(n, ast.Call) and call_name(n) in ("ConstantPropagationOptimizer", "CSEOptimizer"):
                order.append((n.lineno, n.col_offset, call_name(n), n))
        order.sort(key=lambda x: x[:3])
        names = [x[2] for x in order]
        rep.check(names == ["ConstantPropagationOptimizer", "CSEOptimizer"], "C10-R5",
                  f"{cf.short} pass order", f"passes constructed in order {names}", cf.loc())
        from ..cfg import CFG
        cfg = CFG(cf.node)
        guards = [s for s in cfg.stmts() if isinstance(s, ast.If) and norm(s.test) == "optimize"]
        for _ln, _col, nm, call in order:
            st = _stmt_of(cf, call)
            under = st is not None and any(g in cfg.ancestors(st) and st in _body_stmts(g.body) for g in guards)
            rep.check(under, "C10-R5", f"{cf.short} runs {nm} only under `if optimize`",
                      "guarded by optimize" if under else "optimizer pass not guarded by the optimize flag", cf.loc(call))
        lp = [c for c in calls_in(cf.node, "LayoutPlanner")]
        for c in lp:
            v = kwarg(c, "use_mst_optimization")
            rep.check(v is not None and norm(v) == "optimize", "C10-R5", f"{cf.short} use_mst_optimization follows optimize",
                      f"use_mst_optimization={norm(v)}", cf.loc(c))
    for mf, cf in mains(repo):
        for c in calls_in(mf.node, cf.name):
            v = kwarg(c, "optimize")
            rep.check(v is not None and norm(v) == "not no_optimize", "C10-R5", f"{mf.qual} optimize flag",
                      f"optimize={norm(v)}", mf.loc(c))

    # ---------------- R6 ---------------------------------------------------------------
    rep.rule(
        "C10-R6",
        "the spanning tree is built only over the source and the sinks of one (signal, colour, source) group, "
        "and its edges join only members of that list",
    )
    mst_apply = repo.func("ConnectionPlanner._apply_mst_to_source_fanout")
    mst_build = repo.func("ConnectionPlanner._build_minimum_spanning_tree")
    populate = repo.func("ConnectionPlanner._populate_wire_connections")
    du = DefUse(mst_apply)
    calls = calls_in(mst_apply.node, mst_build.name)
    rep.floor("C10-R6", "spanning-tree construction sites", len(calls), 1)
    for c in calls:
        leaves = du.leaves(c.args[0]) if c.args else set()
        params = {l.text for l in leaves if l.kind == "param"}
        others = {str(l) for l in leaves if l.kind in ("attr", "global") }
        rep.check(params <= {"source_id", "sink_ids"} and bool(params) and not others, "C10-R6",
                  f"{mst_apply.short} tree vertex list derives only from its source and sinks",
                  f"vertex list {norm(c.args[0]) if c.args else '?'} derives from {sorted(map(str, leaves))}", mst_apply.loc(c))
    # edges returned by the tree builder only pair members of entity_ids
    dub = DefUse(mst_build)
    returned_b = {n.value.id for n in walk_local(mst_build.node) if isinstance(n, ast.Return) and isinstance(n.value, ast.Name)}
    appends = [c for c in calls_in(mst_build.node, "append") if isinstance(c.func, ast.Attribute) and isinstance(c.func.value, ast.Name) and c.func.value.id in returned_b]
    ok_all = bool(appends)
    for c in appends:
        lv = dub.leaves(c.args[0])
        if not {l.text for l in lv if l.kind == "param"} <= {"entity_ids"} or any(l.kind == "attr" and not l.text.startswith("self.layout_plan") for l in lv):
            ok_all = False
    rep.check(ok_all, "C10-R6", f"{mst_build.short} edges pair members of entity_ids only",
              "edge endpoints derive from the entity_ids parameter", mst_build.loc())
    # call site in _populate_wire_connections: per-source group inside one (signal, colour) group
    from .util import canon as _canon
    dup = DefUse(populate)
    cpop = _canon(populate)
    pmp_ = cpop.pm

    def _grouped_by_source(g: str) -> bool:
        """local dict `g` is filled as g[<edge>.source_entity_id].append(<edge>) / setdefault(...).append(...)"""
        for c2 in calls_in(populate.node, "append"):
            recv = c2.func.value if isinstance(c2.func, ast.Attribute) else None
            key = None
            if isinstance(recv, ast.Subscript) and isinstance(recv.value, ast.Name) and recv.value.id == g:
                key = recv.slice
            elif isinstance(recv, ast.Call) and call_name(recv) == "setdefault" and isinstance(recv.func, ast.Attribute) and isinstance(recv.func.value, ast.Name) and recv.func.value.id == g and recv.args:
                key = recv.args[0]
            if key is not None and cpop.text(key).endswith(".source_entity_id") and c2.args and cpop.text(key) == cpop.text(c2.args[0]) + ".source_entity_id":
                return True
        return False

    for c in calls_in(populate.node, mst_apply.name):
        a_src, a_sinks = c.args[0], c.args[1]
        # the loop that binds the source argument
        loop = None
        cur = c
        while cur in pmp_:
            cur = pmp_[cur]
            if isinstance(cur, ast.For) and isinstance(a_src, ast.Name) and isinstance(cur.target, ast.Tuple) and len(cur.target.elts) == 2 \
                    and isinstance(cur.target.elts[0], ast.Name) and cur.target.elts[0].id == a_src.id:
                loop = cur
                break
        gname = None
        if loop is not None:
            for x in ast.walk(loop.iter):
                if isinstance(x, ast.Call) and call_name(x) == "items" and isinstance(x.func, ast.Attribute) and isinstance(x.func.value, ast.Name):
                    gname = x.func.value.id
        from_group = gname is not None and _grouped_by_source(gname)
        rep.check(from_group, "C10-R6", f"{populate.short} spanning tree per source group",
                  "the source argument iterates a dict filled as g[edge.source_entity_id].append(edge)" if from_group else f"source argument {norm(a_src)} is not the key of a by-source grouping", populate.loc(c))
        # sinks argument must derive from the edges of that source (the loop's second target) and from nothing else outside the loop
        members = loop.target.elts[1].id if loop is not None and isinstance(loop.target.elts[1], ast.Name) else None
        reach: set[str] = set()
        work = [a_sinks]
        while work:
            e = work.pop()
            for x in ast.walk(e):
                if isinstance(x, ast.Name) and x.id not in reach:
                    reach.add(x.id)
                    work += [v for v, how, _ in dup.defs.get(x.id, []) if how != "elem-add" or True]
        sink_attr = any(isinstance(x, ast.Attribute) and x.attr == "sink_entity_id" for nm in reach for v in dup.value_exprs(nm) for x in ast.walk(v))
        rep.check(members is not None and members in reach and sink_attr, "C10-R6", f"{populate.short} sinks are the sinks of that source's edges",
                  "sink argument derives from .sink_entity_id of the group's own edges" if members in reach else f"sink argument {norm(a_sinks)} does not derive from the source's own edges", populate.loc(c))
    # the (signal,colour) group key
    gk = [n for n in walk_local(populate.node) if isinstance(n, ast.Assign) and isinstance(n.targets[0], ast.Name) and isinstance(n.value, ast.Tuple) and len(n.value.elts) == 2
          and cpop.text(n.value.elts[0]).endswith(".resolved_signal_name")]
    ok_gk = bool(gk) and all("_edge_color_map" in cpop.text(n.value.elts[1]) for n in gk)
    ok_gk = ok_gk and any(isinstance(x, ast.Subscript) and isinstance(x.slice, ast.Name) and x.slice.id == gk[0].targets[0].id for x in walk_local(populate.node))
    rep.check(ok_gk, "C10-R6", f"{populate.short} groups edges by (resolved signal, colour)",
              "group key = (edge.resolved_signal_name, colour from _edge_color_map)" if ok_gk else "missing", populate.loc(gk[0]) if gk else populate.loc())

    rep.rule("C10-R8", "spanning-tree wiring only re-shapes one network: colour entries stored under tree-edge keys (placement-dependent) never replace the colour recorded for a logical edge")
    from .shared import mst_colour_keys
    mst_colour_keys(repo, rep, "C10-R8")

    # ---------------- R9 ---------------------------------------------------------------
    rep.rule("C10-R9", "folding a single-condition decider with constant operands yields `output constant if comparison else 0`; the default output 1 is used only when the "
             "output value is not a constant (never for a constant 0)")
    from .util import canon as _canon9, cguards as _cguards9
    cpo = repo.func("ConstantPropagationOptimizer.optimize")
    c9 = _canon9(cpo)
    folds = []
    for n in walk_local(cpo.node):
        if isinstance(n, ast.Assign) and isinstance(n.targets[0], ast.Attribute) and n.targets[0].attr == "value":
            cn = c9.node(n.value)
            if isinstance(cn, ast.IfExp) and "_fold_comparison(" in norm(cn.test):
                folds.append((n, cn))
    rep.floor("C10-R9", "decider folding sites", len(folds), 1)
    for n, cn in folds:
        OUT = None
        import re as _re9
        m9 = _re9.search(r"self\._fold_comparison\((.+)\.test_op, self\._get_const_value\(\1\.left, (.+?)\), self\._get_const_value\(\1\.right, \2\)\)", norm(cn.test))
        ok = m9 is not None and isinstance(cn.orelse, ast.Constant) and cn.orelse.value == 0
        detail = norm(cn)[:160]
        if ok:
            OUT = f"self._get_const_value({m9.group(1)}.output_value, {m9.group(2)})"
            bt = norm(cn.body)
            FOLD = norm(cn.test)
            gs9 = _cguards9(cpo, n)
            # the forwarded value must be a constant whenever the comparison holds: a guard `FOLD and OUT is None -> skip`
            # (or `OUT is None -> skip`) has to precede the store; substituting a default for a run-time value is wrong
            excluded = any((not pol) and g in (f"{FOLD} and {OUT} is None", f"{OUT} is None and {FOLD}", f"{OUT} is None") for g, pol in gs9)
            ok = bt == OUT and excluded
            detail = ("value = const(output_value) if cmp else 0; not folded when the comparison holds and the output is a run-time value" if ok else
                      (f"folded value `{bt[:80]}`" + ("" if bt == OUT else ": a default replaces an output value that is not a constant, so `(2 > 1) : y` with a run-time y folds to that default")
                       + ("" if excluded else "; nothing skips the fold when the output value is not a constant")))
        rep.check(ok, "C10-R9", "a folded decider keeps `output_value if cmp else 0`", detail, cpo.loc(n))

    # ---------------- R10/R11 ----------------------------------------------------------
    rep.rule("C10-R11", "a node that replaces a folded node is always kept: the loop that appends replacement targets to the result has no condition beyond "
             "`is a constant` / `not already there` (references to the folded node are re-pointed at it, so dropping it leaves an operand without a producer)")
    from .util import cguards as _cg11
    c11 = _canon9(cpo)
    loops11 = [n for n in walk_local(cpo.node) if isinstance(n, ast.For) and c11.text(n.iter) == "self.replacements.items()"]
    rep.floor("C10-R11", "loops over the replacement table in constant propagation", len(loops11), 1)
    for lp11 in loops11:
        T = "ELEM(self.replacements.items())[1]"
        for k in calls_in(lp11, "append"):
            gs11 = _cg11(cpo, k)
            # the only admissible conditions: membership of the target in the constant table and absence from the result list so far
            ok11 = all(pol and re.fullmatch(re.escape(T) + r" in (\S+) and \1\[" + re.escape(T) + r"\] not in (\S+)", g) is not None for g, pol in gs11) and len(gs11) == 1
            rep.check(ok11, "C10-R11", "every replacement target is appended to the optimised program",
                      "appended whenever it is a constant that is not there yet" if ok11 else
                      f"kept only under {[('' if pol else 'not ') + g[:80] for g, pol in gs11]}: a folded intermediate that a surviving combinator still reads can be dropped", cpo.loc(k))
    from .shared import borrow as _borrow10
    _borrow10(repo, rep, "C04", "C04-R5", "C10-R10", "the optimised build lays the same logical wires as the plain one: spanning-tree routing never leaves out the direct wires of bidirectional (feedback) pairs",
              select=lambda o: "bidirectional sinks are always routed directly" in o.construct)

    # ---------------- R7 ---------------------------------------------------------------
    rep.rule("C10-R7", "common-subexpression elimination merges only IRArith/IRDecider nodes and keeps the first occurrence")
    for k in optimizers:
        opt = k.methods["optimize"]
        if not any(isinstance(n, ast.Attribute) and n.attr == "expr_cache" for n in walk_local(opt.node)):
            continue
        for var in _ladder_vars(opt, ir_names):
            for br in ladder(opt, var):
                extra = [c for c in br.classes if c not in ("IRArith", "IRDecider")]
                rep.check(not extra, "C10-R7", f"{opt.short} merges only arithmetic/decider nodes",
                          f"merge candidates: {br.classes}", opt.loc(br.node))

    # ---------------- R12/R13 ----------------------------------------------------------
    from .shared import borrow as _borrow10b
    _borrow10b(repo, rep, "C20", "C20-R6", "C10-R12", "the optimised build exposes the same named results as the plain one: the name table the planner receives is the one that was "
               "re-pointed after each node-eliminating pass (not a copy taken before)", floor=2)
    _borrow10b(repo, rep, "C07", "C07-R3", "C10-R13", "the optimised build keeps every wire it plans: spanning-tree routing lays input->input wires between sinks, which are different "
               "wires from the output->input wire between the same two combinators", select=lambda o: "add_wire_connection" in o.construct, floor=1)

    # ---------------- R16/R17 ----------------------------------------------------------
    _borrow10b(repo, rep, "C11", "C11-R5", "C10-R16", "a comparison whose operands constant propagation made constant is decided with the program's own comparator: the plain build "
               "leaves that comparison to the game, so any other table changes behaviour only under optimisation", floor=1)
    _borrow10b(repo, rep, "C11", "C11-R2", "C10-R17", "what the constant-propagation pass folds is what the combinator it removes would have computed (32-bit wrap, truncating division, "
               "remainder with the dividend's sign): the plain build leaves the operation to the game", select=lambda o: o.construct.startswith("ConstantPropagationOptimizer."), floor=8)

    # ---------------- R14 --------------------------------------------------------------
    rep.rule("C10-R14", "constant propagation folds scalar constants only: a node enters the pass's constant table (the table `.value` is read from) only if it is an IRConst without "
             "member signals — a bundle constant has value 0 and several signals, folding `{...} * 2` through it yields the single constant 0")
    from .util import cguards
    cpo = repo.cls("ConstantPropagationOptimizer")
    n14 = 0
    for m14 in cpo.methods.values():
        for st in walk_local(m14.node):
            if isinstance(st, ast.Assign) and isinstance(st.targets[0], ast.Subscript) and isinstance(st.targets[0].value, ast.Name) and isinstance(st.value, ast.Name):
                from .util import canon as _canon14
                c14 = _canon14(m14)
                if not (c14.text(st.value).startswith("ELEM(") and c14.text(st.targets[0].slice) == c14.text(st.value) + ".node_id"):
                    continue
                gs14 = cguards(m14, st)
                if not any("IRConst" in g and pol for g, pol in gs14):
                    continue
                n14 += 1
                ok14 = any(".signals" in g for g, pol in gs14)
                rep.check(ok14, "C10-R14", f"{m14.short}: the constant table admits scalar constants only", "guarded by a test on `.signals`" if ok14 else
                          f"every IRConst is admitted ({[g for g, p in gs14 if p][:1]}): `Bundle r = {{(\"signal-A\", 5), (\"signal-B\", 2)}} * 2;` is folded to signal-each = 0 with optimisation on", m14.loc(st))
    rep.floor("C10-R14", "admissions to the constant table", n14, 1)

    # ---------------- R15 --------------------------------------------------------------
    rep.rule("C10-R15", "the common-subexpression key of a decider reads, on each of its return paths, every field that the builders of that kind of decider set: a field set by "
             "IRBuilder.decider / bundle_decider / bundle_gating_decider (single condition) is in the single-condition key, a field set by decider_multi in the multi-condition key — "
             "reading it on the other path only merges nodes that differ in it")
    from .util import canon as _canon15, cguards as _cg15
    bld15 = repo.cls("IRBuilder")
    setters: dict[str, set[str]] = {"single": set(), "multi": set()}
    for m15 in bld15.methods.values():
        news = [n for n in walk_local(m15.node) if isinstance(n, ast.Assign) and isinstance(n.value, ast.Call) and call_name(n.value) == "IRDecider" and isinstance(n.targets[0], ast.Name)]
        if not news:
            continue
        var15 = news[0].targets[0].id
        attrs15 = {n.targets[0].attr for n in walk_local(m15.node) if isinstance(n, ast.Assign) and isinstance(n.targets[0], ast.Attribute) and isinstance(n.targets[0].value, ast.Name) and n.targets[0].value.id == var15}
        multi = any(isinstance(c, ast.Call) and call_name(c) == "append" and norm(c.func.value) == f"{var15}.conditions" for c in ast.walk(m15.node))
        setters["multi" if multi else "single"] |= attrs15 | ({"conditions"} if multi else set())
    for kf in keyfns:
        ck = _canon15(kf)
        for var in _ladder_vars(kf, ir_names):
            for br in ladder(kf, var):
                if "IRDecider" not in br.classes:
                    continue
                rets15 = [n for part in br.region for n in ([part] if isinstance(part, ast.Return) else [x for x in ast.walk(part) if isinstance(x, ast.Return)]) if n.value is not None and not (isinstance(n.value, ast.Constant))]
                for r15 in rets15:
                    mode = "multi" if any(pol and g.endswith(".conditions") for g, pol in _cg15(kf, r15)) else "single"
                    txt = ck.text(r15.value)
                    reads15 = {a for a in setters[mode] if re.search(rf"\b{var}\.{a}\b", txt) or (a == "conditions" and ".conditions" in txt)}
                    missing15 = sorted(setters[mode] - reads15 - IDENTITY_FIELDS - {"debug_metadata", "debug_label", "source_ast", "conditions"})  # rows: C10-R3
                    rep.check(not missing15, "C10-R15", f"{kf.short}: the {mode}-condition decider key reads every field its builders set", f"reads {sorted(reads15)}" if not missing15 else
                              f"{missing15} set by the builders is not in this key: `(b > 0) : b` and `(b > 0) : 1` (copy the value / output a constant) get one key and are merged", kf.loc(r15))
    rep.analysed["C10-R15:fields set by the decider builders"] = {k: sorted(v) for k, v in setters.items()}

    # ---------------- R18 --------------------------------------------------------------
    rep.rule("C10-R18", "a value marked as not needed (a place() coordinate that was read as a constant) is dropped only if nothing that exists reads it: CSE may hand the marked "
             "node to an identical expression that is read as a signal, and a named value can be both a coordinate and an operand — in _decide_materialization the "
             "suppression flag never decides `should_materialize = False` by itself, the decision looks at the entry's consumers")
    dm = repo.func("SignalAnalyzer._decide_materialization")
    from .util import cguards as _cg18
    n18 = 0
    for st in walk_local(dm.node):
        if isinstance(st, ast.Assign) and isinstance(st.targets[0], ast.Attribute) and st.targets[0].attr == "should_materialize":
            gs = _cg18(dm, st)
            if not any(pol and "'suppress_materialization'" in g for g, pol in gs):
                continue
            n18 += 1
            unconditional = isinstance(st.value, ast.Constant) and st.value.value is False and not any("consumers" in g for g, _ in gs)
            looks = "consumers" in norm(st.value) or any("consumers" in g for g, _ in gs)
            if not unconditional and not looks and isinstance(st.value, ast.Call):
                callee = repo.cls("SignalAnalyzer").methods.get(call_name(st.value))
                looks = callee is not None and any(isinstance(x, ast.Attribute) and x.attr == "consumers" for x in ast.walk(callee.node))
            if isinstance(st.value, ast.Constant) and st.value.value is True:
                rep.ok("C10-R18", f"_decide_materialization: suppression decision #{n18}", "kept (user declaration)", dm.loc(st))
                continue
            rep.check(looks and not unconditional, "C10-R18", f"_decide_materialization: suppression decision #{n18} looks at the readers", "decided from the entry's consumers" if looks and not unconditional else
                      "`should_materialize = False` on the flag alone: an identical expression merged into this node by CSE, or the same named value used as an operand, reads a signal that no combinator produces", dm.loc(st))
    rep.floor("C10-R18", "suppression decisions", n18, 3)
    # ... and a plain constant is never kept for its readers' sake: they take the literal.  (A suppressed constant that is materialised turns `c > i`, with the int i
    # also used as a coordinate, into a comparison of two signals; the entity condition it is inlined into then has no constant.)
    hlc = repo.cls("SignalAnalyzer").methods.get("_has_live_consumer")
    if hlc is not None:
        first_ret = None
        for st in hlc.node.body:
            if isinstance(st, ast.If) and any(isinstance(b, ast.Return) and isinstance(b.value, ast.Constant) and b.value.value is False for b in st.body):
                first_ret = st
                break
            if isinstance(st, (ast.For, ast.While)):
                break
        t18 = norm(first_ret.test) if first_ret is not None else ""
        ok18 = "IRConst" in t18 and "isinstance(" in t18
        rep.check(ok18, "C10-R18", "_has_live_consumer: a plain constant is left to be inlined by its readers", t18[:90] if ok18 else
                  "no early `return False` for an IRConst producer: a constant marked as a coordinate gets a combinator as soon as something else reads it, and readers that "
                  "need a literal (an inlined entity condition) lose it", hlc.loc())

    # ---------------- R22 --------------------------------------------------------------
    rep.rule("C10-R22", "a declared constant is an input however its value is written: folding treats a constant as fixed unless it is marked `user_declared`, and the mark is set "
             "where a declaration stores the lowered value under its name — in every branch of lower_decl_stmt that stores the result of `lower_expr(<declared value>)`, "
             "the call form `Signal a = mk();` included (without it the optimised build folds `a * 2` to a number and drops `a`, the plain build keeps both)")
    lds22 = repo.func("StatementLowerer.lower_decl_stmt")
    pm22 = _pm(lds22.node)
    n22 = 0
    for st in walk_local(lds22.node):
        if not (isinstance(st, ast.Assign) and isinstance(st.targets[0], ast.Subscript) and norm(st.targets[0].value) == "self.parent.signal_refs" and isinstance(st.value, ast.Name)):
            continue
        blk = pm22.get(st)
        body = getattr(blk, "body", []) if blk is not None else []
        if st not in body:
            body = getattr(blk, "orelse", [])
        before = body[: body.index(st)] if st in body else []
        # the value bound here is the lowered declared value: assigned from lower_expr(...) earlier in this block, or (for a nested `if isinstance(value, SignalRef)`
        # arm) in the enclosing block ahead of the arm
        def _from_lower_expr(stmts):
            return any(isinstance(b, ast.Assign) and norm(b.targets[0]) == st.value.id and isinstance(b.value, ast.Call) and call_name(b.value) == "lower_expr" for b in stmts)
        outer_body = getattr(pm22.get(blk), "body", []) if isinstance(blk, ast.If) and blk is not None else []
        outer_before = outer_body[: outer_body.index(blk)] if blk in outer_body else []
        placeholder = any(isinstance(b, ast.Assign) and isinstance(b.targets[0], ast.Tuple) and any(norm(e) == st.value.id for e in b.targets[0].elts) for b in before)
        src_call = (_from_lower_expr(before) or (not before or not any(isinstance(b, ast.Assign) and norm(b.targets[0]) == st.value.id for b in before)) and _from_lower_expr(outer_before)) and not placeholder
        if not src_call:
            continue
        n22 += 1
        marks = any("'user_declared'" in norm(x) and isinstance(x, ast.Assign) for b in before for x in ast.walk(b))
        rep.check(marks, "C10-R22", f"lower_decl_stmt: declaration branch #{n22} marks a constant it declares", "user_declared set before the name is bound" if marks else
                  "the value is bound to the name without the mark: a constant that reaches this branch (returned by a call) is folded away under optimisation", lds22.loc(st))
    rep.floor("C10-R22", "declaration branches storing a lowered value", n22, 2)

    # ---------------- R21 --------------------------------------------------------------
    rep.rule("C10-R21", "two references are the same operand for CSE only if they come from the same node: every key the CSE pass builds for a reference (`_value_key`, the "
             "SignalRef arm) contains the source id of the reference (after replacement) — a key made of the signal type alone makes reads of two different cells, or two "
             "different producers on one signal, one operand, and the readers of the second are merged into the readers of the first")
    vk = repo.func("CSEOptimizer._value_key")
    cvk = _canon(vk)
    from .util import cguards as _cg21
    n21 = 0
    for r21 in [n for n in walk_local(vk.node) if isinstance(n, ast.Return) and n.value is not None]:
        if not any(pol and re.fullmatch(r"isinstance\(.+, SignalRef\)", g) for g, pol in _cg21(vk, r21)):
            continue
        n21 += 1
        t21 = cvk.text(r21.value, r21)
        ok21 = ".source_id" in t21
        rep.check(ok21, "C10-R21", f"CSEOptimizer._value_key: reference key #{n21} contains the source id", t21[:90] if ok21 else
                  f"`{t21[:90]}` identifies the operand without its source: distinct producers become one operand", vk.loc(r21))
    rep.floor("C10-R21", "reference keys of the CSE pass", n21, 1)

    # ---------------- R20 --------------------------------------------------------------
    _borrow10b(repo, rep, "C12", "C12-R10", "C10-R20", "CSE makes one node feed the readers of all the expressions it merged: the fan-out it creates is separated from the differing "
               "same-named inputs of those readers like any other shared source", floor=2)

    # ---------------- R19 --------------------------------------------------------------
    from .shared import zero_is_a_value as _zero_v
    _zero_v(repo, rep, "C10-R19")



def thorough(repo: Repo, rep: Report) -> None:
    pass


# ---- helpers -----------------------------------------------------------------------------


def _with_module_helpers(mod, callers: list[Func], base: list[Func]) -> list[Func]:
    """base + the module-level functions (transitively) called by name from `callers`."""
    out = list(base)
    seen = {f.qual for f in out}
    work = list(callers)
    while work:
        f = work.pop()
        for c in calls_in(f.node):
            if isinstance(c.func, ast.Name) and c.func.id in mod.funcs:
                h = mod.funcs[c.func.id]
                if h.qual not in seen:
                    seen.add(h.qual)
                    out.append(h)
                    work.append(h)
    return out


def _init_fields(repo: Repo, c) -> set[str]:
    out: set[str] = set()
    for k in repo.mro(c):
        init = k.methods.get("__init__")
        if not init:
            continue
        for n in walk_local(init.node):
            t = None
            if isinstance(n, ast.Assign) and len(n.targets) == 1:
                t = n.targets[0]
            elif isinstance(n, ast.AnnAssign):
                t = n.target
            if isinstance(t, ast.Attribute) and isinstance(t.value, ast.Name) and t.value.id == "self":
                out.add(t.attr)
    return out


def _record_class(repo: Repo, c, fieldname: str):
    init = c.methods.get("__init__")
    if not init:
        return None
    for n in walk_local(init.node):
        if isinstance(n, ast.AnnAssign) and isinstance(n.target, ast.Attribute) and n.target.attr == fieldname:
            for sub in ast.walk(n.annotation):
                if isinstance(sub, ast.Name):
                    k = repo.cls(sub.id, optional=True) if sub.id[0].isupper() and sub.id not in ("Any",) else None
                    if k is not None and k.module is c.module and sub.id != c.name:
                        return k
    return None


def _dataclass_fields(k) -> list[str]:
    return [st.target.id for st in k.node.body if isinstance(st, ast.AnnAssign) and isinstance(st.target, ast.Name)]


def _key_exception(repo: Repo, cname: str, fld: str) -> tuple[bool, str]:
    """Frozen exception table; each entry is re-verified structurally on every run."""
    if (cname, fld) == ("IRArith", "needs_wire_separation"):
        # determined by the kind of the right operand, which is keyed
        sites = []
        for f in repo.all_funcs():
            if f.cls and f.cls.name == cname:
                continue
            for n in walk_local(f.node):
                if isinstance(n, ast.Assign) and any(isinstance(t, ast.Attribute) and t.attr == fld for t in n.targets):
                    sites.append((f, n))
        if not sites:
            return True, "never set outside the class default"
        for f, n in sites:
            ok, why = _guarded_by_keyed_operand(f, n)
            if not ok:
                return False, f"set at {f.loc(n)} not as a function of a keyed operand: {why}"
        return True, f"set only where guarded by isinstance(<operand stored in a keyed slot>, SignalRef) ({len(sites)} site(s))"
    return False, "no exception registered"


def _record_exception(repo: Repo, rec: str, fld: str) -> tuple[bool, str]:
    if rec == "DeciderCondition" and fld in ("first_signal_wires", "second_signal_wires"):
        n_sites = 0
        for f in repo.all_funcs():
            for c in calls_in(f.node, rec):
                n_sites += 1
                if any(k.arg == fld for k in c.keywords) or len(c.args) > 3:
                    return False, f"{rec}(...) at {f.loc(c)} sets {fld}"
            for n in walk_local(f.node):
                if isinstance(n, ast.Attribute) and n.attr == fld and isinstance(n.ctx, ast.Store) and not (f.module.name.endswith("ir.nodes")):
                    # stores on layout-time dict rows do not go through DeciderCondition
                    owner = norm(n.value)
                    if "cond" in owner:
                        return False, f"{fld} stored at {f.loc(n)}"
        return True, f"no IR-time constructor of {rec} ({n_sites} site(s)) sets {fld}"
    return False, "no exception registered"


def _guarded_by_keyed_operand(f: Func, store: ast.stmt) -> tuple[bool, str]:
    """`store` sits under `if isinstance(X, SignalRef)` and X is stored into an operand slot of the node."""
    from ..core import parents_map

    pm = parents_map(f.node)
    cur = pm.get(store)
    guards = []
    while cur is not None and cur is not f.node:
        if isinstance(cur, ast.If) and store in list(ast.walk(ast.Module(body=cur.body, type_ignores=[]))):
            guards.append(cur)
        cur = pm.get(cur)
    xs = []
    for g in guards:
        for sub in ast.walk(g.test):
            if isinstance(sub, ast.Call) and call_name(sub) == "isinstance" and len(sub.args) == 2 and "SignalRef" in norm(sub.args[1]):
                xs.append(norm(sub.args[0]))
    if not xs:
        return False, "no isinstance(<operand>, SignalRef) guard"
    keyed_slots = {"left", "right", "output_value"}
    stored = {norm(n.value): n.targets[0].attr for n in walk_local(f.node)
              if isinstance(n, ast.Assign) and len(n.targets) == 1 and isinstance(n.targets[0], ast.Attribute) and n.targets[0].attr in keyed_slots}
    for x in xs:
        if x in stored:
            return True, f"guarded by isinstance({x}, SignalRef); {x} is stored in .{stored[x]}"
    # a local that merely selects among keyed operands (`c = left if isinstance(left, SignalRef) else right`) is a function of the key as well:
    # every name its definition reads is a parameter stored in a keyed slot (or a class name)
    from .util import canon as _canon_g
    cg = _canon_g(f)
    for g in guards:
        for sub in ast.walk(g.test):
            if isinstance(sub, ast.Call) and call_name(sub) == "isinstance" and len(sub.args) == 2 and "SignalRef" in norm(sub.args[1]) and isinstance(sub.args[0], ast.Name):
                expanded = cg.text(sub.args[0])
                names = {n_.id for n_ in ast.walk(ast.parse(expanded, mode="eval")) if isinstance(n_, ast.Name)} - {"isinstance", "SignalRef", "BundleRef"}
                if names and names <= set(stored):
                    return True, f"guarded by isinstance over `{expanded[:60]}`, a selection among the keyed operands {sorted(names)}"
    return False, f"guard operand(s) {xs} not stored in a keyed slot"


def _stmt_of(f: Func, node: ast.AST):
    from ..core import enclosing_stmt, parents_map

    return enclosing_stmt(parents_map(f.node), node)


def _body_stmts(body: list[ast.stmt]) -> list[ast.stmt]:
    out = []
    for s in body:
        for n in ast.walk(s):
            if isinstance(n, ast.stmt):
                out.append(n)
    return out


def _mentions_field(node: ast.AST, var: str, fld: str) -> bool:
    return any(isinstance(x, ast.Attribute) and x.attr == fld and isinstance(x.value, ast.Name) and x.value.id == var for x in ast.walk(node))


def _unconditional_read(node: ast.AST, var: str, fld: str) -> bool:
    """Is `var.fld` evaluated on every evaluation of `node` (not only on one arm of a conditional expression / short-circuit operand)?"""
    if isinstance(node, ast.Attribute) and node.attr == fld and isinstance(node.value, ast.Name) and node.value.id == var:
        return True
    if isinstance(node, ast.IfExp):
        return _unconditional_read(node.test, var, fld) or (_unconditional_read(node.body, var, fld) and _unconditional_read(node.orelse, var, fld))
    if isinstance(node, ast.BoolOp):
        return _unconditional_read(node.values[0], var, fld)
    if isinstance(node, ast.Call) and isinstance(node.func, ast.Name) and node.func.id == "ANY":
        return all(_unconditional_read(a, var, fld) for a in node.args)
    if isinstance(node, (ast.ListComp, ast.SetComp, ast.GeneratorExp, ast.DictComp, ast.Lambda)):
        return any(_unconditional_read(g.iter, var, fld) for g in getattr(node, "generators", [])[:1])
    return any(_unconditional_read(c, var, fld) for c in ast.iter_child_nodes(node))


