"""C08 Every emitted blueprint can be pasted — structural clauses.

R1 the hard no-overlap constraint is posted, for every entity, on every path that reaches the solver
R2 every footprint the compiler assigns covers the prototype's collision box (game data)
R3 span constants never exceed the reach of any prototype that can carry a routed circuit wire; relay hops and the 'no relay needed' answer are checked against the limit
R4 wires join two existing entities with one colour; sides come from the connector model
"""

from __future__ import annotations

import ast

from ..cfg import CFG, EXIT as EXIT_
from ..core import AnalysisError, Repo, Report, call_name, calls_in, kwarg, norm, parents_map, walk_local
from ..dataflow import DefUse
from ..gamedata import circuit_reach, proto, tile_extent
from ..pipeline import param_with_default
from ..sites import guard_chain
from .c18 import pole_config
from .util import canon, cguards, cguards_any, dict_of


def run(repo: Repo, rep: Report, tier: str) -> None:
    eng = repo.cls("IntegerLayoutEngine")
    # ---------------- R1 ---------------------------------------------------------------
    rep.rule("C08-R1", "every call of the CP-SAT solver is dominated by the call that posts AddNoOverlap2D over intervals built for every id in entity_ids "
             "from the (ceiled) footprints; fixed entities take part through their singleton-domain variables")
    n_solve = 0
    for m in eng.methods.values():
        cfg = CFG(m.node)
        solves = [s for s in cfg.stmts() if not isinstance(s, (ast.If, ast.For, ast.While, ast.Try, ast.With)) and any(call_name(c) == "Solve" for c in calls_in(s))]
        for s in solves:
            n_solve += 1
            posts = [t for t in cfg.stmts() if not isinstance(t, (ast.If, ast.For, ast.While)) and any(call_name(c) == "_add_no_overlap_constraint" for c in calls_in(t)) and cfg.dominates(t, s)]
            rep.check(bool(posts), "C08-R1", f"{m.short}: no-overlap constraint is posted before Solve call #{n_solve}",
                      "dominated by _add_no_overlap_constraint" if posts else "a path reaches Solve without the no-overlap constraint", m.loc(s))
    rep.floor("C08-R1", "solver invocations", n_solve, 2)
    ano = eng.methods["_add_no_overlap_constraint"]
    loops = [n for n in walk_local(ano.node) if isinstance(n, ast.For)]
    ok = bool(loops) and norm(loops[0].iter) == "self.entity_ids"
    rep.check(ok, "C08-R1", "intervals are built for every entity id", f"for ... in {norm(loops[0].iter)}" if loops else "", ano.loc())
    ivs = calls_in(ano.node, "NewFixedSizeIntervalVar")
    du = DefUse(ano)
    ok = len(ivs) == 2 and all(any("self.footprints" in norm(v) for v in du.value_exprs(norm(c.args[1]))) for c in ivs)
    rep.check(ok, "C08-R1", "interval sizes are the entity's footprint", "; ".join(norm(c)[:60] for c in ivs), ano.loc())
    no = calls_in(ano.node, "AddNoOverlap2D")
    pm = parents_map(ano.node)
    def _interval_list(a: ast.AST) -> bool:
        # a local list that receives NewFixedSizeIntervalVar results
        if not isinstance(a, ast.Name):
            return False
        for v, how, _st in du.defs.get(a.id, []):
            if how == "elem-add" and any(isinstance(x, ast.Call) and call_name(x) == "NewFixedSizeIntervalVar" for e in [v] + du.expand(v) for x in ast.walk(e)):
                return True
        return False
    ok = len(no) == 1 and not any(isinstance(pm.get(x), (ast.If,)) for x in [no[0]]) and len(no[0].args) == 2 and all(_interval_list(a) for a in no[0].args) and norm(no[0].args[0]) != norm(no[0].args[1])
    st = no[0] if no else None
    while st is not None and not isinstance(st, ast.stmt):
        st = pm[st]
    ok = ok and st in ano.node.body
    rep.check(ok, "C08-R1", "AddNoOverlap2D is posted unconditionally over all intervals", norm(no[0]) if no else "missing", ano.loc(no[0]) if no else ano.loc())
    ef = eng.methods["_extract_footprints"]
    ceil = any(call_name(c) == "ceil" for c in calls_in(ef.node))
    rep.check(ceil, "C08-R1", "footprints are rounded up to whole tiles", "np.ceil" if ceil else "no ceil", ef.loc())

    # the unchecked fallback placement is never emitted: when every strategy failed an error is reported (which raises) before it is returned
    opt_m = eng.methods["optimize"]
    cfg_o = CFG(opt_m.node)
    fb_rets = [s_ for s_ in cfg_o.stmts() if isinstance(s_, ast.Return) and s_.value is not None and any(call_name(k) == "_fallback_grid_layout" for k in calls_in(s_))]
    diag_calls = [s_ for s_ in cfg_o.stmts() if isinstance(s_, ast.Expr) and any(call_name(k) == "_diagnose_failure" for k in calls_in(s_))]
    rep.floor("C08-R1", "returns of the fallback grid placement", len(fb_rets), 1)
    for r_ in fb_rets:
        dom_ = any(cfg_o.dominates(d_, r_) for d_ in diag_calls)
        rep.check(dom_, "C08-R1", "the fallback grid placement (no overlap check) is returned only after the failure was diagnosed", "dominated by _diagnose_failure()" if dom_ else "fallback returned without diagnosing the failure", opt_m.loc(r_))
    dg = eng.methods["_diagnose_failure"]
    cfg_d = CFG(dg.node)
    is_err = lambda n_: isinstance(n_, ast.Expr) and isinstance(n_.value, ast.Call) and isinstance(n_.value.func, ast.Attribute) and n_.value.func.attr == "error" and "diagnostics" in norm(n_.value.func.value)  # noqa: E731
    escapes_ = cfg_d.reaches_avoiding("ENTRY", {id(EXIT_)}, lambda n_: is_err(n_) or isinstance(n_, ast.Raise))
    rep.check(not escapes_, "C08-R1", "_diagnose_failure reports an error on every path (with raise_errors the compilation stops; nothing unchecked is emitted)",
              "every normal exit passes diagnostics.error(...)" if not escapes_ else "a path leaves _diagnose_failure without an error: the overlap-unsafe fallback placement becomes the blueprint", dg.loc())

    # ---------------- R2 ---------------------------------------------------------------
    rep.rule("C08-R2", "every literal footprint assigned to a literal prototype is >= the tile extent of the prototype's collision box; "
             "get_footprint uses the prototype's tile size or the ceiled collision box")
    n_fp = 0
    for f in repo.all_funcs():
        for c in calls_in(f.node, "create_and_add_placement"):
            et, fp = kwarg(c, "entity_type"), kwarg(c, "footprint")
            if isinstance(et, ast.Constant) and isinstance(fp, ast.Tuple) and all(isinstance(e, ast.Constant) for e in fp.elts):
                n_fp += 1
                ext = tile_extent(et.value)
                got = tuple(e.value for e in fp.elts)
                rep.check(ext is not None and got[0] >= ext[0] and got[1] >= ext[1], "C08-R2", f"{f.short}: footprint {got} covers {et.value}", f"game extent {ext}", f.loc(c))
    rep.floor("C08-R2", "literal (prototype, footprint) pairs", n_fp, 8)
    for key, row in sorted(pole_config(repo).items()):
        ext = tile_extent(str(row["prototype"]))
        fp = tuple(row.get("footprint", (1, 1)))
        rep.check(ext is not None and fp[0] >= ext[0] and fp[1] >= ext[1], "C08-R2", f"pole '{key}' footprint {fp} covers {row['prototype']}", f"game extent {ext}", "dsl_compiler/src/layout/power_planner.py:1")
    gf = repo.func("EntityDataHelper.get_footprint")
    uses_tile = any(isinstance(n, ast.Constant) and n.value == "tile_width" for n in walk_local(gf.node))
    uses_ceil = any(call_name(c) == "ceil" for c in calls_in(gf.node)) and any(isinstance(n, ast.Constant) and n.value == "collision_box" for n in walk_local(gf.node))
    rep.check(uses_tile and uses_ceil, "C08-R2", "get_footprint derives the footprint from tile size or the ceiled collision box", f"tile_width:{uses_tile} ceil(collision_box):{uses_ceil}", gf.loc())

    # ---------------- R3 ---------------------------------------------------------------
    rep.rule("C08-R3", "every default wire-span constant is <= the circuit reach of every entity type the compiler emits and <= the wire reach of every prototype "
             "that can be a relay node (the relay literal and every POWER_POLE_CONFIG prototype registered as relay); `no relay` only under distance <= limit; every hop re-checked")
    spans = []
    for fname in ("LayoutPlanner.__init__", "ConnectionPlanner.__init__"):
        f = repo.func(fname)
        d = param_with_default(f, "max_wire_span")
        if d is None:
            raise AnalysisError(f"C08-R3: {fname} has no max_wire_span default")
        spans.append((f"{fname} max_wire_span", float(d.value), f.loc()))
    lc = repo.cls("LayoutConstraints")
    for st in lc.node.body:
        if isinstance(st, ast.AnnAssign) and norm(st.target) == "max_wire_span":
            spans.append(("LayoutConstraints.max_wire_span", float(st.value.value), lc.loc(st)))
    rep.floor("C08-R3", "span defaults", len(spans), 3)
    emitted = ["arithmetic-combinator", "decider-combinator", "constant-combinator"]
    relay_protos: dict[str, str] = {}
    fin = repo.func("RelayNetwork._finalize_relay_creation")
    for c in calls_in(fin.node, "add_relay_node"):
        if len(c.args) >= 3 and isinstance(c.args[2], ast.Constant):
            relay_protos[c.args[2].value] = "relay literal in _finalize_relay_creation"
    reg = repo.func("ConnectionPlanner._register_power_poles_as_relays")
    if calls_in(reg.node, "add_relay_node"):
        for key, row in pole_config(repo).items():
            relay_protos.setdefault(str(row["prototype"]), f"grid pole '{key}' registered as relay")
    rep.floor("C08-R3", "prototypes that can be relay nodes", len(relay_protos), 2)
    for label, val, loc in spans:
        for e in emitted:
            r = circuit_reach(e)
            rep.check(r is not None and val <= r, "C08-R3", f"{label} = {val} within the circuit reach of {e}", f"game reach {r}", loc)
    limit = max(v for _, v, _ in spans)
    for pname, why in sorted(relay_protos.items()):
        r = circuit_reach(pname)
        ok = r is not None and limit <= r
        rep.check(ok, "C08-R3", f"relay search limit {limit} within the wire reach of {pname}",
                  f"game reach {r} ({why})" + ("" if ok else ": the relay search uses one limit for all nodes, wires up to that length are attached to this pole"), "dsl_compiler/src/layout/connection_planner.py:91")
    rsig = repo.func("RelayNetwork.route_signal")
    pmr = parents_map(rsig.node)
    empties = [n for n in walk_local(rsig.node) if isinstance(n, ast.Return) and isinstance(n.value, ast.List) and not n.value.elts]
    ok = bool(empties) and all(any(t == "math.dist(source_pos, sink_pos) <= self.span_limit" and pol for t, pol in cguards_any(rsig, e)) for e in empties)
    rep.check(ok, "C08-R3", "`no relay needed` is answered only when the endpoints are within the limit", "return [] under distance <= self.span_limit", rsig.loc())
    sl = repo.func("RelayNetwork.span_limit")
    rs_ = [n for n in walk_local(sl.node) if isinstance(n, ast.Return)]
    rep.check(bool(rs_) and norm(rs_[0].value) in ("float(self.max_span)", "self.max_span"), "C08-R3", "span_limit is the configured span, not enlarged", norm(rs_[0].value) if rs_ else "", sl.loc())
    pcr = repo.func("RelayNetwork._plan_and_create_relay_path")
    pmp = parents_map(pcr.node)
    cpcr = canon(pcr)
    returned = {norm(n.value) for n in walk_local(pcr.node) if isinstance(n, ast.Return) and isinstance(n.value, ast.Name)}
    apps = [c for c in calls_in(pcr.node, "append") if isinstance(c.func, ast.Attribute) and norm(c.func.value) in returned]
    cfgp = CFG(pcr.node)
    def _over_limit(t: ast.AST) -> bool:
        return isinstance(t, ast.Compare) and len(t.ops) == 1 and isinstance(t.ops[0], ast.Gt) and cpcr.text(t.comparators[0]) == "span_limit" and cpcr.text(t.left).startswith("math.dist(")
    hop_checks = [s for s in cfgp.stmts() if isinstance(s, ast.If) and _over_limit(s.test) and s.body and isinstance(s.body[-1], ast.Return) and (s.body[-1].value is None or norm(s.body[-1].value) == "None")]
    ok = bool(apps) and bool(hop_checks)
    if ok:
        st = apps[0]
        while not isinstance(st, ast.stmt):
            st = pmp[st]
        ok = any(cfgp.dominates(h, st) for h in hop_checks)
    rep.check(ok, "C08-R3", "each relay hop is checked against the limit before it is appended", "dist(hop) > span_limit -> fail dominates the append to the returned path", pcr.loc())
    fins = [h for h in hop_checks if apps and not cfgp.dominates(h, st)] if ok else []
    rep.check(bool(fins), "C08-R3", "the last hop to the sink is checked against the limit", "dist(last relay, sink) > span_limit -> fail" if fins else "missing", pcr.loc())
    astar = repo.func("RelayNetwork._find_path_through_existing_relays")
    cast = canon(astar)
    ok = any(isinstance(n, ast.If) and isinstance(n.test, ast.Compare) and isinstance(n.test.ops[0], ast.Gt) and cast.text(n.test.comparators[0]) == "span_limit" and cast.text(n.test.left).startswith("math.dist(")
             and isinstance(n.body[-1], ast.Continue) for n in walk_local(astar.node))
    rep.check(ok, "C08-R3", "existing-relay search only follows hops within the limit", "dist > span_limit -> skip" if ok else "missing", astar.loc())

    # ---------------- R4 ---------------------------------------------------------------
    rep.rule("C08-R4", "add_circuit_connection is never called with a missing endpoint; one colour per wire; connector sides come from _get_connection_side")
    mc = repo.func("BlueprintEmitter._materialize_connections")
    cfgm = CFG(mc.node)
    adds = [s for s in cfgm.stmts() if not isinstance(s, (ast.If, ast.For, ast.Try)) and any(call_name(c) == "add_circuit_connection" for c in calls_in(s))]
    cmc = canon(mc)
    guards = [s for s in cfgm.stmts() if isinstance(s, ast.If) and cmc.text(s.test) == "entity_map.get(ELEM(layout_plan.wire_connections).source_entity_id) is None or entity_map.get(ELEM(layout_plan.wire_connections).sink_entity_id) is None" and isinstance(s.body[-1], ast.Continue)]
    rep.check(bool(adds) and bool(guards) and all(cfgm.dominates(guards[0], a) for a in adds), "C08-R4", "a wire with a missing endpoint is never materialised", "missing endpoint -> continue dominates add_circuit_connection", mc.loc())
    kw = [n for n in walk_local(mc.node) if isinstance(n, ast.Dict) and any(isinstance(k, ast.Constant) and k.value == "color" for k in n.keys)]
    W = "ELEM(layout_plan.wire_connections)"
    ok = bool(kw) and dict_of(kw[0], cmc) == {"color": f"{W}.wire_color", "entity_1": f"entity_map.get({W}.source_entity_id)", "entity_2": f"entity_map.get({W}.sink_entity_id)"}
    rep.check(ok, "C08-R4", "both ends use the wire's single colour and the looked-up entities", norm(kw[0]) if kw else "", mc.loc())
    wc = repo.cls("WireConnection")
    cols = [st.target.id for st in wc.node.body if isinstance(st, ast.AnnAssign) and "color" in st.target.id]
    rep.check(cols == ["wire_color"], "C08-R4", "a WireConnection carries exactly one colour", str(cols), wc.loc())
    gcs = repo.func("ConnectionPlanner._get_connection_side")
    rts = {norm(n.value) for n in walk_local(gcs.node) if isinstance(n, ast.Return) and n.value is not None}
    rep.check({"'output'", "'input'"} <= rts or {"'output' if is_source else 'input'"} <= rts, "C08-R4", "dual-connector entities get input/output sides", str(sorted(rts)), gcs.loc())

    # relay poles have a single connection point: a wire end that can be a relay pole carries no connector side
    rc = repo.func("ConnectionPlanner._create_relay_chain")
    crc = canon(rc)
    n_ends = 0
    for wcall in calls_in(rc.node, "WireConnection"):
        for end in ("source", "sink"):
            ide, side = kwarg(wcall, f"{end}_entity_id"), kwarg(wcall, f"{end}_side")
            if ide is None or side is None:
                continue
            id_alts, side_alts = crc.alts(ide), crc.alts(side)
            if not any("relay_path" in a for a in id_alts):
                continue
            n_ends += 1
            only_relay = all("relay_path" in a for a in id_alts)
            ok_side = ("None" in side_alts) and (not only_relay or side_alts == ["None"])
            rep.check(ok_side, "C08-R4", f"_create_relay_chain: the {end} end of a hop that can be a relay pole has no connector side",
                      f"{end} in {[a[-30:] for a in id_alts]}, side in {side_alts}" if ok_side else
                      f"{end} can be a relay pole ({[a[-30:] for a in id_alts]}) but its side is always {side_alts}: the wire is attached to a connector an electric pole does not have", rc.loc(wcall))
    rep.floor("C08-R4", "relay-chain wire ends that can be poles", n_ends, 3)
    # ... and the converse: an end that can be the original endpoint (a combinator with two connectors) keeps the side it was given
    n_orig = 0
    for wcall in calls_in(rc.node, "WireConnection"):
        for end in ("source", "sink"):
            ide, side = kwarg(wcall, f"{end}_entity_id"), kwarg(wcall, f"{end}_side")
            if ide is None:
                continue
            id_alts = crc.alts(ide)
            if f"{end}_id" not in id_alts:
                continue
            # a hop written after the loop over the relay path starts at the last relay (the chain branch is taken for a non-empty path only):
            # the original endpoint is a real alternative only for hops inside the loop (its first iteration) or hops with no relay alternative
            inside_loop = any(isinstance(lp_, ast.For) and "relay_path" in norm(lp_.iter) and any(x is wcall for x in ast.walk(lp_)) for lp_ in walk_local(rc.node))
            if any("relay_path" in a for a in id_alts) and not inside_loop:
                continue
            n_orig += 1
            side_alts = crc.alts(side) if side is not None else ["<omitted>"]
            ok_o = f"{end}_side" in side_alts
            rep.check(ok_o, "C08-R4", f"_create_relay_chain: the {end} end of a hop that can be the original {end} keeps its connector side",
                      f"side in {side_alts}" if ok_o else
                      f"{end} can be `{end}_id` (a combinator) but its side is {side_alts}: the first/last hop of a relayed connection is attached to the wrong connector of the combinator", rc.loc(wcall))
    rep.floor("C08-R4", "relay-chain wire ends that can be the original endpoints", n_orig, 2)

    # ---------------- R5 ---------------------------------------------------------------
    rep.rule("C08-R5", "axis agreement in occupancy/centre arithmetic of the layout modules: an expression `<pos>[i] +/- <footprint>[j] / 2` must have i == j "
             "(a crossed axis marks a non-square entity's tiles in the wrong place, so relays or poles can be put on top of it)")
    n_ax = 0

    def axis_of(e: ast.AST) -> set[int]:
        """Axes an (alpha-normalised) expression reads: constant subscripts 0/1 of position/footprint/tile values and tile_width/height."""
        out: set[int] = set()
        for x in ast.walk(e):
            if isinstance(x, ast.Subscript) and isinstance(x.slice, ast.Constant) and isinstance(x.slice.value, int) and not isinstance(x.slice.value, bool) and x.slice.value in (0, 1) \
                    and any(k in norm(x.value) for k in ("position", "footprint", "pos", "tile")):
                out.add(x.slice.value)
            if isinstance(x, ast.Attribute) and x.attr == "tile_width":
                out.add(0)
            if isinstance(x, ast.Attribute) and x.attr == "tile_height":
                out.add(1)
        return out

    for f in repo.all_funcs():
        if ".layout." not in f.module.name + ".":
            continue
        cf_ = None
        for n in walk_local(f.node):
            if isinstance(n, ast.BinOp) and isinstance(n.op, (ast.Add, ast.Sub)):
                cf_ = cf_ or canon(f)
                ln, rn_ = cf_.node(n.left), cf_.node(n.right)
                if "footprint" not in norm(rn_):
                    continue
                la, ra = axis_of(ln), axis_of(rn_)
                if len(la) != 1 or len(ra) != 1:
                    continue
                n_ax += 1
                rep.check(la == ra, "C08-R5", f"{f.short}: `{cf_.text(n.left)[-34:]} {'+' if isinstance(n.op, ast.Add) else '-'} {cf_.text(n.right)[-40:]}` uses one axis", "axes agree" if la == ra else f"x/y crossed: {norm(ln)[-50:]} with {norm(rn_)[-60:]}", f.loc(n))
    rep.floor("C08-R5", "axis-indexed footprint expressions", n_ax, 10)

    # ---------------- R6 ---------------------------------------------------------------
    rep.rule("C08-R6", "relay poles never join two circuit networks: network ids are distinct per (source, colour) and a relay is reused only for its own network (shared with C12-R1/R2)")
    cni = repo.func("ConnectionPlanner._compute_network_ids")
    cfg6 = CFG(cni.node)
    news = [s for s in cfg6.stmts() if isinstance(s, ast.If) and isinstance(s.test, ast.Compare) and isinstance(s.test.ops[0], ast.NotIn)]
    ok = False
    if news:
        assigns = [s for s in news[0].body if isinstance(s, ast.Assign) and isinstance(s.targets[0], ast.Subscript)]
        incs = [s for s in news[0].body if isinstance(s, ast.AugAssign) and isinstance(s.op, ast.Add)]
        ok = bool(assigns) and bool(incs) and norm(assigns[0].value) == norm(incs[0].target)
    rep.check(ok, "C08-R6", "every (source, colour) network gets its own id", "counter advances with each new key" if ok else "ids are not distinct: relays would be shared between networks", cni.loc())
    rn = repo.cls("RelayNode").methods["can_route_network"]
    ret = [n for n in walk_local(rn.node) if isinstance(n, ast.Return)]
    N_ = "self.networks_red if wire_color == 'red' else self.networks_green"
    rep.check(bool(ret) and canon(rn).text(ret[0].value) in (f"len({N_}) == 0 or network_id in ({N_})", f"not ({N_}) or network_id in ({N_})"), "C08-R6",
              "a relay carries a network only if the colour is free or already carries it", norm(ret[0].value) if ret else "", rn.loc())

    # ---------------- R7 ---------------------------------------------------------------
    rep.rule("C08-R7", "relay poles are placed against the final occupancy: in plan_layout every path from a step that moves, adds or removes placements (position optimisation, pole "
             "trimming, entity creation) to connection planning rebuilds the tile grid — by a direct rebuild, or in a callee that rebuilds on every one of its paths")
    lp7 = repo.cls("LayoutPlanner")
    pl7 = lp7.methods["plan_layout"]
    from ..cfg import ENTRY as ENTRY_

    def _self_calls(node):
        return {call_name(c) for c in calls_in(node) if isinstance(c.func, ast.Attribute) and isinstance(c.func.value, ast.Name) and c.func.value.id == "self"}

    def _rebuilds_directly(st):
        return any(call_name(c) == "rebuild_from_placements" for c in calls_in(st))

    def _must_rebuild(mname, depth=0):
        m = lp7.methods.get(mname)
        if m is None or depth > 2:
            return False
        g = CFG(m.node)
        blockers = [s for s in g.stmts() if not isinstance(s, (ast.If, ast.For, ast.While, ast.Try, ast.With)) and
                    (_rebuilds_directly(s) or any(_must_rebuild(k, depth + 1) for k in _self_calls(s)))]
        if not blockers:
            return False
        return not g.reaches_avoiding(ENTRY_, {id(EXIT_)}, lambda n: any(n is b for b in blockers), start_inclusive=False)

    def _mutates(mname, depth=0):
        m = lp7.methods.get(mname)
        if m is None or depth > 2:
            return False
        for x in walk_local(m.node):
            if isinstance(x, ast.Assign) and any(isinstance(t, ast.Attribute) and t.attr == "position" for t in x.targets):
                return True
            if isinstance(x, ast.Delete) and any("entity_placements" in norm(t) for t in x.targets):
                return True
            if isinstance(x, ast.Call) and call_name(x) in ("create_and_add_placement", "add_placement", "place_ir_operation", "place_power_poles", "add_power_pole_grid"):
                return True
        return any(_mutates(k, depth + 1) for k in _self_calls(m.node))

    g7 = CFG(pl7.node)
    simple7 = [s for s in g7.stmts() if not isinstance(s, (ast.If, ast.For, ast.While, ast.Try, ast.With))]
    plans7 = [s for s in simple7 if "_plan_connections" in _self_calls(s)]
    muts7 = [s for s in simple7 if any(_mutates(k) for k in _self_calls(s)) and s not in plans7]
    if not plans7 or len(muts7) < 2:
        raise AnalysisError(f"C08-R7: plan_layout anchors not found (connection planning calls: {len(plans7)}, placement-changing steps: {len(muts7)})")
    def _is_rebuild7(n):
        return isinstance(n, ast.stmt) and not isinstance(n, (ast.If, ast.For, ast.While, ast.Try, ast.With)) and (
            _rebuilds_directly(n) or any(_must_rebuild(k) for k in _self_calls(n)))
    rep.analysed["C08-R7:placement-changing steps of plan_layout"] = sorted({k for s in muts7 for k in _self_calls(s) if _mutates(k)})
    for s in muts7:
        names = sorted(k for k in _self_calls(s) if _mutates(k))
        # the step's own callee counts as a rebuild only when it rebuilds on every path (then the grid is fresh when it returns only if the rebuild comes last; a
        # later mutating step is checked on its own)
        stale = g7.reaches_avoiding(s, {id(p) for p in plans7}, _is_rebuild7, start_inclusive=False)
        rep.check(not stale, "C08-R7", f"plan_layout: the tile grid is rebuilt between `{names[0]}` and connection planning",
                  "every path passes a rebuild" if not stale else
                  f"a path from `{names[0]}` reaches `_plan_connections` with the grid of an earlier stage (a callee that returns early does not count): relay poles are then "
                  "placed on tiles that the optimised entities occupy", pl7.loc(s))

    # ---------------- R8 ---------------------------------------------------------------
    rep.rule("C08-R8", "a relay pole is booked where it stands: in every function that both registers a relay node (add_relay_node(position, id, ...)) and creates its placement "
             "(create_and_add_placement(ir_node_id=id, position=...)), the two positions are the same expression — reach checks and relay reuse measure from the registered point, "
             "the wire is attached to the placed pole")
    n8 = 0
    for f8 in repo.all_funcs():
        regs = [c for c in calls_in(f8.node, "add_relay_node") if len(c.args) >= 2]
        plcs = [c for c in calls_in(f8.node, "create_and_add_placement") if kwarg(c, "position") is not None and kwarg(c, "ir_node_id") is not None]
        if not regs or not plcs:
            continue
        c8 = canon(f8)
        for r8 in regs:
            for p8 in plcs:
                if c8.text(r8.args[1]) != c8.text(kwarg(p8, "ir_node_id")):
                    continue
                n8 += 1
                a8, b8 = c8.text(r8.args[0]), c8.text(kwarg(p8, "position"))
                rep.check(a8 == b8, "C08-R8", f"{f8.short}: relay node and placement share one position", a8[:80] if a8 == b8 else
                          f"node registered at `{a8[:60]}`, pole placed at `{b8[:60]}`: hops are measured from a point up to several tiles away from the pole and can exceed the wire reach", f8.loc(r8))
    rep.floor("C08-R8", "relay registration/placement pairs", n8, 1)

    # ---------------- R9 ---------------------------------------------------------------
    from .shared import borrow as _borrow8
    _borrow8(repo, rep, "C12", "C12-R2", "C08-R9", "a wire of one network never ends on a pole that carries another: every relay that is handed out for a hop — reused or new — is "
             "booked for the network before the hop is used", floor=4)
