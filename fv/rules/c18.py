"""C18 Requested power poles power everything and form one grid — structural clauses.

R1 POWER_POLE_CONFIG agrees with the game data (prototype, supply radius, copper reach, footprint)
R2 grid spacing <= 2 x supply radius, first pole at most one radius inside
R3 option gating: poles only under a truthy --power-poles value that flows unchanged from both CLIs; other pole creators are relays
R4 copper wires are added only within the reach of both poles
R5 only flagged grid poles are trimmed, and only when no entity centre is within the radius
"""

from __future__ import annotations

import ast

from ..cfg import CFG
from ..core import AnalysisError, NotConstant, Repo, Report, call_name, calls_in, kwarg, module_const, norm, parents_map, walk_local
from ..dataflow import DefUse
from ..gamedata import proto, tile_extent
from ..pipeline import compile_funcs, mains
from ..sites import guard_chain


def pole_config(repo: Repo) -> dict:
    try:
        return dict(module_const(repo, repo.module("layout.power_planner"), "POWER_POLE_CONFIG"))
    except NotConstant as e:
        raise AnalysisError(f"POWER_POLE_CONFIG is not literal data: {e}") from e


def run(repo: Repo, rep: Report, tier: str) -> None:
    cfgtab = pole_config(repo)
    pmod = repo.module("layout.power_planner")
    rep.floor("C18-R1", "pole types in POWER_POLE_CONFIG", len(cfgtab), 4)
    rep.rule("C18-R1", "per row: the prototype exists; supply_radius <= the game's supply_area_distance; wire_reach <= maximum_wire_distance; footprint >= tile extent of the collision box")
    for key, row in sorted(cfgtab.items()):
        p = proto(str(row.get("prototype")))
        rep.check(p is not None, "C18-R1", f"POWER_POLE_CONFIG['{key}'].prototype exists in the game data", str(row.get("prototype")), pmod.rel + ":1")
        if p is None:
            continue
        sad, mwd = p.get("supply_area_distance"), p.get("maximum_wire_distance")
        rep.check(sad is not None and float(row["supply_radius"]) <= float(sad), "C18-R1", f"POWER_POLE_CONFIG['{key}'].supply_radius within the prototype's supply area",
                  f"table {row['supply_radius']} vs game {sad}" + ("" if sad is not None and float(row['supply_radius']) <= float(sad) else ": the grid is spaced for an area the pole does not supply"), pmod.rel + ":1")
        rep.check(mwd is not None and float(row["wire_reach"]) <= float(mwd), "C18-R1", f"POWER_POLE_CONFIG['{key}'].wire_reach within the prototype's wire reach",
                  f"table {row['wire_reach']} vs game {mwd}", pmod.rel + ":1")
        ext = tile_extent(str(row["prototype"]))
        fp = tuple(row.get("footprint", (1, 1)))
        rep.check(ext is not None and fp[0] >= ext[0] and fp[1] >= ext[1], "C18-R1", f"POWER_POLE_CONFIG['{key}'].footprint covers the collision box", f"table {fp} vs game {ext}", pmod.rel + ":1")

    # ---------------- R2 ---------------------------------------------------------------
    rep.rule("C18-R2", "grid step = k * supply_radius with k <= 2 in both axes (the same step drives x and y); the first pole sits at most one radius inside the covered area")
    grid = repo.func("PowerPlanner.add_power_pole_grid")
    du = DefUse(grid)
    sp = [v for v in du.value_exprs("spacing")]
    ok = False
    detail = "no spacing expression"
    if sp:
        e = sp[0]
        detail = norm(e)
        if isinstance(e, ast.BinOp) and isinstance(e.op, ast.Mult):
            consts = [x for x in (e.left, e.right) if isinstance(x, ast.Constant)]
            names = [x for x in (e.left, e.right) if isinstance(x, ast.Name)]
            ok = bool(consts) and bool(names) and float(consts[0].value) <= 2.0 and names[0].id == "supply_radius"
    rep.check(ok, "C18-R2", "grid step is at most twice the supply radius", f"spacing = {detail}", grid.loc())
    sr = {str(l) for l in du.leaves(ast.Name(id="supply_radius", ctx=ast.Load()))}
    rep.check(any("POWER_POLE_CONFIG" in s for s in sr) and any("'supply_radius'" in norm(v) for v in du.value_exprs("supply_radius_raw")), "C18-R2", "the radius is the configured row's supply_radius",
              "; ".join(norm(v) for v in du.value_exprs("supply_radius_raw")), grid.loc())
    steps = [n for n in walk_local(grid.node) if isinstance(n, ast.AugAssign) and isinstance(n.op, ast.Add) and norm(n.target) in ("x", "y")]
    rep.check(len(steps) >= 2 and all(norm(s.value) == "spacing" for s in steps), "C18-R2", "both axes advance by the grid step", "; ".join(norm(s) for s in steps), grid.loc())
    bo = du.value_exprs("base_offset")
    ok = bool(bo) and norm(bo[0]).replace(" ", "") in ("-spacing/2.0+footprint[0]/2.0", "-spacing/2+footprint[0]/2")
    rep.check(ok, "C18-R2", "first pole at most one radius inside the area", norm(bo[0]) if bo else "", grid.loc())
    whiles = [n for n in walk_local(grid.node) if isinstance(n, ast.While)]
    ok = len(whiles) == 2 and {norm(w.test) for w in whiles} == {"x < end_x", "y < end_y"}
    rep.check(ok, "C18-R2", "the grid spans the whole estimated area in both axes", "; ".join(norm(w.test) for w in whiles), grid.loc())

    # ---------------- R3 ---------------------------------------------------------------
    rep.rule("C18-R3", "PowerPlanner is constructed only under a truthy power_pole_type, which flows unchanged from the CLI option in both mains; "
             "every other creator of an electric pole is a circuit relay")
    lp = repo.cls("LayoutPlanner")
    apg = lp.methods["_add_power_pole_grid"]
    cfg = CFG(apg.node)
    gate = [s for s in cfg.stmts() if isinstance(s, ast.If) and norm(s.test) == "not self.power_pole_type" and s.body and isinstance(s.body[-1], ast.Return)]
    ctors = [s for s in cfg.stmts() if not isinstance(s, (ast.If, ast.ImportFrom)) and any(call_name(c) == "PowerPlanner" for c in calls_in(s))]
    rep.check(bool(gate) and bool(ctors) and all(cfg.dominates(gate[0], c) for c in ctors), "C18-R3", "pole grid is built only when the option is set",
              "early return on `not self.power_pole_type` dominates the PowerPlanner construction", apg.loc())
    others = [f for f in repo.all_funcs() if f.qual != apg.qual and any(call_name(c) == "PowerPlanner" for c in calls_in(f.node))]
    rep.check(not others, "C18-R3", "no other construction site of PowerPlanner", str([f.short for f in others]), apg.loc())
    init = lp.methods["__init__"]
    st = [n for n in walk_local(init.node) if isinstance(n, ast.Assign) and norm(n.targets[0]) == "self.power_pole_type"]
    rep.check(bool(st) and norm(st[0].value) == "power_pole_type", "C18-R3", "LayoutPlanner stores the option unchanged", norm(st[0]) if st else "", init.loc())
    for cf in compile_funcs(repo):
        for c in calls_in(cf.node, "LayoutPlanner"):
            v = kwarg(c, "power_pole_type")
            rep.check(v is not None and norm(v) == "power_pole_type", "C18-R3", f"{cf.short} passes power_pole_type through", f"power_pole_type={norm(v)}", cf.loc(c))
    for mf, cf in mains(repo):
        for c in calls_in(mf.node, cf.name):
            v = kwarg(c, "power_pole_type")
            rep.check(v is not None and norm(v) == "power_poles", "C18-R3", f"{mf.qual} passes --power-poles through", f"power_pole_type={norm(v)}", mf.loc(c))
    pole_protos = {str(r["prototype"]) for r in cfgtab.values()}
    n_creators = 0
    for f in repo.all_funcs():
        for c in calls_in(f.node, "create_and_add_placement"):
            et = kwarg(c, "entity_type")
            if et is None:
                continue
            lit = et.value if isinstance(et, ast.Constant) else None
            is_pole = (lit in pole_protos) or (isinstance(et, ast.Name) and f.short.startswith("PowerPlanner."))
            if not is_pole:
                continue
            n_creators += 1
            role = kwarg(c, "role")
            r = role.value if isinstance(role, ast.Constant) else None
            ok = (f.short.startswith("PowerPlanner.") and r == "power_pole" and kwarg(c, "is_power_pole") is not None) or r == "wire_relay"
            rep.check(ok, "C18-R3", f"{f.short} creates an electric pole only as {'grid pole' if f.short.startswith('PowerPlanner.') else 'circuit relay'}", f"role={r}", f.loc(c))
    rep.floor("C18-R3", "electric-pole creation sites", n_creators, 2)

    # ---------------- R4 ---------------------------------------------------------------
    rep.rule("C18-R4", "add_power_connection is guarded by dist <= min(reach of both poles), using the entities' own reach")
    cp = repo.func("BlueprintEmitter._connect_pole_to_nearest")
    pm = parents_map(cp.node)
    adds = calls_in(cp.node, "add_power_connection")
    rep.floor("C18-R4", "copper connection sites", len(adds), 1)
    for a in adds:
        st = a
        while not isinstance(st, ast.stmt):
            st = pm[st]
        gs = [norm(t) for t, pol in guard_chain(cp, st, pm) if pol]
        ok = any(g.startswith("dist <= min(") and g.count("maximum_wire_distance") == 2 for g in gs)
        rep.check(ok, "C18-R4", "copper wire only within the reach of both poles", "; ".join(gs), cp.loc(a))

    # ---------------- R5 ---------------------------------------------------------------
    rep.rule("C18-R5", "a pole is trimmed only if it carries the grid-pole flag and no non-pole entity centre lies within the supply radius in both axes")
    tr = lp.methods["_trim_power_poles"]
    pmt = parents_map(tr.node)
    apps = [c for c in calls_in(tr.node, "append") if norm(c.func).startswith("poles_to_remove")]
    rep.floor("C18-R5", "trim decisions", len(apps), 1)
    for a in apps:
        st = a
        while not isinstance(st, ast.stmt):
            st = pmt[st]
        gs = [(norm(t), pol) for t, pol in guard_chain(tr, st, pmt)]
        flagged = any("is_power_pole" in g and g.startswith("not ") and not pol for g, pol in gs)
        uncovered = any(g == "not covers_any" and pol for g, pol in gs)
        rep.check(flagged and uncovered, "C18-R5", "only flagged, non-covering poles are trimmed", "; ".join(("" if p else "NOT ") + g for g, p in gs), tr.loc(a))
    cov = [n for n in walk_local(tr.node) if isinstance(n, ast.If) and "supply_radius" in norm(n.test) and "dx" in norm(n.test)]
    ok = bool(cov) and norm(cov[0].test) == "dx <= supply_radius and dy <= supply_radius" and any(isinstance(s, ast.Assign) and norm(s) == "covers_any = True" for s in cov[0].body)
    rep.check(ok, "C18-R5", "coverage test is |dx| <= r and |dy| <= r", norm(cov[0].test) if cov else "", tr.loc(cov[0]) if cov else tr.loc())
