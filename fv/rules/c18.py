"""C18 Requested power poles power everything and form one grid — structural clauses.

R1 POWER_POLE_CONFIG agrees with the game data (prototype, supply radius, copper reach, footprint)
R2 grid spacing <= 2 x supply radius, first pole at most one radius inside
R3 option gating: poles only under a truthy --power-poles value that flows unchanged from both CLIs; other pole creators are relays
R4 copper wires are added only within the reach of both poles
R5 only flagged grid poles are trimmed, and only when no entity centre is within the radius
"""

from __future__ import annotations

import ast

from ..cfg import CFG
from ..core import AnalysisError, NotConstant, Repo, Report, call_name, calls_in, kwarg, module_const, norm, parents_map, walk_local
from ..dataflow import DefUse
from ..gamedata import proto, tile_extent
from ..pipeline import compile_funcs, mains
from ..sites import guard_chain
from .util import canon, cguards, rtext
import re


def pole_config(repo: Repo) -> dict:
    try:
        return dict(module_const(repo, repo.module("layout.power_planner"), "POWER_POLE_CONFIG"))
    except NotConstant as e:
        raise AnalysisError(f"POWER_POLE_CONFIG is not literal data: {e}") from e


def run(repo: Repo, rep: Report, tier: str) -> None:
    cfgtab = pole_config(repo)
    pmod = repo.module("layout.power_planner")
    rep.floor("C18-R1", "pole types in POWER_POLE_CONFIG", len(cfgtab), 4)
    rep.rule("C18-R1", "per row: the prototype exists; supply_radius <= the game's supply_area_distance; wire_reach <= maximum_wire_distance; footprint >= tile extent of the collision box")
    for key, row in sorted(cfgtab.items()):
        p = proto(str(row.get("prototype")))
        rep.check(p is not None, "C18-R1", f"POWER_POLE_CONFIG['{key}'].prototype exists in the game data", str(row.get("prototype")), pmod.rel + ":1")
        if p is None:
            continue
        sad, mwd = p.get("supply_area_distance"), p.get("maximum_wire_distance")
        rep.check(sad is not None and float(row["supply_radius"]) <= float(sad), "C18-R1", f"POWER_POLE_CONFIG['{key}'].supply_radius within the prototype's supply area",
                  f"table {row['supply_radius']} vs game {sad}" + ("" if sad is not None and float(row['supply_radius']) <= float(sad) else ": the grid is spaced for an area the pole does not supply"), pmod.rel + ":1")
        rep.check(mwd is not None and float(row["wire_reach"]) <= float(mwd), "C18-R1", f"POWER_POLE_CONFIG['{key}'].wire_reach within the prototype's wire reach",
                  f"table {row['wire_reach']} vs game {mwd}", pmod.rel + ":1")
        ext = tile_extent(str(row["prototype"]))
        fp = tuple(row.get("footprint", (1, 1)))
        rep.check(ext is not None and fp[0] >= ext[0] and fp[1] >= ext[1], "C18-R1", f"POWER_POLE_CONFIG['{key}'].footprint covers the collision box", f"table {fp} vs game {ext}", pmod.rel + ":1")

    # ---------------- R2 ---------------------------------------------------------------
    rep.rule("C18-R2", "grid step = k * supply_radius with k <= 2 in both axes (the same step drives x and y); the first pole sits at most one radius inside the covered area")
    grid = repo.func("PowerPlanner.add_power_pole_grid")
    du = DefUse(grid)
    cg = canon(grid)
    roles: dict[str, str] = {}
    # radius: a local whose every definition is 0.0 or float(<config row>['supply_radius'])
    for nm, ds in du.defs.items():
        vals = [v for v, how, _ in ds if how == "assign"]
        if vals and all(isinstance(v, ast.Constant) and v.value == 0.0 or (isinstance(v, ast.Call) and call_name(v) == "float" and "['supply_radius']" in cg.text(v) and "POWER_POLE_CONFIG" in cg.text(v)) for v in vals) \
                and any(isinstance(v, ast.Call) for v in vals):
            roles[nm] = "R"
    # step: a local defined once as k * R
    step_defs = []
    for nm, ds in du.defs.items():
        vals = [v for v, how, _ in ds if how == "assign"]
        if len(vals) == 1 and isinstance(vals[0], ast.BinOp) and isinstance(vals[0].op, ast.Mult) and any(isinstance(x, ast.Name) and roles.get(x.id) == "R" for x in (vals[0].left, vals[0].right)):
            roles[nm] = "S"
            step_defs.append(vals[0])
    for nm, ds in du.defs.items():
        if nm not in roles and any("footprint" in norm(v) for v, how, _ in ds if how == "assign") and any(isinstance(v, ast.Tuple) for v, how, _ in ds):
            roles[nm] = "F"
    ok = False
    detail = "no `k * supply radius` step expression"
    if len(step_defs) == 1:
        e = step_defs[0]
        detail = rtext(e, roles)
        consts = [x for x in (e.left, e.right) if isinstance(x, ast.Constant)]
        ok = bool(consts) and float(consts[0].value) <= 2.0
    rep.check(ok, "C18-R2", "grid step is at most twice the supply radius", f"step = {detail}", grid.loc())
    rnames = [nm for nm, r in roles.items() if r == "R"]
    rep.check(len(rnames) == 1, "C18-R2", "the radius is the configured row's supply_radius", "radius = float(POWER_POLE_CONFIG[...]['supply_radius']) (or 0.0)" if rnames else "no local holds the configured supply_radius", grid.loc())
    whiles = [n for n in walk_local(grid.node) if isinstance(n, ast.While)]
    axes = []
    for w in whiles:
        if isinstance(w.test, ast.Compare) and len(w.test.ops) == 1 and isinstance(w.test.ops[0], ast.Lt) and isinstance(w.test.left, ast.Name):
            axes.append((w, w.test.left.id))
    steps = [n for n in walk_local(grid.node) if isinstance(n, ast.AugAssign) and isinstance(n.op, ast.Add) and norm(n.target) in {a for _, a in axes}]
    rep.check(len(axes) == 2 and len({a for _, a in axes}) == 2 and len(steps) >= 2 and all(rtext(s_.value, roles) == "S" for s_ in steps) and {norm(s_.target) for s_ in steps} == {a for _, a in axes},
              "C18-R2", "both axes advance by the grid step", "; ".join(rtext(s_, roles) for s_ in steps), grid.loc())
    # the first pole: both axis variables start at <offset> + B with B = -S/2 + F[0]/2
    bases = [nm for nm, ds in du.defs.items() if any(rtext(v, roles).replace(" ", "") in ("-S/2.0+F[0]/2.0", "-S/2+F[0]/2") for v, how, _ in ds if how == "assign")]
    ok = len(bases) == 1 and len(axes) == 2
    if ok:
        for _w, a in axes:
            t = cg.text(ast.Name(id=a, ctx=ast.Load()), at=_w)
            ok = ok and cg.text(ast.Name(id=bases[0], ctx=ast.Load()), at=_w) in t
    rep.check(ok, "C18-R2", "first pole at most one radius inside the area", f"start = offset + (-S / 2 + F[0] / 2)" if ok else f"base offset locals: {bases}", grid.loc())
    ok = len(axes) == 2 and all("math.sqrt(len(self.layout_plan.entity_placements)" in cg.text(w.test.comparators[0]) for w, _ in axes)
    rep.check(ok, "C18-R2", "the grid spans the whole estimated area in both axes", "; ".join(rtext(w.test, roles) for w in whiles), grid.loc())

    # the covered rectangle is anchored at the origin: the user-extent accumulators start from 0
    accs = []
    for nm, ds in du.defs.items():
        upd = [v for v, how, _ in ds if how.startswith("assign") and isinstance(v, ast.Call) and call_name(v) in ("min", "max") and any(isinstance(a, ast.Name) and a.id == nm for a in v.args)]
        if upd:
            seeds = [v for v, how, _ in ds if how.startswith("assign") and v not in upd]
            accs.append((nm, call_name(upd[0]), seeds))
    rep.floor("C18-R2", "bounding-box accumulators over user positions", len(accs), 4)
    broles = {nm: ("LO" if kind == "min" else "HI") for nm, kind, _ in accs}
    alldefs = [v for ds in du.defs.values() for v, how, _ in ds if how.startswith("assign")]
    n_extent = sum(1 for v in alldefs if re.fullmatch(r"max\(\w+, HI - LO \+ 2 \* \w+\)", rtext(v, broles)))
    n_start = sum(1 for v in alldefs if re.fullmatch(r"min\(0(\.0)?, LO\) - \w+", rtext(v, broles)))
    if n_extent < 2 or n_start < 2:
        raise AnalysisError("C18-R2: extent formulas of the pole grid (extent = max(estimate, HI - LO + 2*margin), start = min(0, LO) - margin) not recognised; the seed rule below is derived from them")
    # with these formulas the far edge is start + extent >= HI + margin only if LO <= 0, and the origin area [0, estimate] stays inside only if HI >= 0
    for nm, kind, seeds in accs:
        vals = [float(v.value) if isinstance(v, ast.Constant) and isinstance(v.value, (int, float)) and not isinstance(v.value, bool) else None for v in seeds]
        ok = bool(vals) and all(x is not None and (x <= 0.0 if kind == "min" else x >= 0.0) and abs(x) != float("inf") for x in vals)
        role = f"{kind}-accumulator #{[a_ for a_, k, _ in accs if k == kind].index(nm) + 1}"
        rep.check(ok, "C18-R2", f"user bounding box {role} starts on the origin side (start + extent reaches every user entity and the solver's area around the origin)",
                  f"seed {vals}" if ok else f"seeded with {[norm(v) for v in seeds]}: extent = HI - LO + 2*margin measured from start = min(0, LO) - margin no longer reaches HI when every user entity lies on one side of the origin", grid.loc())

    # ---------------- R3 ---------------------------------------------------------------
    rep.rule("C18-R3", "PowerPlanner is constructed only under a truthy power_pole_type, which flows unchanged from the CLI option in both mains; "
             "every other creator of an electric pole is a circuit relay")
    lp = repo.cls("LayoutPlanner")
    apg = lp.methods["_add_power_pole_grid"]
    cfg = CFG(apg.node)
    gate = [s for s in cfg.stmts() if isinstance(s, ast.If) and norm(s.test) == "not self.power_pole_type" and s.body and isinstance(s.body[-1], ast.Return)]
    ctors = [s for s in cfg.stmts() if not isinstance(s, (ast.If, ast.ImportFrom)) and any(call_name(c) == "PowerPlanner" for c in calls_in(s))]
    rep.check(bool(gate) and bool(ctors) and all(cfg.dominates(gate[0], c) for c in ctors), "C18-R3", "pole grid is built only when the option is set",
              "early return on `not self.power_pole_type` dominates the PowerPlanner construction", apg.loc())
    others = [f for f in repo.all_funcs() if f.qual != apg.qual and any(call_name(c) == "PowerPlanner" for c in calls_in(f.node))]
    rep.check(not others, "C18-R3", "no other construction site of PowerPlanner", str([f.short for f in others]), apg.loc())
    init = lp.methods["__init__"]
    st = [n for n in walk_local(init.node) if isinstance(n, ast.Assign) and norm(n.targets[0]) == "self.power_pole_type"]
    rep.check(bool(st) and norm(st[0].value) == "power_pole_type", "C18-R3", "LayoutPlanner stores the option unchanged", norm(st[0]) if st else "", init.loc())
    for cf in compile_funcs(repo):
        for c in calls_in(cf.node, "LayoutPlanner"):
            v = kwarg(c, "power_pole_type")
            rep.check(v is not None and norm(v) == "power_pole_type", "C18-R3", f"{cf.short} passes power_pole_type through", f"power_pole_type={norm(v)}", cf.loc(c))
    for mf, cf in mains(repo):
        for c in calls_in(mf.node, cf.name):
            v = kwarg(c, "power_pole_type")
            rep.check(v is not None and norm(v) == "power_poles", "C18-R3", f"{mf.qual} passes --power-poles through", f"power_pole_type={norm(v)}", mf.loc(c))
    pole_protos = {str(r["prototype"]) for r in cfgtab.values()}
    n_creators = 0
    for f in repo.all_funcs():
        for c in calls_in(f.node, "create_and_add_placement"):
            et = kwarg(c, "entity_type")
            if et is None:
                continue
            lit = et.value if isinstance(et, ast.Constant) else None
            is_pole = (lit in pole_protos) or (isinstance(et, ast.Name) and f.short.startswith("PowerPlanner."))
            if not is_pole:
                continue
            n_creators += 1
            role = kwarg(c, "role")
            r = role.value if isinstance(role, ast.Constant) else None
            ok = (f.short.startswith("PowerPlanner.") and r == "power_pole" and kwarg(c, "is_power_pole") is not None) or r == "wire_relay"
            rep.check(ok, "C18-R3", f"{f.short} creates an electric pole only as {'grid pole' if f.short.startswith('PowerPlanner.') else 'circuit relay'}", f"role={r}", f.loc(c))
    rep.floor("C18-R3", "electric-pole creation sites", n_creators, 2)

    # ---------------- R4 ---------------------------------------------------------------
    rep.rule("C18-R4", "add_power_connection is guarded by dist <= min(reach of both poles), using the entities' own reach")
    cp = repo.func("BlueprintEmitter._connect_pole_to_nearest")
    pm = parents_map(cp.node)
    adds = calls_in(cp.node, "add_power_connection")
    rep.floor("C18-R4", "copper connection sites", len(adds), 1)
    for a in adds:
        st = a
        while not isinstance(st, ast.stmt):
            st = pm[st]
        ccp = canon(cp)
        ends = {ccp.text(x) for x in a.args[:2]}
        ok = False
        gs = []
        for t, pol in guard_chain(cp, st, pm):
            gs.append(("" if pol else "not ") + norm(t))
            if pol and isinstance(t, ast.Compare) and len(t.ops) == 1 and isinstance(t.ops[0], (ast.LtE, ast.Lt)) and isinstance(t.comparators[0], ast.Call) and call_name(t.comparators[0]) == "min" \
                    and len(t.comparators[0].args) == 2 and all(isinstance(x, ast.Attribute) and x.attr == "maximum_wire_distance" for x in t.comparators[0].args) \
                    and {ccp.text(x.value) for x in t.comparators[0].args} == ends and len(ends) == 2 and "distance(" in ccp.text(t.left):
                ok = True
        rep.check(ok, "C18-R4", "copper wire only within the reach of both poles", "; ".join(gs), cp.loc(a))

    # ---------------- R5 ---------------------------------------------------------------
    rep.rule("C18-R5", "a pole is trimmed only if it carries the grid-pole flag and no non-pole entity centre lies within the supply radius in both axes")
    tr = lp.methods["_trim_power_poles"]
    pmt = parents_map(tr.node)
    ctr = canon(tr)
    # the list of ids that is later deleted from entity_placements
    del_lists = set()
    for n in walk_local(tr.node):
        if isinstance(n, ast.For) and isinstance(n.iter, ast.Name) and any(isinstance(x, ast.Delete) or (isinstance(x, ast.Call) and call_name(x) == "pop") for x in ast.walk(n)):
            del_lists.add(n.iter.id)
    apps = [c for c in calls_in(tr.node, "append") if isinstance(c.func, ast.Attribute) and isinstance(c.func.value, ast.Name) and c.func.value.id in del_lists]
    rep.floor("C18-R5", "trim decisions", len(apps), 1)
    dut = DefUse(tr)
    # the coverage flag: a local set to True under a conjunction of two `<=` comparisons
    cov = []
    for n_ in walk_local(tr.node):
        if isinstance(n_, ast.Assign) and isinstance(n_.targets[0], ast.Name) and norm(n_.value) == "True":
            for t_, pol_ in guard_chain(tr, n_, pmt):
                if pol_ and isinstance(t_, ast.BoolOp) and isinstance(t_.op, ast.And) and len(t_.values) == 2 and all(isinstance(v, ast.Compare) and isinstance(v.ops[0], ast.LtE) for v in t_.values):
                    cov.append((n_, t_))
    flag_names = {n_.targets[0].id for n_, _t in cov}
    for a in apps:
        gs = cguards(tr, a)
        raw = [(norm(t), pol) for t, pol in guard_chain(tr, __import__("fv.rules.util", fromlist=["stmt_of"]).stmt_of(tr, a), pmt)]
        flagged = any("is_power_pole" in g and not g.startswith("not ") and pol for g, pol in gs)
        uncovered = any((not pol) and g in flag_names for g, pol in raw)
        rep.check(flagged and uncovered, "C18-R5", "only flagged, non-covering poles are trimmed", "; ".join(("" if p else "NOT ") + g[:80] for g, p in gs), tr.loc(a))
    ok = False
    shown = ""
    if cov:
        t0, t1 = (ctr.text(v, at=cov[0][0]) for v in cov[0][1].values)
        shown = f"{t0[-60:]} and {t1[-60:]}"
        m0 = re.fullmatch(r"abs\((.+)\[0\] - (.+)\[0\]\) <= (.+)", t0)
        m1 = re.fullmatch(r"abs\((.+)\[1\] - (.+)\[1\]\) <= (.+)", t1)
        ok = m0 is not None and m1 is not None and m0.group(3) == m1.group(3) and "supply_radius" in m0.group(3) and {m0.group(1), m0.group(2)} == {m1.group(1), m1.group(2)}
    rep.check(ok, "C18-R5", "coverage test is |dx| <= r and |dy| <= r", shown, tr.loc(cov[0][0]) if cov else tr.loc())

    # ---------------- R6 ---------------------------------------------------------------
    from .shared import borrow as _borrow18
    _borrow18(repo, rep, "C12", "C12-R2", "C18-R6", "requested poles double as wire relays without joining circuits: every relay (pre-registered poles included) records the network it carries and is reused only for that network", floor=4)

    # ---------------- R7 ---------------------------------------------------------------
    rep.rule("C18-R7", "adding poles does not change the circuit: once connections are planned (the router may run wires over grid poles), no step removes a placement until the plan "
             "is started afresh — pole trimming comes before connection planning, so every wire end still exists when the blueprint is emitted")
    lp7 = repo.cls("LayoutPlanner")
    pl7 = lp7.methods["plan_layout"]
    g7 = CFG(pl7.node)

    def _self_calls7(node):
        return {call_name(c) for c in calls_in(node) if isinstance(c.func, ast.Attribute) and isinstance(c.func.value, ast.Name) and c.func.value.id == "self"}

    def _deletes7(mname, depth=0):
        m = lp7.methods.get(mname)
        if m is None or depth > 2:
            return False
        if any(isinstance(x, ast.Delete) and any("entity_placements" in norm(t) for t in x.targets) for x in walk_local(m.node)):
            return True
        if any(isinstance(x, ast.Call) and call_name(x) == "pop" and "entity_placements" in norm(x.func.value) for x in walk_local(m.node)):
            return True
        return any(_deletes7(k, depth + 1) for k in _self_calls7(m.node))

    def _restarts7(mname):
        m = lp7.methods.get(mname)
        return m is not None and any(isinstance(x, ast.Assign) and norm(x.targets[0]) == "self.layout_plan" and isinstance(x.value, ast.Call) for x in walk_local(m.node))

    simple7 = [s for s in g7.stmts() if not isinstance(s, (ast.If, ast.For, ast.While, ast.Try, ast.With))]
    plans7 = [s for s in simple7 if "_plan_connections" in _self_calls7(s)]
    dels7 = [s for s in simple7 if any(_deletes7(k) for k in _self_calls7(s))]
    if not plans7 or not dels7:
        raise AnalysisError(f"C18-R7: anchors not found in plan_layout (connection planning: {len(plans7)}, placement-removing steps: {len(dels7)})")
    for d7 in dels7:
        nm7 = sorted(k for k in _self_calls7(d7) if _deletes7(k))[0]
        late = any(g7.reaches_avoiding(p7, {id(d7)}, lambda n: isinstance(n, ast.stmt) and any(_restarts7(k) for k in _self_calls7(n)) and not isinstance(n, (ast.If, ast.For, ast.While, ast.Try, ast.With)),
                                       start_inclusive=False) for p7 in plans7)
        rep.check(not late, "C18-R7", f"plan_layout: `{nm7}` never runs on a plan whose connections are already laid", "reachable from connection planning only through a fresh start of the plan" if not late else
                  f"`{nm7}` can run after `_plan_connections`: a relay wire routed over a grid pole loses that pole, the emitter skips the wire (missing entity) and the far consumer is cut off", pl7.loc(d7))

    # ---------------- R8 ---------------------------------------------------------------
    from .shared import borrow as _borrow18
    _borrow18(repo, rep, "C09", "C09-R2", "C18-R8", "grid poles are fixed obstacles: they stay where the grid put them through position optimisation, on the decomposition path too "
              "(a shifted pole covers nothing and is trimmed)", select=lambda o: "preserves fixed positions" in o.construct or "fixed" in o.construct, floor=1)
    _borrow18(repo, rep, "C09", "C09-R4", "C18-R9", "adding poles changes nothing else: only the grid's own poles are ever trimmed or offered as relays — the flag that marks them is set by "
              "the power planner alone", select=lambda o: "may mark a placement as a grid pole" in o.construct or "is_power_pole" in o.construct, floor=1)

    # ---------------- R10 --------------------------------------------------------------
    rep.rule("C18-R10", "requested poles are placed whatever the program consists of: the planner's grid step gives up early only on the option itself (no pole type requested); a "
             "test on what kinds of entities the layout holds leaves lamps, inserters and other consumers without power")
    apg = repo.func("LayoutPlanner._add_power_pole_grid")
    gapg = CFG(apg.node)
    rets10 = [s for s in gapg.stmts() if isinstance(s, ast.Return)]
    grid_calls = [s for s in gapg.stmts() if not isinstance(s, (ast.If, ast.For, ast.While, ast.Try, ast.With)) and any(call_name(c) in ("add_power_pole_grid", "PowerPlanner") for c in calls_in(s))]
    if not grid_calls:
        raise AnalysisError("C18-R10: the call into the power planner was not found in _add_power_pole_grid")
    early = [r for r in rets10 if not any(gapg.dominates(gc, r) for gc in grid_calls)]
    rep.floor("C18-R10", "early returns before the grid is planned", len(early), 1)
    for i10, r in enumerate(early):
        gs10 = cguards(apg, r)
        foreign = [g for g, pol in gs10 if "power_pole_type" not in g]
        rep.check(not foreign, "C18-R10", f"_add_power_pole_grid gives up only when no pole type is requested (early return #{i10 + 1})",
                  "; ".join(g for g, _ in gs10)[:90] if not foreign else
                  f"returns early under `{foreign[0][:90]}`: with --power-poles a program of lamps and constant combinators gets no pole at all", apg.loc(r))
