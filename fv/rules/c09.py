"""C09 User-placed entities appear once, where and how the program says — structural clauses.

R1 coordinates travel unchanged from place(...) to the placement and are emitted as the entity's centre position
R2 every mapping the layout engine returns keeps fixed positions (solver variables with singleton domain, the fixed table, or a not-fixed guard)
R3 position units: no centre-reader runs on user placements before the tile->centre conversion
R4 who may delete a placement (three compiler-owned sites; fixture keeps the matcher honest)
R5 static properties are copied onto the entity, except the frozen bookkeeping keys
"""

from __future__ import annotations

import ast
import re
from pathlib import Path

from ..cfg import CFG, EXIT
from ..core import VERIF, AnalysisError, Func, Module, Repo, Report, call_name, calls_in, chain, kwarg, norm, parents_map, walk_local
from ..dataflow import DefUse
from ..resolve import Resolver
from ..sites import guard_chain
from .util import canon, cguards, cguards_any, ckey

BOOKKEEPING = {"entity_obj": "pre-built draftsman object", "footprint": "layout footprint, not a prototype attribute",
               "property_writes": "circuit-driven properties, applied separately"}


def _deletions(f: Func) -> list[tuple[ast.AST, ast.AST]]:
    """(statement-level node, key expr) for every deletion of an entity_placements entry in f."""
    out = []
    for n in walk_local(f.node):
        if isinstance(n, ast.Delete):
            for t in n.targets:
                if isinstance(t, ast.Subscript) and norm(t.value).endswith("entity_placements"):
                    out.append((n, t.slice))
        elif isinstance(n, ast.Call) and call_name(n) in ("pop", "popitem") and isinstance(n.func, ast.Attribute) and norm(n.func.value).endswith("entity_placements"):
            out.append((n, n.args[0] if n.args else ast.Constant(value=None)))
        elif isinstance(n, ast.Assign) and any(isinstance(t, ast.Attribute) and t.attr == "entity_placements" for t in n.targets) and isinstance(n.value, (ast.DictComp, ast.Dict)):
            out.append((n, n.value))
        elif isinstance(n, ast.Call) and call_name(n) == "clear" and isinstance(n.func, ast.Attribute) and norm(n.func.value).endswith("entity_placements"):
            out.append((n, ast.Constant(value=None)))
    return out


def _key_origin(f: Func, key: ast.AST, at: ast.AST | None = None) -> tuple[str, str]:
    """Classify where the deleted keys come from: ('pole'|'gate'|'inlined-decider'|'other', evidence).
    Every contribution to the key (list definitions, appends, loop iterables) must be compiler-owned."""
    du = DefUse(f)
    pm = parents_map(f.node)
    cf_ = canon(f)
    kinds: set[str] = set()
    evidence: list[str] = []
    seen: set[str] = set()

    def guards_of(node: ast.AST) -> list[tuple[str, bool]]:
        st = node
        while not isinstance(st, ast.stmt):
            st = pm[st]
        return [(cf_.text(t), pol) for t, pol in guard_chain(f, st, pm)]

    def classify_value(e: ast.AST, gs: list[tuple[str, bool]]) -> None:
        txt = cf_.text(e) if e in cf_.pm else norm(e)
        if any("is_power_pole" in g and ((pol and not g.startswith("not ")) or ((not pol) and g.startswith("not "))) for g, pol in gs):
            kinds.add("pole")
            evidence.append("ids appended only under the is_power_pole flag")
        elif ("write_gate" in txt or "hold_gate" in txt) and any("_unused" in g and pol for g, pol in gs):
            kinds.add("gate")
            evidence.append("ids are memory gates flagged *_gate_unused")
        elif "unused_enable_const" in txt and _enable_const_provenance_ok(f):
            kinds.add("enable-const")
            evidence.append("id is the anonymous always-on enable constant of a write whose gates were optimised away (set only from op.write_enable of a non-user-declared IRConst, removed only when nothing else reads it)")
        elif "source_node_id_to_remove" in txt or any("source_node_id_to_remove" in norm(v) for x in ast.walk(e) if isinstance(x, ast.Name) for v in du.value_exprs(x.id)):
            kinds.add("inlined-decider")
            evidence.append("ids come from comparison_data['source_node_id_to_remove']")
        else:
            kinds.add("other")
            evidence.append(f"`{txt[:70]}`")

    def origins(e: ast.AST) -> None:
        if isinstance(e, ast.Name):
            if e.id in seen:
                return
            seen.add(e.id)
            for v, how, _st in du.defs.get(e.id, []):
                if how.startswith("elem") and how != "elem-add":
                    origins(v)  # loop variable: where does the iterable come from
                elif how == "elem-add":
                    continue  # appends are handled with their guards below
                elif isinstance(v, (ast.List, ast.Set, ast.Tuple)) and not v.elts:
                    continue
                else:
                    origins(v)
            for c in calls_in(f.node, "append"):
                if isinstance(c.func, ast.Attribute) and isinstance(c.func.value, ast.Name) and c.func.value.id == e.id:
                    classify_value(c.args[0], guards_of(c))
            return
        if isinstance(e, ast.BinOp) and isinstance(e.op, ast.Add):
            origins(e.left)
            origins(e.right)
            return
        if isinstance(e, ast.Call) and call_name(e) in ("list", "sorted", "set", "tuple") and len(e.args) == 1:
            origins(e.args[0])
            return
        if isinstance(e, ast.Constant):
            return
        classify_value(e, [])

    start: ast.AST = key
    if at is not None and isinstance(key, ast.Name):
        # the loop that lexically encloses the deletion and binds the key decides where the key comes from
        cur = at
        while cur in pm:
            cur = pm[cur]
            if isinstance(cur, ast.For) and any(isinstance(x, ast.Name) and x.id == key.id for x in ast.walk(cur.target)):
                seen.add(key.id)
                start = cur.iter
                break
    origins(start)
    if not kinds:
        return "other", f"origin of `{norm(key)}` not recognised"
    if "other" in kinds:
        return "other", "keys also derive from: " + "; ".join(x for x in evidence if x.startswith("`"))
    return sorted(kinds)[0], "; ".join(sorted(set(evidence)))



def _enable_const_provenance_ok(f: Func) -> bool:
    """Every store to `<module>.unused_enable_const` in the class takes the node id of the IRConst behind op.write_enable, under a guard that
    excludes user-declared constants."""
    if f.cls is None:
        return False
    stores = []
    for m in f.cls.methods.values():
        c = canon(m)
        for n in walk_local(m.node):
            if isinstance(n, ast.Assign) and isinstance(n.targets[0], ast.Attribute) and n.targets[0].attr == "unused_enable_const":
                gs = cguards(m, n)
                ok = c.text(n.value) == "self._ir_nodes.get(op.write_enable.source_id).node_id" \
                    and any(pol and "isinstance(self._ir_nodes.get(op.write_enable.source_id), IRConst)" in g and "user_declared" in g for g, pol in gs)
                stores.append(ok)
    return bool(stores) and all(stores)

def run(repo: Repo, rep: Report, tier: str) -> None:
    rs = Resolver(repo)
    el = repo.cls("ExpressionLowerer")

    # ---------------- R1 ---------------------------------------------------------------
    rep.rule("C09-R1", "a coordinate whose constant value can be extracted is returned as that int; x and y reach IRPlaceEntity.x/.y in order; "
             "_place_user_entity marks the position user-specified exactly when both are int and stores them unmodified; the emitter assigns the centre")
    ec = el.methods["_extract_coordinate"]
    cec = canon(ec)
    rets = [n for n in walk_local(ec.node) if isinstance(n, ast.Return) and n.value is not None]
    const_ret = [r for r in rets if cec.text(r.value).startswith("self._try_extract_const_value(")]
    ok = bool(const_ret) and any(t == cec.text(const_ret[0].value) + " is not None" and pol for t, pol in cguards_any(ec, const_ret[0]))
    rep.check(ok, "C09-R1", "_extract_coordinate returns the extracted constant unchanged", cec.text(const_ret[0].value) if const_ret else "no return of the extracted constant", ec.loc(const_ret[0]) if const_ret else ec.loc())
    tev = el.methods["_try_extract_const_value"]
    ctev = canon(tev)
    br = [n for n in walk_local(tev.node) if isinstance(n, ast.If) and re.fullmatch(r"isinstance\((.+), IRConst\)", ctev.text(n.test))]
    ok = False
    if br:
        opx = re.fullmatch(r"isinstance\((.+), IRConst\)", ctev.text(br[0].test)).group(1)
        ok = len(br[0].body) == 1 and isinstance(br[0].body[0], ast.Return) and ctev.text(br[0].body[0].value) == opx + ".value"
    rep.check(ok, "C09-R1", "_try_extract_const_value yields the value of every constant node",
              "IRConst -> op.value" if ok else "the IRConst branch has extra conditions or returns something else: some compile-time coordinates become solver-chosen", tev.loc(br[0]) if br else tev.loc())
    epc = el.methods["_extract_place_coordinates"]
    cepc = canon(epc)
    rt = [n for n in walk_local(epc.node) if isinstance(n, ast.Return)]
    ok = False
    if rt and isinstance(rt[0].value, ast.Tuple) and len(rt[0].value.elts) == 2:
        full = [cepc.text(e) for e in rt[0].value.elts]
        ok = "args[1]" in full[0] and "args[2]" not in full[0] and "args[2]" in full[1] and "args[1]" not in full[1] and all(t.startswith("self._extract_coordinate(") for t in full)
    rep.check(ok, "C09-R1", "x comes from argument 1 and y from argument 2 of place()", norm(rt[0].value) if rt else "", epc.loc())
    lpc = el.methods["_lower_place_core"]
    clpc = canon(lpc)
    pcs = calls_in(lpc.node, "place_entity")
    ok = bool(pcs) and len(pcs[0].args) >= 4 and clpc.text(pcs[0].args[2]) == "self._extract_place_coordinates(expr)[0]" and clpc.text(pcs[0].args[3]) == "self._extract_place_coordinates(expr)[1]"
    rep.check(ok, "C09-R1", "place_entity receives (x, y) in order", norm(pcs[0])[:80] if pcs else "no call", lpc.loc(pcs[0]) if pcs else lpc.loc())
    bpe = repo.func("IRBuilder.place_entity")
    c = calls_in(bpe.node, "IRPlaceEntity")
    ok = bool(c) and [norm(a) for a in c[0].args[:4]] == ["entity_id", "prototype", "x", "y"]
    rep.check(ok, "C09-R1", "IRBuilder.place_entity forwards x, y unchanged", norm(c[0])[:80] if c else "", bpe.loc())
    pue = repo.func("EntityPlacer._place_user_entity")
    cpue = canon(pue)
    BOTH = "isinstance(op.x, int) and isinstance(op.y, int)"
    role = [c for c in calls_in(pue.node, "EntityPlacement")]
    posk = kwarg(role[0], "position") if role else None
    alts = sorted(cpue.alts(posk)) if posk is not None else []
    # the tuple alternative must be assigned under the both-int condition, the None alternative otherwise
    tuple_defs = [n for n in walk_local(pue.node) if isinstance(n, ast.Assign) and isinstance(n.value, ast.Tuple) and "op.x" in norm(n.value)]
    ok = bool(tuple_defs) and any(t == BOTH and pol for t, pol in cguards_any(pue, tuple_defs[0]))
    rep.check(ok, "C09-R1", "position is user-specified exactly when both coordinates are ints", "; ".join(("" if p_ else "not ") + t for t, p_ in cguards(pue, tuple_defs[0])) if tuple_defs else "", pue.loc(tuple_defs[0]) if tuple_defs else pue.loc())
    ok = bool(alts) and set(alts) <= {"(int(op.x), int(op.y))", "(op.x, op.y)", "None"} and len(alts) == 2 and "None" in alts
    rep.check(ok, "C09-R1", "the placement stores (x, y) unmodified", str(alts), pue.loc(role[0]) if role else pue.loc())
    flag = [n for n in walk_local(pue.node) if isinstance(n, ast.Assign) and "user_specified_position" in norm(n.targets[0])]
    ok = bool(flag) and any(t == BOTH and pol for t, pol in cguards_any(pue, flag[0])) and norm(flag[0].value) == "True"
    rep.check(ok, "C09-R1", "user_specified_position is set under that condition", "under " + BOTH if ok else "", pue.loc(flag[0]) if flag else pue.loc())
    ok = bool(role) and kwarg(role[0], "role") is not None and norm(kwarg(role[0], "role")) == "'user_entity'" and cpue.text(kwarg(role[0], "entity_type")) == "op.prototype"
    rep.check(ok, "C09-R1", "one placement of the requested prototype with role user_entity per IRPlaceEntity", "EntityPlacement(entity_type=op.prototype, role='user_entity')" if ok else "", pue.loc())
    opt = repo.func("LayoutPlanner._optimize_positions")
    copt = canon(opt)
    asg = [n for n in walk_local(opt.node) if isinstance(n, ast.Assign) and isinstance(n.targets[0], ast.Attribute) and n.targets[0].attr == "position" and isinstance(n.value, ast.Tuple) and len(n.value.elts) == 2]
    ok = bool(asg)
    shown = []
    if asg:
        recv = copt.text(asg[0].targets[0].value)
        for i, e in enumerate(asg[0].value.elts):
            t = copt.text(e)
            shown.append(t[-70:])
            m_ = re.fullmatch(r"ELEM\((.+)\.items\(\)\)\[1\]\[%d\] \+ (.+)\.properties\.get\('footprint', \(1, 1\)\)\[%d\] / 2(\.0)?" % (i, i), t)
            ok = ok and m_ is not None and m_.group(2) == recv and recv == f"self.layout_plan.entity_placements.get(ELEM({m_.group(1)}.items())[0])"
    rep.check(ok, "C09-R1", "tile -> centre conversion is tile + footprint/2", "; ".join(shown), opt.loc(asg[0]) if asg else opt.loc())
    ce = repo.func("PlanEntityEmitter.create_entity")
    pos = [n for n in walk_local(ce.node) if isinstance(n, ast.Assign) and norm(n.value) == "placement.position"]
    ok = bool(pos) and isinstance(pos[0].targets[0], ast.Attribute) and pos[0].targets[0].attr == "position" and isinstance(pos[0].targets[0].value, ast.Name) and pos[0].targets[0].value.id != "placement"
    rep.check(ok, "C09-R1", "the emitter assigns the centre to entity.position", "<entity>.position = placement.position" if ok else "", ce.loc(pos[0]) if pos else ce.loc())

    # ---------------- R2 ---------------------------------------------------------------
    rep.rule("C09-R2", "every store into a position mapping returned by IntegerLayoutEngine is solver.Value of the entity's own variables, the fixed table entry, "
             "or guarded by `not in self.fixed_positions`; fixed ids get singleton-domain variables")
    eng = repo.cls("IntegerLayoutEngine")
    n_stores = 0
    for m in eng.methods.values():
        ret_ann = norm(m.node.returns) if m.node.returns is not None else ""
        if "dict[str, tuple[int, int]]" not in ret_ann and m.name != "_extract_result":
            continue
        cm = canon(m)
        returned = {n.value.id for n in walk_local(m.node) if isinstance(n, ast.Return) and isinstance(n.value, ast.Name)}
        stores: list[tuple[ast.AST, ast.AST, ast.AST]] = []
        for n in walk_local(m.node):
            if isinstance(n, ast.Assign) and isinstance(n.targets[0], ast.Subscript) and isinstance(n.targets[0].value, ast.Name) and n.targets[0].value.id in returned:
                stores.append((n, n.targets[0].slice, n.value))
            elif isinstance(n, ast.DictComp) and isinstance(n.value, ast.Tuple):
                stores.append((n, n.key, n.value))
        for st, key, val in stores:
            n_stores += 1
            cv = cm.node(val)
            v = norm(cv)
            guards = cguards(m, st)
            if any(isinstance(x, ast.Call) and call_name(x) == "Value" for x in ast.walk(cv)) and not any(isinstance(x, ast.BinOp) for x in ast.walk(cv)):
                ok, why = True, "solver value of the entity's own variables"
            elif v.startswith("self.fixed_positions["):
                ok, why = True, "copied from the fixed table"
            elif any("self.fixed_positions" in t and ((not pol and " in " in t and " not in " not in t) or (pol and " not in " in t)) for t, pol in guards):
                ok, why = True, "guarded by not-fixed"
            else:
                ok, why = False, f"stores {norm(val)} for every id of the component, fixed or not: a user-placed entity is moved"
            rep.check(ok, "C09-R2", f"{m.short}: position store `{_shape(val)}` preserves fixed positions", why, m.loc(st))
    # the mapping returned by optimize() is what the planner converts from tile to centre: it may be empty only when there is nothing to place
    opt9 = eng.methods["optimize"]
    empties9 = [n for n in walk_local(opt9.node) if isinstance(n, ast.Return) and isinstance(n.value, ast.Dict) and not n.value.keys]
    for r9 in empties9:
        gs9 = cguards(opt9, r9)
        ok9 = [g for g, pol in gs9 if pol] == ["self.n_entities == 0"] and all(pol for _g, pol in gs9)
        rep.check(ok9, "C09-R2", "optimize() returns an empty mapping only for an empty plan",
                  "under self.n_entities == 0" if ok9 else f"empty mapping returned under {[('' if p_ else 'not ') + g for g, p_ in gs9]}: entities missing from the mapping keep their tile coordinates as centre (user-placed entities are emitted half a footprint off)", opt9.loc(r9))
    rep.floor("C09-R2", "position-mapping stores in the layout engine", n_stores, 3)
    cpv = eng.methods["_create_position_variables"]
    ccpv = canon(cpv)
    fixed_vars = [c for c in calls_in(cpv.node, "NewIntVar") if ccpv.text(c.args[0]) == ccpv.text(c.args[1]) and "self.fixed_positions" in ccpv.text(c.args[0])]
    rep.check(len(fixed_vars) == 2, "C09-R2", "fixed ids get variables with a singleton domain", "; ".join(norm(c)[:50] for c in fixed_vars), cpv.loc())
    ifp = eng.methods["_identify_fixed_positions"]
    cifp = canon(ifp)
    tiles = [n for n in walk_local(ifp.node) if isinstance(n, ast.Assign) and isinstance(n.value, ast.Tuple) and len(n.value.elts) == 2 and re.fullmatch(r"\(int\((.+)\.position\[0\]\), int\((.+)\.position\[1\]\)\)", cifp.text(n.value))]
    ok = False
    if tiles:
        m2 = re.fullmatch(r"\(int\((.+)\.position\[0\]\), int\((.+)\.position\[1\]\)\)", cifp.text(tiles[0].value))
        ok = m2.group(1) == m2.group(2) and any("user_specified" in t and pol for t, pol in cguards(ifp, tiles[0]))
    rep.check(ok, "C09-R2", "user positions enter the solver as the tile the program wrote", cifp.text(tiles[0].value)[-80:] if tiles else "", ifp.loc(tiles[0]) if tiles else ifp.loc())

    # ---------------- R3 ---------------------------------------------------------------
    rep.rule("C09-R3", "until _optimize_positions stores tile + footprint/2, a user placement's position is a tile: every function reachable from the layout phases "
             "that run before it and that reads a position as a centre (subtracts half a footprint) must exclude user placements")
    plan = repo.func("LayoutPlanner.plan_layout")
    order = []
    for n in walk_local(plan.node):
        if isinstance(n, ast.Call) and isinstance(n.func, ast.Attribute) and isinstance(n.func.value, ast.Name) and n.func.value.id == "self" and n.func.attr.startswith("_"):
            order.append((n.lineno, n.func.attr))
    order.sort()
    names = [a for _, a in order]
    if "_optimize_positions" not in names:
        raise AnalysisError("C09-R3: _optimize_positions not called from plan_layout")
    pre = names[: names.index("_optimize_positions")]
    pre = [p for p in pre if p not in ("_setup_signal_analysis", "_reset_layout_state")]
    rep.analysed["C09-R3:phases before the conversion"] = pre
    lp = repo.cls("LayoutPlanner")
    roots = [lp.methods[p] for p in pre if p in lp.methods]
    reach = rs.reachable(roots, exact=True)
    n_readers = 0
    for f in sorted(reach, key=lambda x: x.qual):
        if ".layout." not in f.module.name + ".":
            continue
        cf_ = None
        k_ = 0
        for n in walk_local(f.node):
            if isinstance(n, ast.BinOp) and isinstance(n.op, ast.Sub):
                cf_ = cf_ or canon(f)
                lt, rt_ = cf_.text(n.left), cf_.text(n.right)
                if not (".position[" in lt and "/ 2" in rt_ and lt.endswith("]")):
                    continue
                n_readers += 1
                k_ += 1
                guards = cguards(f, n)
                excl = any(("user_specified" in t and not pol) or ("is_power_pole" in t and pol) or ("fixed_position" in t and pol and "user" not in t) for t, pol in guards)
                via = " <- ".join(p for p in pre if f in rs.reachable([lp.methods[p]], exact=True))
                m3 = re.search(r"footprint'?[^\[]*\[(\d)\]", rt_)
                short = f"<p>.position[{lt[-2]}] - <p>.footprint[{m3.group(1) if m3 else '?'}] / 2"
                rep.check(excl, "C09-R3", f"{f.short} reads `{short}` as a centre only for non-user placements",
                          "user placements excluded by guard" if excl else
                          f"centre-reader `{norm(n)[:60]}` applied to every placement, reachable before the conversion via {via}: a user entity at tile (x, y) is taken for tile (x-1, y-1)", f.loc(n))
    rep.floor("C09-R3", "centre-readers reachable before the conversion", n_readers, 2)

    # ---------------- R4 ---------------------------------------------------------------
    rep.rule("C09-R4", "placements are deleted only at compiler-owned sites whose keys derive from grid poles (is_power_pole), unused memory gates, "
             "or the inlined decider id; any other deletion/overwrite of a placement is a violation")
    n_del = 0
    for f in repo.all_funcs():
        if ".layout." not in f.module.name + "." and ".emission." not in f.module.name + ".":
            continue
        for st, key in _deletions(f):
            n_del += 1
            kind, ev = _key_origin(f, key, st)
            rep.check(kind != "other", "C09-R4", f"{f.short} deletes only compiler-owned placements ({ckey(f, st)})", f"{kind}: {ev}", f.loc(st))
    rep.floor("C09-R4", "deletion sites of placements", n_del, 3)
    # the flag that makes a placement deletable (and a relay candidate) is the power planner's: nobody else sets it, least of all the code that places the
    # program's own entities — a user-placed pole that covers nothing would be trimmed away
    flag_writers = []
    for f in repo.all_funcs():
        for n in walk_local(f.node):
            if isinstance(n, ast.keyword) and n.arg == "is_power_pole":
                flag_writers.append((f, n.value))
            elif isinstance(n, ast.Assign) and isinstance(n.targets[0], ast.Subscript) and isinstance(n.targets[0].slice, ast.Constant) and n.targets[0].slice.value == "is_power_pole":
                flag_writers.append((f, n))
    rep.floor("C09-R4", "writers of the is_power_pole flag", len(flag_writers), 1)
    for f, n in flag_writers:
        own = f.module.name.endswith("power_planner")
        rep.check(own, "C09-R4", f"{f.short} may mark a placement as a grid pole", "the power planner" if own else
                  "the flag authorises deletion in _trim_power_poles and reuse as a relay: set outside the power planner it exposes the program's own entities to both", f.loc(n))
    # fixture: the matcher must still recognise a forbidden deletion
    fx = VERIF / "fixtures" / "c09_forbidden_delete.py"
    tree = ast.parse(fx.read_text())
    fmod = Module("fixture", fx, "fixtures/c09_forbidden_delete.py", fx.read_text(), tree)
    cls = tree.body[0]
    fn = Func("drop", cls.body[0], fmod)
    dels = _deletions(fn)
    if not dels or _key_origin(fn, dels[0][1], dels[0][0])[0] != "other":
        raise AnalysisError("C09-R4: positive fixture no longer matches; the who-may-delete matcher is broken")
    rep.ok("C09-R4", "fixture: a forbidden deletion is recognised by the matcher", "fixtures/c09_forbidden_delete.py flagged", "fixtures/c09_forbidden_delete.py:5", nontrivial=False)
    ids = calls_in(el.methods["_lower_place_core"].node, "next_id")
    rep.check(bool(ids), "C09-R4", "entity ids are fresh per executed place()", "entity_<next_id>" if ids else "entity id not derived from the counter", lpc.loc())

    # ---------------- R5 ---------------------------------------------------------------
    rep.rule("C09-R5", "for non-combinator prototypes create_entity copies every placement property the prototype has, except the frozen bookkeeping keys")
    loops = [n for n in walk_local(ce.node) if isinstance(n, ast.For) and norm(n.iter) == "placement.properties.items()"]
    if not loops:
        rep.bad("C09-R5", "create_entity iterates all placement properties", "loop over placement.properties.items() missing", ce.loc())
    else:
        lp0 = loops[0]
        skip = set()
        for n in walk_local(lp0):
            if isinstance(n, ast.Compare) and isinstance(n.ops[0], ast.In) and isinstance(n.comparators[0], (ast.Set, ast.Tuple, ast.List)):
                skip |= {e.value for e in n.comparators[0].elts if isinstance(e, ast.Constant)}
        # the skip decision itself: every `continue` in the loop is guarded by exactly one membership test of the key in a literal set
        extra_skips = []
        pm_ce = cce_pm = canon(ce).pm
        for n in walk_local(lp0):
            if isinstance(n, ast.Continue):
                par = pm_ce.get(n)
                t_ = canon(ce).text(par.test) if isinstance(par, ast.If) and n in par.body else "unconditional"
                member = re.fullmatch(r"ELEM\(placement\.properties\.items\(\)\)\[0\] in \{.*\}", t_) is not None
                absent = re.fullmatch(r"not hasattr\(.+, ELEM\(placement\.properties\.items\(\)\)\[0\]\)", t_) is not None
                if not (member or absent):
                    extra_skips.append(t_[:90])
        rep.check(skip <= set(BOOKKEEPING) and not extra_skips, "C09-R5", "only bookkeeping keys are skipped",
                  f"skipped: {sorted(skip)}" + (f"; additional skip condition(s) {extra_skips}: a property whose value is 0/False/empty never reaches the entity and the prototype default applies" if extra_skips else ""), ce.loc(lp0))
        sets = [c for c in calls_in(lp0, "setattr")]
        cce = canon(ce)
        IT = "ELEM(placement.properties.items())"
        ok = bool(sets) and all(cce.text(c.args[1]) == f"{IT}[0]" and cce.text(c.args[2]) in (f"{IT}[1]", f"bool({IT}[1])") and isinstance(c.args[0], ast.Name) for c in sets)
        rep.check(ok, "C09-R5", "each property is set on the entity with the program's value", "; ".join(norm(c) for c in sets), ce.loc(lp0))
        props = kwarg(role[0], "properties") if role else None
        rep.check(props is not None and cpue.text(props).startswith("op.properties"), "C09-R5", "the placement carries the place() properties", norm(props) if props is not None else "", pue.loc())

    # ---------------- R6 ---------------------------------------------------------------
    rep.rule("C09-R6", "a placed entity occupies the tiles the game gives its prototype: get_footprint answers with the declared tile size whenever the prototype has one and falls "
             "back to the ceiled collision box only otherwise (the two differ for some prototypes — the rule lists them from the game data — and the tile-to-centre "
             "conversion shifts such an entity by half a tile)")
    import math as _math
    from ..gamedata import raw as _raw9
    gf9 = repo.func("EntityDataHelper.get_footprint")
    g9 = CFG(gf9.node)
    cg9 = canon(gf9)
    rets9 = [s for s in g9.stmts() if isinstance(s, ast.Return) and s.value is not None]
    tile_rets = [r for r in rets9 if "'tile_width'" in cg9.text(r.value)]
    coll_rets = [r for r in rets9 if "'collision_box'" in cg9.text(r.value) and "'tile_width'" not in cg9.text(r.value)]
    if not tile_rets or not coll_rets:
        raise AnalysisError(f"C09-R6: get_footprint returns not recognised (tile-size returns {len(tile_rets)}, collision-box returns {len(coll_rets)})")
    differing = []
    for name9, p9 in _raw9().items():
        tw, th, cb = p9.get("tile_width"), p9.get("tile_height"), p9.get("collision_box")
        if tw is not None and th is not None and cb:
            est = (max(1, _math.ceil(cb[1][0] - cb[0][0])), max(1, _math.ceil(cb[1][1] - cb[0][1])))
            if est != (max(1, int(tw)), max(1, int(th))):
                differing.append(name9)
    rep.analysed["C09-R6:prototypes whose declared tile size differs from the ceiled collision box"] = sorted(differing)[:40]
    # precedence: the collision-box answer is given only where the tile-size test has failed, i.e. the `if` that guards the tile-size return dominates it
    tile_ifs = [s for s in g9.stmts() if isinstance(s, ast.If) and any(r in ast.walk(s) for r in tile_rets) and not any(r in ast.walk(s) for r in coll_rets)]
    first9 = bool(tile_ifs) and all(any(g9.dominates(ti, cr) for ti in tile_ifs) for cr in coll_rets)
    rep.check(first9 or not differing, "C09-R6", "get_footprint: the declared tile size takes precedence over the collision-box estimate",
              f"tile-size test dominates the collision-box answer ({len(differing)} prototypes would differ)" if first9 else
              f"the collision-box estimate is returned without consulting the tile size first; it differs for {len(differing)} prototypes, e.g. {sorted(differing)[:6]}: such entities are "
              "placed with the wrong footprint and land half a tile off", gf9.loc(coll_rets[0]))

    # ---------------- R7 ---------------------------------------------------------------
    from .shared import borrow as _borrow9
    _borrow9(repo, rep, "C16", "C16-R1", "C09-R7", "every iteration of a loop that executes a `place` contributes its entity: the iteration values are exactly start, start+step, ... "
             "strictly before stop (the last partial step included)", floor=2)

    # ---------------- R8 ---------------------------------------------------------------
    _borrow9(repo, rep, "C10", "C10-R1", "C09-R8", "a placed entity keeps its coordinates through the optimizer: the reference rewrite of IRPlaceEntity builds x from x and y from y, "
             "and rewrites every slot of the node", select=lambda o: "IRPlaceEntity" in o.construct or ".x " in o.construct or ".y " in o.construct, floor=2)

    # ---------------- R9 ---------------------------------------------------------------
    rep.rule("C09-R9", "where an entity lands is decided by its own position only: the emitter stores nothing on the blueprint object that moves or re-anchors the whole blueprint "
             "(snapping grid, absolute snapping, position offsets) — its blueprint-level stores are metadata (label, description, version, icons)")
    META9 = {"label", "description", "version", "icons", "label_color"}
    n9 = 0
    for f9 in repo.all_funcs():
        if ".emission." not in f9.module.name + "." and f9.module.name not in ("compile", "dsl_compiler.cli"):
            continue
        for n in walk_local(f9.node):
            tg9 = n.targets if isinstance(n, ast.Assign) else ([n.target] if isinstance(n, (ast.AugAssign, ast.AnnAssign)) else [])
            for t in tg9:
                if isinstance(t, ast.Attribute) and norm(t.value).endswith("blueprint") and not norm(t.value).endswith("_blueprint"):
                    n9 += 1
                    rep.check(t.attr in META9, "C09-R9", f"{f9.short}: blueprint.{t.attr} is metadata", "metadata" if t.attr in META9 else
                              f"`{norm(n)[:80]}` re-anchors the blueprint: with a snapping grid the game places the blueprint relative to the grid, entities no longer land on the tiles the program named", f9.loc(n))
    rep.floor("C09-R9", "blueprint-level attribute stores", n9, 3)

    # ---------------- R10 --------------------------------------------------------------
    _borrow9(repo, rep, "C15", "C15-R16", "C09-R10", "a `place` inside a loop inside a function is executed: the function body keeps every statement kind the program wrote", floor=1)



def _deep(du: DefUse, e: ast.AST, depth: int = 0) -> list[ast.AST]:
    out = [e]
    if depth > 4:
        return out
    for n in ast.walk(e):
        if isinstance(n, ast.Name):
            for v in du.value_exprs(n.id):
                out += _deep(du, v, depth + 1)
    return out


def _shape(cv: ast.AST) -> str:
    """Local-free skeleton of a stored value (for stable obligation keys): arithmetic structure and constants kept, every other
    sub-expression replaced by `_`."""

    class T(ast.NodeTransformer):
        def generic_visit(self, n: ast.AST) -> ast.AST:
            if isinstance(n, (ast.Tuple, ast.BinOp, ast.UnaryOp)):
                return super().generic_visit(n)
            if isinstance(n, (ast.Constant, ast.operator, ast.unaryop, ast.expr_context)):
                return n
            return ast.Name(id="_", ctx=ast.Load())

    import copy

    return " ".join(ast.unparse(ast.fix_missing_locations(T().visit(copy.deepcopy(cv)))).split())
