"""C09 User-placed entities appear once, where and how the program says — structural clauses.

R1 coordinates travel unchanged from place(...) to the placement and are emitted as the entity's centre position
R2 every mapping the layout engine returns keeps fixed positions (solver variables with singleton domain, the fixed table, or a not-fixed guard)
R3 position units: no centre-reader runs on user placements before the tile->centre conversion
R4 who may delete a placement (three compiler-owned sites; fixture keeps the matcher honest)
R5 static properties are copied onto the entity, except the frozen bookkeeping keys
"""

from __future__ import annotations

import ast
from pathlib import Path

from ..cfg import CFG, EXIT
from ..core import VERIF, AnalysisError, Func, Module, Repo, Report, call_name, calls_in, chain, kwarg, norm, parents_map, walk_local
from ..dataflow import DefUse
from ..resolve import Resolver
from ..sites import guard_chain

BOOKKEEPING = {"entity_obj": "pre-built draftsman object", "footprint": "layout footprint, not a prototype attribute",
               "property_writes": "circuit-driven properties, applied separately"}


def _deletions(f: Func) -> list[tuple[ast.AST, ast.AST]]:
    """(statement-level node, key expr) for every deletion of an entity_placements entry in f."""
    out = []
    for n in walk_local(f.node):
        if isinstance(n, ast.Delete):
            for t in n.targets:
                if isinstance(t, ast.Subscript) and norm(t.value).endswith("entity_placements"):
                    out.append((n, t.slice))
        elif isinstance(n, ast.Call) and call_name(n) in ("pop", "popitem") and isinstance(n.func, ast.Attribute) and norm(n.func.value).endswith("entity_placements"):
            out.append((n, n.args[0] if n.args else ast.Constant(value=None)))
        elif isinstance(n, ast.Assign) and any(isinstance(t, ast.Attribute) and t.attr == "entity_placements" for t in n.targets) and isinstance(n.value, (ast.DictComp, ast.Dict)):
            out.append((n, n.value))
        elif isinstance(n, ast.Call) and call_name(n) == "clear" and isinstance(n.func, ast.Attribute) and norm(n.func.value).endswith("entity_placements"):
            out.append((n, ast.Constant(value=None)))
    return out


def _key_origin(f: Func, key: ast.AST, at: ast.AST | None = None) -> tuple[str, str]:
    """Classify where the deleted keys come from: ('pole'|'gate'|'inlined-decider'|'other', evidence).
    Every contribution to the key (list definitions, appends, loop iterables) must be compiler-owned."""
    du = DefUse(f)
    pm = parents_map(f.node)
    kinds: set[str] = set()
    evidence: list[str] = []
    seen: set[str] = set()

    def guards_of(node: ast.AST) -> list[tuple[str, bool]]:
        st = node
        while not isinstance(st, ast.stmt):
            st = pm[st]
        return [(norm(t), pol) for t, pol in guard_chain(f, st, pm)]

    def classify_value(e: ast.AST, gs: list[tuple[str, bool]]) -> None:
        txt = norm(e)
        if any("is_power_pole" in g and ((pol and not g.startswith("not ")) or ((not pol) and g.startswith("not "))) for g, pol in gs):
            kinds.add("pole")
            evidence.append("ids appended only under the is_power_pole flag")
        elif ("write_gate" in txt or "hold_gate" in txt) and any("_unused" in g and pol for g, pol in gs):
            kinds.add("gate")
            evidence.append("ids are memory gates flagged *_gate_unused")
        elif "source_node_id_to_remove" in txt or any("source_node_id_to_remove" in norm(v) for x in ast.walk(e) if isinstance(x, ast.Name) for v in du.value_exprs(x.id)):
            kinds.add("inlined-decider")
            evidence.append("ids come from comparison_data['source_node_id_to_remove']")
        else:
            kinds.add("other")
            evidence.append(f"`{txt[:70]}`")

    def origins(e: ast.AST) -> None:
        if isinstance(e, ast.Name):
            if e.id in seen:
                return
            seen.add(e.id)
            for v, how, _st in du.defs.get(e.id, []):
                if how.startswith("elem") and how != "elem-add":
                    origins(v)  # loop variable: where does the iterable come from
                elif how == "elem-add":
                    continue  # appends are handled with their guards below
                elif isinstance(v, (ast.List, ast.Set, ast.Tuple)) and not v.elts:
                    continue
                else:
                    origins(v)
            for c in calls_in(f.node, "append"):
                if isinstance(c.func, ast.Attribute) and isinstance(c.func.value, ast.Name) and c.func.value.id == e.id:
                    classify_value(c.args[0], guards_of(c))
            return
        if isinstance(e, ast.BinOp) and isinstance(e.op, ast.Add):
            origins(e.left)
            origins(e.right)
            return
        if isinstance(e, ast.Call) and call_name(e) in ("list", "sorted", "set", "tuple") and len(e.args) == 1:
            origins(e.args[0])
            return
        if isinstance(e, ast.Constant):
            return
        classify_value(e, [])

    start: ast.AST = key
    if at is not None and isinstance(key, ast.Name):
        # the loop that lexically encloses the deletion and binds the key decides where the key comes from
        cur = at
        while cur in pm:
            cur = pm[cur]
            if isinstance(cur, ast.For) and any(isinstance(x, ast.Name) and x.id == key.id for x in ast.walk(cur.target)):
                seen.add(key.id)
                start = cur.iter
                break
    origins(start)
    if not kinds:
        return "other", f"origin of `{norm(key)}` not recognised"
    if "other" in kinds:
        return "other", "keys also derive from: " + "; ".join(x for x in evidence if x.startswith("`"))
    return sorted(kinds)[0], "; ".join(sorted(set(evidence)))


def run(repo: Repo, rep: Report, tier: str) -> None:
    rs = Resolver(repo)
    el = repo.cls("ExpressionLowerer")

    # ---------------- R1 ---------------------------------------------------------------
    rep.rule("C09-R1", "a coordinate whose constant value can be extracted is returned as that int; x and y reach IRPlaceEntity.x/.y in order; "
             "_place_user_entity marks the position user-specified exactly when both are int and stores them unmodified; the emitter assigns the centre")
    ec = el.methods["_extract_coordinate"]
    rets = [n for n in walk_local(ec.node) if isinstance(n, ast.Return) and n.value is not None]
    du = DefUse(ec)
    const_ret = [r for r in rets if isinstance(r.value, ast.Name) and any(isinstance(v, ast.Call) and call_name(v) == "_try_extract_const_value" for v in du.value_exprs(r.value.id))]
    pm = parents_map(ec.node)
    ok = bool(const_ret) and any("is not None" in norm(t) and pol for t, pol in guard_chain(ec, const_ret[0], pm))
    rep.check(ok, "C09-R1", "_extract_coordinate returns the extracted constant unchanged", norm(const_ret[0]) if const_ret else "no return of the extracted constant", ec.loc(const_ret[0]) if const_ret else ec.loc())
    tev = el.methods["_try_extract_const_value"]
    br = [n for n in walk_local(tev.node) if isinstance(n, ast.If) and "isinstance(op, IRConst)" in norm(n.test)]
    ok = bool(br) and len(br[0].body) == 1 and isinstance(br[0].body[0], ast.Return) and norm(br[0].body[0].value) == "op.value"
    rep.check(ok, "C09-R1", "_try_extract_const_value yields the value of every constant node",
              "IRConst -> op.value" if ok else "the IRConst branch has extra conditions or returns something else: some compile-time coordinates become solver-chosen", tev.loc(br[0]) if br else tev.loc())
    epc = el.methods["_extract_place_coordinates"]
    dup = DefUse(epc)
    rt = [n for n in walk_local(epc.node) if isinstance(n, ast.Return)]
    ok = False
    if rt and isinstance(rt[0].value, ast.Tuple) and len(rt[0].value.elts) == 2:
        srcs = []
        for e in rt[0].value.elts:
            lv = " ".join(norm(v) for v in dup.expand(e)) + " ".join(norm(v) for x in ast.walk(e) if isinstance(x, ast.Name) for vv in dup.value_exprs(x.id) for v in dup.expand(vv))
            srcs.append(lv)
        full = [" ".join(norm(v) for v in _deep(dup, e)) for e in rt[0].value.elts]
        ok = "args[1]" in full[0] and "args[2]" not in full[0] and "args[2]" in full[1] and "args[1]" not in full[1]
    rep.check(ok, "C09-R1", "x comes from argument 1 and y from argument 2 of place()", norm(rt[0].value) if rt else "", epc.loc())
    lpc = el.methods["_lower_place_core"]
    pcs = calls_in(lpc.node, "place_entity")
    ok = bool(pcs) and len(pcs[0].args) >= 4 and norm(pcs[0].args[2]) == "x_coord" and norm(pcs[0].args[3]) == "y_coord"
    rep.check(ok, "C09-R1", "place_entity receives (x, y) in order", norm(pcs[0])[:80] if pcs else "no call", lpc.loc(pcs[0]) if pcs else lpc.loc())
    bpe = repo.func("IRBuilder.place_entity")
    c = calls_in(bpe.node, "IRPlaceEntity")
    ok = bool(c) and [norm(a) for a in c[0].args[:4]] == ["entity_id", "prototype", "x", "y"]
    rep.check(ok, "C09-R1", "IRBuilder.place_entity forwards x, y unchanged", norm(c[0])[:80] if c else "", bpe.loc())
    pue = repo.func("EntityPlacer._place_user_entity")
    us = [n for n in walk_local(pue.node) if isinstance(n, ast.Assign) and norm(n.targets[0]) == "user_specified"]
    ok = bool(us) and norm(us[0].value) == "isinstance(op.x, int) and isinstance(op.y, int)"
    rep.check(ok, "C09-R1", "position is user-specified exactly when both coordinates are ints", norm(us[0].value) if us else "", pue.loc(us[0]) if us else pue.loc())
    des = [n for n in walk_local(pue.node) if isinstance(n, ast.Assign) and isinstance(n.value, ast.Tuple) and "op.x" in norm(n.value)]
    ok = bool(des) and norm(des[0].value) in ("(int(op.x), int(op.y))", "(op.x, op.y)")
    rep.check(ok, "C09-R1", "the placement stores (x, y) unmodified", norm(des[0].value) if des else "", pue.loc(des[0]) if des else pue.loc())
    flag = [n for n in walk_local(pue.node) if isinstance(n, ast.Assign) and "user_specified_position" in norm(n.targets[0])]
    pmu = parents_map(pue.node)
    ok = bool(flag) and any(norm(t) == "user_specified" and pol for t, pol in guard_chain(pue, flag[0], pmu)) and norm(flag[0].value) == "True"
    rep.check(ok, "C09-R1", "user_specified_position is set under that condition", norm(flag[0]) if flag else "", pue.loc(flag[0]) if flag else pue.loc())
    role = [c for c in calls_in(pue.node, "EntityPlacement")]
    ok = bool(role) and kwarg(role[0], "role") is not None and norm(kwarg(role[0], "role")) == "'user_entity'" and norm(kwarg(role[0], "entity_type")) == "prototype"
    rep.check(ok, "C09-R1", "one placement of the requested prototype with role user_entity per IRPlaceEntity", norm(role[0])[:100] if role else "", pue.loc())
    opt = repo.func("LayoutPlanner._optimize_positions")
    asg = [n for n in walk_local(opt.node) if isinstance(n, ast.Assign) and norm(n.targets[0]) == "placement.position"]
    duo = DefUse(opt)
    ok = bool(asg) and isinstance(asg[0].value, ast.Tuple) and all(
        any(norm(v) in (f"tile_{a} + {d} / 2.0", f"tile_{a} + {d} / 2") for v in duo.expand(e)) for e, a, d in zip(asg[0].value.elts, "xy", ("width", "height")))
    rep.check(ok, "C09-R1", "tile -> centre conversion is tile + footprint/2", "; ".join(norm(v) for e in asg[0].value.elts for v in duo.expand(e)) if asg else "", opt.loc(asg[0]) if asg else opt.loc())
    ce = repo.func("PlanEntityEmitter.create_entity")
    pos = [n for n in walk_local(ce.node) if isinstance(n, ast.Assign) and norm(n.value) == "placement.position"]
    ok = bool(pos) and norm(pos[0].targets[0]) == "entity.position"
    rep.check(ok, "C09-R1", "the emitter assigns the centre to entity.position", norm(pos[0]) if pos else "", ce.loc(pos[0]) if pos else ce.loc())

    # ---------------- R2 ---------------------------------------------------------------
    rep.rule("C09-R2", "every store into a position mapping returned by IntegerLayoutEngine is solver.Value of the entity's own variables, the fixed table entry, "
             "or guarded by `not in self.fixed_positions`; fixed ids get singleton-domain variables")
    eng = repo.cls("IntegerLayoutEngine")
    n_stores = 0
    for m in eng.methods.values():
        ret_ann = norm(m.node.returns) if m.node.returns is not None else ""
        if "dict[str, tuple[int, int]]" not in ret_ann and m.name != "_extract_result":
            continue
        pmm = parents_map(m.node)
        stores: list[tuple[ast.AST, ast.AST, ast.AST]] = []
        for n in walk_local(m.node):
            if isinstance(n, ast.Assign) and isinstance(n.targets[0], ast.Subscript) and isinstance(n.targets[0].value, ast.Name) and "position" in n.targets[0].value.id:
                stores.append((n, n.targets[0].slice, n.value))
            elif isinstance(n, ast.DictComp) and isinstance(n.value, ast.Tuple):
                stores.append((n, n.key, n.value))
        for st, key, val in stores:
            n_stores += 1
            v = norm(val)
            stmt = st
            while not isinstance(stmt, ast.stmt):
                stmt = pmm[stmt]
            guards = guard_chain(m, stmt, pmm)
            if "solver.Value" in v and not any(isinstance(x, ast.BinOp) for x in ast.walk(val)):
                ok, why = True, "solver value of the entity's own variables"
            elif v.startswith("self.fixed_positions["):
                ok, why = True, "copied from the fixed table"
            elif any("self.fixed_positions" in norm(t) and ((not pol and " in " in norm(t) and " not in " not in norm(t)) or (pol and " not in " in norm(t))) for t, pol in guards):
                ok, why = True, "guarded by not-fixed"
            else:
                ok, why = False, f"stores {v} for every id of the component, fixed or not: a user-placed entity is moved"
            rep.check(ok, "C09-R2", f"{m.short}: position store `{norm(key)} -> {v[:50]}` preserves fixed positions", why, m.loc(st))
    rep.floor("C09-R2", "position-mapping stores in the layout engine", n_stores, 3)
    cpv = eng.methods["_create_position_variables"]
    fixed_vars = [c for c in calls_in(cpv.node, "NewIntVar") if norm(c.args[0]) == norm(c.args[1]) and "fixed" in norm(c.args[0])]
    rep.check(len(fixed_vars) == 2, "C09-R2", "fixed ids get variables with a singleton domain", "; ".join(norm(c)[:50] for c in fixed_vars), cpv.loc())
    ifp = eng.methods["_identify_fixed_positions"]
    tiles = [n for n in walk_local(ifp.node) if isinstance(n, ast.Assign) and isinstance(n.value, ast.Tuple) and "int(placement.position[0])" in norm(n.value)]
    pmi = parents_map(ifp.node)
    ok = bool(tiles) and any("is_user_specified" in norm(t) and pol for t, pol in guard_chain(ifp, tiles[0], pmi)) and norm(tiles[0].value) == "(int(placement.position[0]), int(placement.position[1]))"
    rep.check(ok, "C09-R2", "user positions enter the solver as the tile the program wrote", norm(tiles[0].value) if tiles else "", ifp.loc(tiles[0]) if tiles else ifp.loc())

    # ---------------- R3 ---------------------------------------------------------------
    rep.rule("C09-R3", "until _optimize_positions stores tile + footprint/2, a user placement's position is a tile: every function reachable from the layout phases "
             "that run before it and that reads a position as a centre (subtracts half a footprint) must exclude user placements")
    plan = repo.func("LayoutPlanner.plan_layout")
    order = []
    for n in walk_local(plan.node):
        if isinstance(n, ast.Call) and isinstance(n.func, ast.Attribute) and isinstance(n.func.value, ast.Name) and n.func.value.id == "self" and n.func.attr.startswith("_"):
            order.append((n.lineno, n.func.attr))
    order.sort()
    names = [a for _, a in order]
    if "_optimize_positions" not in names:
        raise AnalysisError("C09-R3: _optimize_positions not called from plan_layout")
    pre = names[: names.index("_optimize_positions")]
    pre = [p for p in pre if p not in ("_setup_signal_analysis", "_reset_layout_state")]
    rep.analysed["C09-R3:phases before the conversion"] = pre
    lp = repo.cls("LayoutPlanner")
    roots = [lp.methods[p] for p in pre if p in lp.methods]
    reach = rs.reachable(roots, exact=True)
    n_readers = 0
    for f in sorted(reach, key=lambda x: x.qual):
        if ".layout." not in f.module.name + ".":
            continue
        pmf = None
        for n in walk_local(f.node):
            if isinstance(n, ast.BinOp) and isinstance(n.op, ast.Sub) and ".position[" in norm(n.left) and "/ 2" in norm(n.right):
                n_readers += 1
                pmf = pmf or parents_map(f.node)
                st = n
                while not isinstance(st, ast.stmt):
                    st = pmf[st]
                guards = guard_chain(f, st, pmf)
                excl = any(("user_specified" in norm(t) and not pol) or ("is_power_pole" in norm(t) and pol) or ("fixed_position" in norm(t) and pol and "user" not in norm(t)) for t, pol in guards)
                via = " <- ".join(p for p in pre if f in rs.reachable([lp.methods[p]], exact=True))
                rep.check(excl, "C09-R3", f"{f.short} reads `{norm(n)[:60]}` as a centre only for non-user placements",
                          "user placements excluded by guard" if excl else
                          f"centre-reader applied to every placement, reachable before the conversion via {via}: a user entity at tile (x, y) is taken for tile (x-1, y-1)", f.loc(n))
    rep.floor("C09-R3", "centre-readers reachable before the conversion", n_readers, 2)

    # ---------------- R4 ---------------------------------------------------------------
    rep.rule("C09-R4", "placements are deleted only at compiler-owned sites whose keys derive from grid poles (is_power_pole), unused memory gates, "
             "or the inlined decider id; any other deletion/overwrite of a placement is a violation")
    n_del = 0
    for f in repo.all_funcs():
        if ".layout." not in f.module.name + "." and ".emission." not in f.module.name + ".":
            continue
        for st, key in _deletions(f):
            n_del += 1
            kind, ev = _key_origin(f, key, st)
            rep.check(kind != "other", "C09-R4", f"{f.short} deletes only compiler-owned placements ({norm(st)[:50]})", f"{kind}: {ev}", f.loc(st))
    rep.floor("C09-R4", "deletion sites of placements", n_del, 3)
    # fixture: the matcher must still recognise a forbidden deletion
    fx = VERIF / "fixtures" / "c09_forbidden_delete.py"
    tree = ast.parse(fx.read_text())
    fmod = Module("fixture", fx, "fixtures/c09_forbidden_delete.py", fx.read_text(), tree)
    cls = tree.body[0]
    fn = Func("drop", cls.body[0], fmod)
    dels = _deletions(fn)
    if not dels or _key_origin(fn, dels[0][1], dels[0][0])[0] != "other":
        raise AnalysisError("C09-R4: positive fixture no longer matches; the who-may-delete matcher is broken")
    rep.ok("C09-R4", "fixture: a forbidden deletion is recognised by the matcher", "fixtures/c09_forbidden_delete.py flagged", "fixtures/c09_forbidden_delete.py:5", nontrivial=False)
    ids = calls_in(el.methods["_lower_place_core"].node, "next_id")
    rep.check(bool(ids), "C09-R4", "entity ids are fresh per executed place()", "entity_<next_id>" if ids else "entity id not derived from the counter", lpc.loc())

    # ---------------- R5 ---------------------------------------------------------------
    rep.rule("C09-R5", "for non-combinator prototypes create_entity copies every placement property the prototype has, except the frozen bookkeeping keys")
    loops = [n for n in walk_local(ce.node) if isinstance(n, ast.For) and norm(n.iter) == "placement.properties.items()"]
    if not loops:
        rep.bad("C09-R5", "create_entity iterates all placement properties", "loop over placement.properties.items() missing", ce.loc())
    else:
        lp0 = loops[0]
        skip = set()
        for n in walk_local(lp0):
            if isinstance(n, ast.Compare) and isinstance(n.ops[0], ast.In) and isinstance(n.comparators[0], (ast.Set, ast.Tuple, ast.List)):
                skip |= {e.value for e in n.comparators[0].elts if isinstance(e, ast.Constant)}
        rep.check(skip <= set(BOOKKEEPING), "C09-R5", "only bookkeeping keys are skipped", f"skipped: {sorted(skip)}", ce.loc(lp0))
        sets = [c for c in calls_in(lp0, "setattr")]
        ok = bool(sets) and all(norm(c.args[0]) == "entity" and norm(c.args[1]) == "key" and norm(c.args[2]) in ("value", "bool(value)") for c in sets)
        rep.check(ok, "C09-R5", "each property is set on the entity with the program's value", "; ".join(norm(c) for c in sets), ce.loc(lp0))
        props = kwarg(role[0], "properties") if role else None
        rep.check(props is not None and norm(props).startswith("op.properties"), "C09-R5", "the placement carries the place() properties", norm(props) if props is not None else "", pue.loc())


def _deep(du: DefUse, e: ast.AST, depth: int = 0) -> list[ast.AST]:
    out = [e]
    if depth > 4:
        return out
    for n in ast.walk(e):
        if isinstance(n, ast.Name):
            for v in du.value_exprs(n.id):
                out += _deep(du, v, depth + 1)
    return out
