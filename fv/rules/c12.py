"""C12 Independent computations do not interfere — the mechanisms that keep networks apart where the compiler adds shared infrastructure (thin, stated as such).

R1 network identity: ids keyed by (source entity, colour), pairwise distinct, and each routed edge passes the id of its own source group to the relay router
R2 relay reuse guard: a relay carries a network on a colour only if it carries none or the same one; every reuse site asks first; every hop used is recorded
R3 conflict graph: edges are grouped by (sink, resolved signal) and every pair of distinct sources not from one merge gets a conflict edge; neighbours get opposite colours
"""

from __future__ import annotations

import ast

from ..cfg import CFG
from ..core import AnalysisError, Repo, Report, call_name, calls_in, kwarg, norm, parents_map, walk_local
from ..dataflow import DefUse
from ..sites import guard_chain


def run(repo: Repo, rep: Report, tier: str) -> None:
    cp = repo.cls("ConnectionPlanner")
    # ---------------- R1 ---------------------------------------------------------------
    rep.rule("C12-R1", "_compute_network_ids keys ids by (source entity, colour of the edge); a new key takes the counter and the counter advances in the same branch (ids pairwise distinct); "
             "direct and spanning-tree routing pass the id of the edge's own source group to route_signal")
    cni = cp.methods["_compute_network_ids"]
    keys = [n for n in walk_local(cni.node) if isinstance(n, ast.Assign) and isinstance(n.value, ast.Tuple) and len(n.value.elts) == 2 and "source_entity_id" in norm(n.value.elts[0]) and "color" in norm(n.value.elts[1])]
    rep.check(bool(keys), "C12-R1", "network key is (source entity, colour)", norm(keys[0].value) if keys else "key tuple not found", cni.loc(keys[0]) if keys else cni.loc())
    du = DefUse(cni)
    col_src = [norm(v) for v in du.value_exprs("color")]
    rep.check(any("_edge_color_map" in s for s in col_src), "C12-R1", "the colour in the key is the edge's assigned colour", str(col_src), cni.loc())
    cfg = CFG(cni.node)
    news = [s for s in cfg.stmts() if isinstance(s, ast.If) and isinstance(s.test, ast.Compare) and isinstance(s.test.ops[0], ast.NotIn)]
    ok = False
    detail = "no `key not in map` branch"
    if news:
        body = news[0].body
        assigns = [s for s in body if isinstance(s, ast.Assign) and isinstance(s.targets[0], ast.Subscript)]
        incs = [s for s in body if isinstance(s, ast.AugAssign) and isinstance(s.op, ast.Add) and isinstance(s.value, ast.Constant) and s.value.value >= 1]
        ok = bool(assigns) and bool(incs) and norm(assigns[0].value) == norm(incs[0].target)
        detail = "; ".join(norm(s) for s in body)
    else:
        sd = [c for c in calls_in(cni.node, "setdefault")]
        detail = "; ".join(norm(c) for c in sd) or detail
    rep.check(ok, "C12-R1", "each new (source, colour) key gets a fresh id (counter advances when a key is added)", detail + ("" if ok else ": without the increment every network shares one id and relays are reused across networks"), cni.loc(news[0]) if news else cni.loc())
    st = [n for n in walk_local(cni.node) if isinstance(n, ast.Assign) and norm(n.targets[0]) == "self._edge_network_ids[edge_key]"]
    rep.check(bool(st) and norm(st[0].value) == "network_id", "C12-R1", "every edge records the id of its source group", norm(st[0]) if st else "", cni.loc())
    rcr = cp.methods["_route_connection_with_relays"]
    c = calls_in(rcr.node, "route_signal")
    dur = DefUse(rcr)
    ok = bool(c) and len(c[0].args) >= 5 and norm(c[0].args[4]) == "network_id" and any("get_network_id_for_edge(edge.source_entity_id, edge.sink_entity_id, edge.resolved_signal_name)" in norm(v) for v in dur.value_exprs("network_id"))
    rep.check(ok, "C12-R1", "direct routing passes the edge's own network id", norm(c[0])[:100] if c else "", rcr.loc())
    mst = cp.methods["_apply_mst_to_source_fanout"]
    dum = DefUse(mst)
    ok = any("get_network_id_for_edge(source_id, sink_ids[0], signal_name)" in norm(v) for v in dum.value_exprs("network_id")) and any(call_name(x) == "_route_mst_edge" and norm(x.args[-1]) == "network_id" for x in calls_in(mst.node))
    rep.check(ok, "C12-R1", "spanning-tree routing passes the source group's network id", "get_network_id_for_edge(source_id, ...) -> _route_mst_edge(..., network_id)", mst.loc())
    rme = cp.methods["_route_mst_edge"]
    c2 = calls_in(rme.node, "route_signal")
    rep.check(bool(c2) and norm(c2[0].args[4]) == "network_id", "C12-R1", "_route_mst_edge forwards the id to the relay router", norm(c2[0])[:90] if c2 else "", rme.loc())

    # ---------------- R2 ---------------------------------------------------------------
    rep.rule("C12-R2", "RelayNode.can_route_network(id, colour) is `no network on that colour or the same id`; every site that returns or enumerates an existing relay calls it first; add_network records every hop used")
    rn = repo.cls("RelayNode")
    crn = rn.methods["can_route_network"]
    ret = [n for n in walk_local(crn.node) if isinstance(n, ast.Return)]
    sel = [n for n in walk_local(crn.node) if isinstance(n, ast.Assign) and norm(n.targets[0]) == "networks"]
    ok = bool(ret) and norm(ret[0].value) in ("len(networks) == 0 or network_id in networks", "not networks or network_id in networks") and bool(sel) and norm(sel[0].value) == "self.networks_red if wire_color == 'red' else self.networks_green"
    rep.check(ok, "C12-R2", "a relay accepts a network only if that colour is free or already carries it", (norm(ret[0].value) if ret else "") + " | " + (norm(sel[0].value) if sel else ""), crn.loc())
    an = rn.methods["add_network"]
    ok = any(isinstance(n, ast.If) and norm(n.test) == "wire_color == 'red'" and "networks_red.add(network_id)" in norm(n.body[0]) and "networks_green.add(network_id)" in norm(n.orelse[0]) for n in walk_local(an.node))
    rep.check(ok, "C12-R2", "add_network records the id on the colour used", "red -> networks_red, else networks_green" if ok else "colour/record mismatch", an.loc())
    net = repo.cls("RelayNetwork")
    n_sites = 0
    for m in net.methods.values():
        pm = parents_map(m.node)
        for n in walk_local(m.node):
            if isinstance(n, ast.For) and norm(n.iter) == "self.relay_nodes.values()" and m.name not in ("find_relay_near", "_get_relay_node_by_id"):
                n_sites += 1
                # every use of the loop's node (return / store) must be under can_route_network
                uses = [x for x in ast.walk(n) if isinstance(x, ast.Return) and x.value is not None and norm(x.value) == norm(n.target)] + \
                       [x for x in ast.walk(n) if isinstance(x, ast.Assign) and isinstance(x.targets[0], ast.Subscript) and norm(n.target) in norm(x.value)]
                for u in uses:
                    gs = [norm(t) for t, pol in guard_chain(m, u, pm) if pol]
                    ok = any("can_route_network(network_id, wire_color)" in g for g in gs)
                    rep.check(ok, "C12-R2", f"{m.short}: an existing relay is offered only after can_route_network", "; ".join(gs)[:150] or "unguarded", m.loc(u))
    rep.floor("C12-R2", "relay reuse sites", n_sites, 2)
    rs = net.methods["route_signal"]
    ok = any(isinstance(n, ast.For) and "existing_path" in norm(n.iter) and any(call_name(x) == "add_network" for x in calls_in(n)) for n in walk_local(rs.node))
    rep.check(ok, "C12-R2", "a path through existing relays records the network on every relay used", "for relay in existing_path: add_network" if ok else "missing", rs.loc())
    pcr = net.methods["_plan_and_create_relay_path"]
    cfgp = CFG(pcr.node)
    apps = [s for s in cfgp.stmts() if isinstance(s, ast.Expr) and norm(s.value).startswith("path.append(")]
    adds = [s for s in cfgp.stmts() if isinstance(s, ast.Expr) and norm(s.value) == "relay_node.add_network(network_id, wire_color)"]
    rep.check(bool(apps) and bool(adds) and cfgp.dominates(adds[0], apps[0]), "C12-R2", "a planned hop records the network before it is used", "add_network dominates path.append", pcr.loc())
    fin = net.methods["_finalize_relay_creation"]
    ok = not any(call_name(c) == "add_network" for c in calls_in(fin.node)) and any(call_name(c) == "add_relay_node" for c in calls_in(fin.node))
    rep.check(ok, "C12-R2", "a new relay starts with no network", "created empty; the caller records the network", fin.loc())

    # ---------------- R3 ---------------------------------------------------------------
    rep.rule("C12-R3", "plan_wire_colors groups edges by (sink, resolved signal); within a group every pair of distinct sources gets a conflict edge unless both come from one merge; "
             "a node's neighbours are pushed with the opposite colour")
    pw = repo.func("plan_wire_colors")
    gk = [n for n in walk_local(pw.node) if isinstance(n, ast.Subscript) and norm(n.value) == "sink_groups" and isinstance(n.slice, ast.Tuple)]
    ok = bool(gk) and [norm(e) for e in gk[0].slice.elts] == ["edge.sink_entity_id", "edge.resolved_signal_name"]
    rep.check(ok, "C12-R3", "edges are grouped by (sink, resolved signal)", norm(gk[0].slice) if gk else "", pw.loc())
    pm = parents_map(pw.node)
    conf = [n for n in walk_local(pw.node) if isinstance(n, ast.Expr) and norm(n.value) == "graph[a].add(b)"]
    if not conf:
        rep.bad("C12-R3", "conflict edges are added between distinct sources", "graph[a].add(b) not found", pw.loc())
    else:
        gs = [(norm(t), pol) for t, pol in guard_chain(pw, conf[0], pm)]
        skips = [g for g, pol in gs if not pol]
        ok = set(skips) <= {"a == b", "merge_a is not None and merge_a == merge_b", "len(unique_entries) <= 1"} and "merge_a is not None and merge_a == merge_b" in skips
        rep.check(ok, "C12-R3", "only same-merge pairs are exempt from a conflict edge", "skips: " + "; ".join(skips), pw.loc(conf[0]))
        sym = any(isinstance(n, ast.Expr) and norm(n.value) == "graph[b].add(a)" for n in walk_local(pw.node))
        rep.check(sym, "C12-R3", "conflict edges are symmetric", "graph[b].add(a)" if sym else "missing", pw.loc())
    opp = [n for n in walk_local(pw.node) if isinstance(n, ast.Assign) and norm(n.targets[0]) == "opposite_color"]
    ok = bool(opp) and norm(opp[0].value) == "WIRE_COLORS[1] if desired_color == WIRE_COLORS[0] else WIRE_COLORS[0]"
    nd = [n for n in walk_local(pw.node) if isinstance(n, ast.Assign) and norm(n.targets[0]) == "neighbor_desired"]
    ok = ok and bool(nd) and norm(nd[0].value) == "neighbor_locked or opposite_color"
    rep.check(ok, "C12-R3", "neighbours in the conflict graph get the opposite colour (unless locked)", norm(opp[0].value) if opp else "", pw.loc())
    from ..core import module_const
    wc = module_const(repo, pw.module, "WIRE_COLORS")
    rep.check(tuple(wc) == ("red", "green"), "C12-R3", "exactly two wire colours", str(wc), pw.module.rel + ":1")

    # ---------------- R4 ---------------------------------------------------------------
    rep.rule("C12-R4", "optimising one memory cell re-points only that cell's reads (the feedback rewrite walks the table of all reads)")
    from .shared import reads_repointed_only_for_own_cell
    reads_repointed_only_for_own_cell(repo, rep, "C12-R4")
