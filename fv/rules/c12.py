"""C12 Independent computations do not interfere — the mechanisms that keep networks apart where the compiler adds shared infrastructure (thin, stated as such).

R1 network identity: ids keyed by (source entity, colour), pairwise distinct, and each routed edge passes the id of its own source group to the relay router
R2 relay reuse guard: a relay carries a network on a colour only if it carries none or the same one; every reuse site asks first; every hop used is recorded
R3 conflict graph: edges are grouped by (sink, resolved signal) and every pair of distinct sources not from one merge gets a conflict edge; neighbours get opposite colours
"""

from __future__ import annotations

import ast

from ..cfg import CFG
from ..core import AnalysisError, Repo, Report, call_name, calls_in, kwarg, norm, parents_map, walk_local
from ..dataflow import DefUse
from ..sites import guard_chain
from .util import canon, cguards
import re


def run(repo: Repo, rep: Report, tier: str) -> None:
    cp = repo.cls("ConnectionPlanner")
    # ---------------- R1 ---------------------------------------------------------------
    rep.rule("C12-R1", "_compute_network_ids keys ids by (source entity, colour of the edge); a new key takes the counter and the counter advances in the same branch (ids pairwise distinct); "
             "direct and spanning-tree routing pass the id of the edge's own source group to route_signal")
    cni = cp.methods["_compute_network_ids"]
    ccni = canon(cni)
    keys = [n for n in walk_local(cni.node) if isinstance(n, ast.Assign) and isinstance(n.value, ast.Tuple) and len(n.value.elts) == 2 and ccni.text(n.value.elts[0]).endswith(".source_entity_id")
            and not ccni.text(n.value.elts[1]).endswith("_entity_id")]
    rep.check(bool(keys), "C12-R1", "network key is (source entity, colour)", norm(keys[0].value) if keys else "key tuple not found", cni.loc(keys[0]) if keys else cni.loc())
    col_src = ccni.text(keys[0].value.elts[1]) if keys else ""
    E_ = ccni.text(keys[0].value.elts[0])[: -len(".source_entity_id")] if keys else ""
    rep.check(col_src == f"self._edge_color_map.get(({E_}.source_entity_id, {E_}.sink_entity_id, {E_}.resolved_signal_name), 'red')", "C12-R1", "the colour in the key is the edge's assigned colour", col_src, cni.loc())
    cfg = CFG(cni.node)
    news = [s for s in cfg.stmts() if isinstance(s, ast.If) and isinstance(s.test, ast.Compare) and isinstance(s.test.ops[0], ast.NotIn)]
    ok = False
    detail = "no `key not in map` branch"
    if news:
        body = news[0].body
        assigns = [s for s in body if isinstance(s, ast.Assign) and isinstance(s.targets[0], ast.Subscript)]
        incs = [s for s in body if isinstance(s, ast.AugAssign) and isinstance(s.op, ast.Add) and isinstance(s.value, ast.Constant) and s.value.value >= 1]
        ok = bool(assigns) and bool(incs) and norm(assigns[0].value) == norm(incs[0].target)
        detail = "; ".join(norm(s) for s in body)
    else:
        sd = [c for c in calls_in(cni.node, "setdefault")]
        detail = "; ".join(norm(c) for c in sd) or detail
    rep.check(ok, "C12-R1", "each new (source, colour) key gets a fresh id (counter advances when a key is added)", detail + ("" if ok else ": without the increment every network shares one id and relays are reused across networks"), cni.loc(news[0]) if news else cni.loc())
    st = [n for n in walk_local(cni.node) if isinstance(n, ast.Assign) and isinstance(n.targets[0], ast.Subscript) and norm(n.targets[0].value) == "self._edge_network_ids"]
    ok = bool(st) and ccni.text(st[0].targets[0].slice) == f"({E_}.source_entity_id, {E_}.sink_entity_id, {E_}.resolved_signal_name)" \
        and ccni.text(st[0].value) == "{}[" + (ccni.text(keys[0].value)[1:-1] if keys else "?") + "]"
    rep.check(ok, "C12-R1", "every edge records the id of its source group", ccni.text(st[0].value)[:120] if st else "", cni.loc())
    rcr = cp.methods["_route_connection_with_relays"]
    c = calls_in(rcr.node, "route_signal")
    ok = bool(c) and len(c[0].args) >= 5 and canon(rcr).text(c[0].args[4]) == "self.get_network_id_for_edge(edge.source_entity_id, edge.sink_entity_id, edge.resolved_signal_name)"
    rep.check(ok, "C12-R1", "direct routing passes the edge's own network id", canon(rcr).text(c[0].args[4])[:100] if c and len(c[0].args) >= 5 else "", rcr.loc())
    mst = cp.methods["_apply_mst_to_source_fanout"]
    ok = any(call_name(x) == "_route_mst_edge" and canon(mst).text(x.args[-1]) == "self.get_network_id_for_edge(source_id, sink_ids[0], signal_name)" for x in calls_in(mst.node))
    rep.check(ok, "C12-R1", "spanning-tree routing passes the source group's network id", "get_network_id_for_edge(source_id, ...) -> _route_mst_edge(..., network_id)", mst.loc())
    rme = cp.methods["_route_mst_edge"]
    c2 = calls_in(rme.node, "route_signal")
    rep.check(bool(c2) and norm(c2[0].args[4]) == "network_id", "C12-R1", "_route_mst_edge forwards the id to the relay router", norm(c2[0])[:90] if c2 else "", rme.loc())

    # ---------------- R2 ---------------------------------------------------------------
    rep.rule("C12-R2", "RelayNode.can_route_network(id, colour) is `no network on that colour or the same id`; every site that returns or enumerates an existing relay calls it first; add_network records every hop used")
    rn = repo.cls("RelayNode")
    crn = rn.methods["can_route_network"]
    ret = [n for n in walk_local(crn.node) if isinstance(n, ast.Return)]
    N_ = "self.networks_red if wire_color == 'red' else self.networks_green"
    got = canon(crn).text(ret[0].value) if ret else ""
    ok = got in (f"len({N_}) == 0 or network_id in ({N_})", f"not ({N_}) or network_id in ({N_})")
    rep.check(ok, "C12-R2", "a relay accepts a network only if that colour is free or already carries it", got, crn.loc())
    an = rn.methods["add_network"]
    ok = any(isinstance(n, ast.If) and norm(n.test) == "wire_color == 'red'" and "networks_red.add(network_id)" in norm(n.body[0]) and "networks_green.add(network_id)" in norm(n.orelse[0]) for n in walk_local(an.node))
    rep.check(ok, "C12-R2", "add_network records the id on the colour used", "red -> networks_red, else networks_green" if ok else "colour/record mismatch", an.loc())
    net = repo.cls("RelayNetwork")
    n_sites = 0
    for m in net.methods.values():
        pm = parents_map(m.node)
        for n in walk_local(m.node):
            if isinstance(n, ast.For) and norm(n.iter) == "self.relay_nodes.values()" and m.name not in ("find_relay_near", "_get_relay_node_by_id"):
                n_sites += 1
                # every use of the loop's node (return / store) must be under can_route_network
                uses = [x for x in ast.walk(n) if isinstance(x, ast.Return) and x.value is not None and norm(x.value) == norm(n.target)] + \
                       [x for x in ast.walk(n) if isinstance(x, ast.Assign) and isinstance(x.targets[0], ast.Subscript) and norm(n.target) in norm(x.value)]
                for u in uses:
                    gs = [norm(t) for t, pol in guard_chain(m, u, pm) if pol]
                    ok = any("can_route_network(network_id, wire_color)" in g for g in gs)
                    rep.check(ok, "C12-R2", f"{m.short}: an existing relay is offered only after can_route_network", "; ".join(gs)[:150] or "unguarded", m.loc(u))
    # the same obligation for a relay obtained through a lookup helper instead of a loop: a method that routes one network (it has `network_id`) and returns a node
    # a lookup handed it offers an existing relay too
    LOOKUPS = ("find_relay_near", "_get_relay_node_by_id")
    for m in net.methods.values():
        if "network_id" not in m.params or m.name in LOOKUPS:
            continue
        du_ = DefUse(m)
        pm = parents_map(m.node)
        for r_ in [x for x in walk_local(m.node) if isinstance(x, ast.Return) and isinstance(x.value, ast.Name)]:
            srcs = [v for v in du_.value_exprs(r_.value.id) if isinstance(v, ast.Call) and (call_name(v) in LOOKUPS or norm(v.func) == "self.relay_nodes.get")]
            srcs += [v for v in du_.value_exprs(r_.value.id) if isinstance(v, ast.Subscript) and norm(v.value) == "self.relay_nodes"]
            if not srcs:
                continue
            n_sites += 1
            gs = [norm(t) for t, pol in guard_chain(m, r_, pm) if pol]
            ok = any(f"{r_.value.id}.can_route_network(network_id, wire_color)" in g for g in gs)
            rep.check(ok, "C12-R2", f"{m.short}: an existing relay is offered only after can_route_network", "; ".join(gs)[:150] if ok else
                      f"a relay found by {call_name(srcs[0]) if isinstance(srcs[0], ast.Call) else 'table lookup'} is returned under `{'; '.join(gs)[:110] or 'no test'}`: a pole that already carries another network on that colour joins the two networks", m.loc(r_))
    rep.floor("C12-R2", "relay reuse sites", n_sites, 2)
    # the same obligation stated at the recording end: whatever pole gets a network recorded on it (add_network) was either created or filtered by a routine
    # that is handed the network id (covered above), is a hop of the path search (which filters by can_route_network), or is tested right here; a pole
    # fetched by a raw lookup (no network id in the helper's parameters) and recorded without the test joins two networks on that colour
    n_rec = 0
    for m in net.methods.values():
        du_ = DefUse(m)
        pm = parents_map(m.node)
        for c in calls_in(m.node, "add_network"):
            if not (isinstance(c.func, ast.Attribute) and isinstance(c.func.value, ast.Name)):
                rep.unknown("C12-R2", f"{m.short}: add_network on an expression that is not a local", norm(c.func)[:80], m.loc(c))
                continue
            n_rec += 1
            recv = c.func.value.id
            raw = []
            for v in du_.expand(c.func.value):
                if isinstance(v, ast.Call) and isinstance(v.func, ast.Attribute) and norm(v.func.value) == "self" and v.func.attr in net.methods:
                    if "network_id" not in net.methods[v.func.attr].params:
                        raw.append(v.func.attr)
                elif isinstance(v, ast.Call) and call_name(v) == "RelayNode":
                    pass
                else:
                    raw.append(norm(v)[:40])
            in_path_loop = False
            q = pm.get(c)
            while q is not None and q is not m.node:
                if isinstance(q, ast.For) and "self._find_path_through_existing_relays(" in canon(m).text(q.iter):
                    in_path_loop = True
                q = pm.get(q)
            gs = [norm(t) for t, pol in guard_chain(m, c, pm) if pol]
            tested = any(f"{recv}.can_route_network(network_id, wire_color)" in g for g in gs)
            ok = not raw or in_path_loop or tested
            rep.check(ok, "C12-R2", f"{m.short}: a network is recorded only on a pole that was filtered or created for it",
                      ("hop of the filtered path search" if in_path_loop else "tested here" if tested else "pole comes from a routine that is handed the network id") if ok else
                      f"pole obtained by {', '.join(sorted(set(raw)))} is recorded under `{'; '.join(gs)[:110] or 'no test'}` without can_route_network: a pole that already carries another network on that colour joins the two", m.loc(c))
    rep.floor("C12-R2", "add_network recording sites", n_rec, 1)  # the per-site rules below say which site must exist; a floor of 2 here turned a removed site (seeds C18/w4-m1, C19/w5-m2) into an analysis stop
    rs = net.methods["route_signal"]
    ok = any(isinstance(n, ast.For) and "self._find_path_through_existing_relays(" in canon(rs).text(n.iter) and any(call_name(x) == "add_network" for x in calls_in(n)) for n in walk_local(rs.node))
    rep.check(ok, "C12-R2", "a path through existing relays records the network on every relay used", "for relay in existing_path: add_network" if ok else "missing", rs.loc())
    pcr = net.methods["_plan_and_create_relay_path"]
    cfgp = CFG(pcr.node)
    returned = {n.value.id for n in walk_local(pcr.node) if isinstance(n, ast.Return) and isinstance(n.value, ast.Name)}
    apps = [s for s in cfgp.stmts() if isinstance(s, ast.Expr) and isinstance(s.value, ast.Call) and call_name(s.value) == "append" and isinstance(s.value.func, ast.Attribute) and isinstance(s.value.func.value, ast.Name) and s.value.func.value.id in returned]
    adds = [s for s in cfgp.stmts() if isinstance(s, ast.Expr) and isinstance(s.value, ast.Call) and call_name(s.value) == "add_network" and [norm(a) for a in s.value.args] == ["network_id", "wire_color"]]
    rep.check(bool(apps) and bool(adds) and cfgp.dominates(adds[0], apps[0]), "C12-R2", "a planned hop records the network before it is used", "add_network dominates path.append", pcr.loc())
    fin = net.methods["_finalize_relay_creation"]
    ok = not any(call_name(c) == "add_network" for c in calls_in(fin.node)) and any(call_name(c) == "add_relay_node" for c in calls_in(fin.node))
    rep.check(ok, "C12-R2", "a new relay starts with no network", "created empty; the caller records the network", fin.loc())

    # ---------------- R3 ---------------------------------------------------------------
    rep.rule("C12-R3", "plan_wire_colors groups edges by (sink, resolved signal); within a group every pair of distinct sources gets a conflict edge unless both come from one merge; "
             "a node's neighbours are pushed with the opposite colour")
    pw = repo.func("plan_wire_colors")
    cpw = canon(pw)
    du3 = DefUse(pw)

    def _local_of(name: str, ctor: str, arg: str) -> bool:
        return any(isinstance(v, ast.Call) and call_name(v) == ctor and v.args and norm(v.args[0]) == arg for v in du3.value_exprs(name))

    gk = [c for c in calls_in(pw.node, "append") if isinstance(c.func, ast.Attribute) and isinstance(c.func.value, ast.Subscript) and isinstance(c.func.value.value, ast.Name)
          and _local_of(c.func.value.value.id, "defaultdict", "list") and isinstance(c.func.value.slice, ast.Tuple)]
    keytxt = [cpw.text(e) for e in gk[0].func.value.slice.elts] if gk else []
    ok = len(keytxt) == 2 and keytxt[0].endswith(".sink_entity_id") and keytxt[1] == keytxt[0][: -len(".sink_entity_id")] + ".resolved_signal_name"
    rep.check(ok, "C12-R3", "edges are grouped by (sink, resolved signal)", str(keytxt), pw.loc())
    adds = [n for n in walk_local(pw.node) if isinstance(n, ast.Expr) and isinstance(n.value, ast.Call) and call_name(n.value) == "add" and isinstance(n.value.func, ast.Attribute)
            and isinstance(n.value.func.value, ast.Subscript) and isinstance(n.value.func.value.value, ast.Name) and _local_of(n.value.func.value.value.id, "defaultdict", "set")
            and len(n.value.args) == 1 and isinstance(n.value.args[0], ast.Name) and isinstance(n.value.func.value.slice, ast.Name)]
    conf = None
    sym = False
    for x in adds:
        for y in adds:
            if x is not y and x.value.func.value.value.id == y.value.func.value.value.id and x.value.func.value.slice.id == y.value.args[0].id and y.value.func.value.slice.id == x.value.args[0].id:
                conf = conf or x
                sym = True
    if conf is None:
        rep.bad("C12-R3", "conflict edges are added between distinct sources", "graph[a].add(b) / graph[b].add(a) pair not found", pw.loc())
    else:
        ta, tb = cpw.text(conf.value.func.value.slice), cpw.text(conf.value.args[0])
        kinds = []
        for g, pol in cguards(pw, conf):
            if pol:
                kinds.append(f"extra condition `{g[:60]}`")
            elif g in (f"{ta} == {tb}", f"{tb} == {ta}"):
                kinds.append("a == b")
            elif ta.endswith("[0]") and tb.endswith("[0]") and g == f"{ta[:-3]}[1] is not None and {ta[:-3]}[1] == {tb[:-3]}[1]":
                kinds.append("same merge")
            elif re.fullmatch(r"len\(.+\) <= 1", g):
                kinds.append("single source")
            else:
                kinds.append(f"extra exemption `{g[:60]}`")
        ok = set(kinds) <= {"a == b", "same merge", "single source"} and "same merge" in kinds
        rep.check(ok, "C12-R3", "only same-merge pairs are exempt from a conflict edge", "skips: " + "; ".join(kinds), pw.loc(conf))
        rep.check(sym, "C12-R3", "conflict edges are symmetric", "graph[b].add(a)" if sym else "missing", pw.loc())
    pushes = [c for c in calls_in(pw.node, "append") if c.args and isinstance(c.args[0], ast.Tuple) and len(c.args[0].elts) == 2
              and re.fullmatch(r"\(locked_colors or \{\}\)\.get\((.+)\) or \(WIRE_COLORS\[1\] if (.+) == WIRE_COLORS\[0\] else WIRE_COLORS\[0\]\)", cpw.text(c.args[0].elts[1]))]
    ok = False
    shown = ""
    for c in pushes:
        m_ = re.fullmatch(r"\(locked_colors or \{\}\)\.get\((.+)\) or \(WIRE_COLORS\[1\] if (.+) == WIRE_COLORS\[0\] else WIRE_COLORS\[0\]\)", cpw.text(c.args[0].elts[1]))
        if m_.group(1) == cpw.text(c.args[0].elts[0]):
            ok = True
            shown = "push (neighbour, locked(neighbour) or opposite(colour of node))"
    rep.check(ok, "C12-R3", "neighbours in the conflict graph get the opposite colour (unless locked)", shown, pw.loc())
    from ..core import module_const
    wc = module_const(repo, pw.module, "WIRE_COLORS")
    rep.check(tuple(wc) == ("red", "green"), "C12-R3", "exactly two wire colours", str(wc), pw.module.rel + ":1")

    # ---------------- R4 ---------------------------------------------------------------
    rep.rule("C12-R4", "optimising one memory cell re-points only that cell's reads (the feedback rewrite walks the table of all reads)")
    from .shared import reads_repointed_only_for_own_cell
    reads_repointed_only_for_own_cell(repo, rep, "C12-R4", absent_is="ok")

    # ---------------- R5 ---------------------------------------------------------------
    rep.rule("C12-R5", "the colour lock for a memory's data channel binds only producers that actually feed that memory's write gate with its data signal: the lock store is guarded by "
             "`write gate in the edge's sinks` and by `the edge carries the cell's signal` (both, not either), so an unrelated producer of the same signal name keeps its free colour")
    from .util import canon as _c5, stmt_of as _so5
    from ..sites import guard_chain as _gc5
    dl5 = repo.func("LayoutPlanner._determine_locked_wire_colors")
    c5 = _c5(dl5)
    MOD = "ELEM(self._memory_modules.values())"
    EDGE = "ELEM(self.signal_graph.iter_edges())"
    locks5 = [n for n in walk_local(dl5.node) if isinstance(n, ast.Assign) and isinstance(n.targets[0], ast.Subscript) and isinstance(n.value, ast.Constant) and n.value.value in ("red", "green")
              and c5.text(n.targets[0].slice) == f"(ELEM({EDGE}[1]), {MOD}.signal_type)"]
    rep.floor("C12-R5", "data-channel lock stores", len(locks5), 1)
    for n in locks5:
        conj: list[str] = []
        for t, pol in _gc5(dl5, _so5(dl5, n), c5.pm):
            if not pol:
                continue
            ct = c5.node(t)
            parts = ct.values if isinstance(ct, ast.BoolOp) and isinstance(ct.op, ast.And) else [ct]
            conj += [" ".join(ast.unparse(x).split()) for x in parts]
        feeds = any(x == f"{MOD}.write_gate.ir_node_id in {EDGE}[2]" for x in conj)
        carries = any(f"== {MOD}.signal_type" in x and EDGE in x for x in conj)
        rep.check(feeds and carries, "C12-R5", "the data-channel lock is limited to edges into this memory's write gate that carry its signal",
                  "guarded by both conditions" if feeds and carries else
                  f"feeds-write-gate: {feeds}, carries-the-signal: {carries}: every producer of a signal with the same name anywhere in the blueprint is forced onto the memory's colour, so two such values meeting at one combinator are summed", dl5.loc(n))

    # ---------------- R6 ---------------------------------------------------------------
    from .shared import borrow as _borrow12
    _borrow12(repo, rep, "C10", "C10-R7", "C12-R6", "common-subexpression elimination never shares a producer between two computations unless it is a pure function of shared inputs: constants stay one per use")

    # ---------------- R7 ---------------------------------------------------------------
    rep.rule("C12-R7", "results handed back through a side channel of the lowerer belong to the call just made: every read of `returned_entity_id` after lowering a call is preceded, on "
             "every path, by a reset of the channel that itself precedes that call (otherwise the entity returned by an earlier, unrelated call is bound to this name)")
    n7 = 0
    # equivalent discipline: every function that stores an entity into the channel empties it first, on all of its paths
    from ..cfg import ENTRY as _ENTRY7, EXIT as _EXIT7
    def _is_chan_store(s, none):
        return isinstance(s, ast.Assign) and any(isinstance(t, ast.Attribute) and t.attr == "returned_entity_id" for t in s.targets) and (
            (isinstance(s.value, ast.Constant) and s.value.value is None) == none)
    writers7 = [f for f in repo.all_funcs() if ".lowering." in f.module.name + "." and any(_is_chan_store(s, False) for s in walk_local(f.node))]
    def _writer_resets(f):
        g = CFG(f.node)
        rs = [s for s in g.stmts() if _is_chan_store(s, True)]
        ws = [s for s in g.stmts() if _is_chan_store(s, False)]
        return any(all(g.dominates(r, w) for w in ws) and not g.reaches_avoiding(_ENTRY7, {id(_EXIT7)}, lambda n, r=r: n is r, start_inclusive=False) for r in rs)
    callee_resets7 = bool(writers7) and all(_writer_resets(f) for f in writers7)
    rep.analysed["C12-R7:writers of the channel"] = [f.short for f in writers7]
    for f7 in repo.all_funcs():
        if ".lowering." not in f7.module.name + ".":
            continue
        reads7 = [n for n in walk_local(f7.node) if isinstance(n, ast.If) and any(isinstance(x, ast.Attribute) and x.attr == "returned_entity_id" and isinstance(x.ctx, ast.Load) for x in ast.walk(n.test))]
        if not reads7:
            continue
        g7 = CFG(f7.node)
        simple7 = [s for s in g7.stmts() if not isinstance(s, (ast.If, ast.For, ast.While, ast.Try, ast.With))]
        resets7 = [s for s in simple7 if isinstance(s, ast.Assign) and any(isinstance(t, ast.Attribute) and t.attr == "returned_entity_id" for t in s.targets)
                   and isinstance(s.value, ast.Constant) and s.value.value is None]
        calls7 = [s for s in simple7 if any(call_name(c) == "lower_expr" for c in calls_in(s))]
        for r in reads7:
            n7 += 1
            mine = [c for c in calls7 if g7.dominates(c, r)]
            ok7 = any(g7.dominates(s, c) for c in mine for s in resets7) or (bool(mine) and callee_resets7)
            rep.check(ok7, "C12-R7", f"{f7.short}: entity returned by the call (read #{reads7.index(r) + 1}) is the one of this call",
                      "reset -> lower_expr -> read on every path" if ok7 else
                      ("no lowering call dominates the read" if not mine else "the channel is not reset before the call: `Entity a = f(); Signal s = g();` style sequences bind a stale entity "
                       "whenever the second callee returns none"), f7.loc(r))
            # ... and what the call returned is bound: inside the `is not None` branch the store into entity_refs carries no further condition (the analyzer's
            # symbol table knows top-level names only at this stage, so a test on it silently drops the entity for every local)
            binds = [x for x in ast.walk(r) if isinstance(x, ast.Assign) and isinstance(x.targets[0], ast.Subscript) and norm(x.targets[0].value) == "self.parent.entity_refs"
                     and "returned_entity_id" in norm(x.value)]
            extra = []
            for b_ in binds:
                chain_ = [g for g, pol in cguards(f7, b_)]
                own_ = [g for g, pol in cguards(f7, r)] + [canon(f7).text(r.test)]
                extra += [g for g in chain_ if g not in own_ and "returned_entity_id" not in g]
            okb = bool(binds) and not extra
            rep.check(okb, "C12-R7", f"{f7.short}: the returned entity (read #{reads7.index(r) + 1}) is bound to the declared/assigned name whenever there is one",
                      "unconditional store into entity_refs" if okb else ("no store into entity_refs" if not binds else
                      f"the store is additionally conditioned on `{extra[0][:90]}`: for a name the test does not know (a local of a function or loop body) the entity is dropped and later property writes hit the previous entity"), f7.loc(binds[0] if binds else r))
    rep.floor("C12-R7", "reads of the returned-entity channel", n7, 2)

    # ---------------- R8 ---------------------------------------------------------------
    from .shared import borrow as _borrow12b
    _borrow12b(repo, rep, "C15", "C15-R12", "C12-R8", "a call made by one computation leaves nothing behind for the next: the parameters bound for the call are unbound after it", floor=1)

    # ---------------- R9 ---------------------------------------------------------------
    _borrow12b(repo, rep, "C15", "C15-R3", "C12-R9", "two expansions of one declaration never share a memory cell: a re-declaration is recognised because the builder indexes every node",
               select=lambda o: "indexes every node" in o.construct or "memory id" in o.construct, floor=2)

    # ---------------- R10 --------------------------------------------------------------
    rep.rule("C12-R10", "two computations that share an input do not see each other's operands: a source wired to two sinks joins their inputs on its colour, so a signal name the "
             "two sinks get from different sources must not travel on that colour — besides the per-sink conflicts plan_wire_colors builds conflicts from the fan-out of each "
             "source (a table source -> its sinks, pairs of sinks, `graph[joining].add(other)`); without that pass `x = a * b; y = c * b` with a, c on one signal gives "
             "(a + c) * b twice")
    pw10 = repo.func("plan_wire_colors")
    # name-free: the conflict graph is the table that receives symmetric stores `G[p].add(q)` / `G[q].add(p)`; the per-sink pass draws both ends from one sink's entry
    # list, the fan-out pass binds one end as the key of a loop over a table's items (the source that fans out) and the other further inside
    adds10 = [c for c in calls_in(pw10.node, "add") if isinstance(c.func, ast.Attribute) and isinstance(c.func.value, ast.Subscript) and isinstance(c.func.value.value, ast.Name)
              and isinstance(c.func.value.slice, ast.Name) and c.args and isinstance(c.args[0], ast.Name)]
    sym10 = [(a, b) for a in adds10 for b in adds10 if a is not b and a.func.value.value.id == b.func.value.value.id
             and a.func.value.slice.id == b.args[0].id and b.func.value.slice.id == a.args[0].id and a.lineno < b.lineno]
    pm10 = parents_map(pw10.node)
    passes10 = []
    fan = set()
    for a, _b in sym10:
        ends = {a.func.value.slice.id, a.args[0].id}
        cur = a
        while cur in pm10:
            cur = pm10[cur]
            if isinstance(cur, ast.For) and ".items()" in norm(cur.iter) and isinstance(cur.target, ast.Tuple) and isinstance(cur.target.elts[0], ast.Name) and cur.target.elts[0].id in ends:
                passes10.append(cur)
                fan.add(norm(cur.iter)[:40])
                break
    # the fan-out table the pass walks has an entry for every (source, sink) edge: an edge left out (because its name has a single source at that sink, say) is a
    # source that joins two sinks without the pass knowing
    for lp10 in passes10:
        tnames = [x.id for x in ast.walk(lp10.iter) if isinstance(x, ast.Name)]
        fills = [c for c in calls_in(pw10.node, "add") if isinstance(c.func, ast.Attribute) and isinstance(c.func.value, ast.Subscript) and isinstance(c.func.value.value, ast.Name)
                 and c.func.value.value.id in tnames]
        for c in fills:
            st_c = c
            while not isinstance(st_c, ast.stmt):
                st_c = pm10[st_c]
            gs10 = [(norm(t), pol) for t, pol in guard_chain(pw10, st_c, pm10)]
            rep.check(not gs10, "C12-R10", "plan_wire_colors: every edge enters the fan-out table", "unconditional" if not gs10 else
                      f"entered only under {[('' if p_ else 'not ') + g[:60] for g, p_ in gs10]}: a source left out of the table joins its sinks unnoticed", pw10.loc(c))
    rep.check(bool(passes10), "C12-R10", "plan_wire_colors separates a fanned-out source from the differing sources of its sinks", f"fan-out table(s) {sorted(fan)}; conflict pass present" if passes10 else
              "conflicts are built per sink only: sources that meet through a third source's fan-out stay on one colour", pw10.loc())

    # ---------------- R11 --------------------------------------------------------------
    _borrow12b(repo, rep, "C04", "C04-R11", "C12-R11", "two independent counters on one signal type keep counting independently when something reads both", floor=1)

    # ---------------- R12 --------------------------------------------------------------
    rep.rule("C12-R12", "which of a shared source's merges keeps the default colour is decided by the order the merges were created in, not by the spelling of their ids: the list "
             "whose position picks the colour (`WIRE_COLORS[i % 2]`) is sorted with a key that compares the numeric part of an id as a number — as plain strings "
             "`wire_merge_10` comes before `wire_merge_7`, the merge a value is computed from moves to green while its other parts stay red, and the combinator that "
             "reads the merge on one colour loses a part (a program's behaviour then depends on how many ids were handed out before)")
    elc = repo.func("ConnectionPlanner._compute_edge_locked_colors")
    celc = canon(elc)
    n12 = 0
    for lp in [n for n in walk_local(elc.node) if isinstance(n, ast.For) and isinstance(n.iter, ast.Call) and call_name(n.iter) == "enumerate" and n.iter.args]:
        idx = lp.target.elts[0].id if isinstance(lp.target, ast.Tuple) and isinstance(lp.target.elts[0], ast.Name) else None
        if idx is None or not any(isinstance(x, ast.Subscript) and norm(x.value) == "WIRE_COLORS" and idx in norm(x.slice) for x in ast.walk(lp)):
            continue
        n12 += 1
        src = celc.node(lp.iter.args[0], lp)
        keyed = isinstance(src, ast.Call) and call_name(src) == "sorted" and any(k.arg == "key" for k in src.keywords)
        rep.check(keyed, "C12-R12", "_compute_edge_locked_colors: the colour-deciding order of merge ids is numeric", "sorted(..., key=...)" if keyed else
                  f"`{celc.text(lp.iter.args[0], lp)[:80]}` orders ids as strings: with ten or more ids handed out `wire_merge_10` sorts before `wire_merge_7`", elc.loc(lp))
    rep.floor("C12-R12", "colour-by-position loops over merge ids", n12, 1)

    # ---------------- R13 --------------------------------------------------------------
    _borrow12b(repo, rep, "C15", "C15-R5", "C12-R13", "a name inside a function body means the function's own parameter or local, not a top-level name another computation happens to "
               "use: every identifier resolution in the lowering asks the parameter environment first", floor=2)

    # ---------------- R14 --------------------------------------------------------------
    _borrow12b(repo, rep, "C15", "C15-R26", "C12-R14", "a memory local to one function is typed by that function's declaration, whatever another computation calls its memories", floor=1)
