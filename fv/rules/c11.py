"""C11 Compile-time arithmetic equals run-time arithmetic.

R1 folding-site discovery (operator-dispatch folders by role; ad-hoc arithmetic on constant values by taint)
R2 per (site x operator) conformance with Factorio's table (M8 classifier)
R3 literal parsing: base per prefix
"""

from __future__ import annotations

import ast

from ..arith import CMP_ORACLE, ARITH_ORACLE, L, R, SymExec, Verdict, classify, fold_paths, operator_literals, show, simp
from ..core import AnalysisError, Func, Repo, Report, call_name, norm, parents_map, walk_local
from ..dataflow import DefUse
from .util import canon, cguards, stmt_of

DSL_OPS = set(ARITH_ORACLE) | set(CMP_ORACLE) | {"/", "%", "&&", "||"}
SCOPE = (".lowering.", ".ir.optimizer", ".parsing.transformer", ".semantic.")
CONST_SOURCES = {"extract_constant_int", "_try_extract_const_value", "_get_const_value", "_resolve_constant_symbol",
                 "symbol_resolver", "fold_binary_operation", "_fold_binary_constant", "_fold_arithmetic", "_parse_number"}
ARITH_NODES = (ast.Add, ast.Sub, ast.Mult, ast.FloorDiv, ast.Mod, ast.Pow, ast.LShift, ast.RShift, ast.Div)


def dispatch_folders(repo: Repo) -> list[tuple[Func, str, str, str]]:
    """(function, op param, left param, right param) for every operator-dispatch folding function."""
    out = []
    for f in repo.all_funcs():
        if not any(s in f.module.name + "." for s in SCOPE):
            continue
        for p in f.params:
            lits = [x for x in operator_literals(f, p) if x in DSL_OPS]
            if len(lits) < 3:
                continue
            ints = []
            a = f.node.args
            for arg in a.posonlyargs + a.args + a.kwonlyargs:
                if arg.arg in (p, "self", "cls"):
                    continue
                ann = norm(arg.annotation) if arg.annotation is not None else ""
                if ann == "int":
                    ints.append(arg.arg)
            if len(ints) == 2:
                # must actually compute on them
                if any(isinstance(n, (ast.BinOp, ast.Compare)) and {x.id for x in ast.walk(n) if isinstance(x, ast.Name)} & set(ints) for n in walk_local(f.node)):
                    out.append((f, p, ints[0], ints[1]))
    return out


def run(repo: Repo, rep: Report, tier: str) -> None:
    rep.rule("C11-R1", "folding sites are discovered by role (functions dispatching on a DSL operator string over two int operands; "
             "Python arithmetic on values tainted by literal/IRConst values) and each must be classified")
    rep.rule("C11-R2", "per (site, operator): + - * ** << wrap to signed 32 bits; / truncates toward zero; % takes the sign of the dividend; "
             "zero divisor gives 0 or declines; >> arithmetic; AND OR XOR two's complement; comparisons exact; a site that declines to fold conforms")
    rep.rule("C11-R3", "number literals: prefix 0x/0o/0b select base 16/8/2, everything else base 10")

    folders = dispatch_folders(repo)
    rep.floor("C11-R1", "operator-dispatch folding functions", len(folders), 3)
    n_pairs = 0
    for f, opn, ln, rn in folders:
        lits = [x for x in operator_literals(f, opn)]
        for o in lits:
            paths, unknown = fold_paths(repo, f, opn, ln, rn, o)
            v = classify(o, paths)
            key = f"{f.short} folds '{o}'"
            n_pairs += 1
            if o not in DSL_OPS:
                rep.unknown("C11-R2", key, f"operator literal {o!r} is not in the oracle table", f.loc())
                continue
            if v.status == "CONFORMS":
                rep.ok("C11-R2", key, v.detail, f.loc())
            elif v.status == "ABSENT":
                rep.ok("C11-R2", key, "declines to fold (None)", f.loc(), nontrivial=False)
            elif v.status == "DEVIATES":
                rep.bad("C11-R2", key + f" [{v.kind}]", v.detail, f.loc())
            else:
                rep.unknown("C11-R2", key, "unrecognised folding idiom: " + v.detail + ("; " + "; ".join(unknown) if unknown else ""), f.loc())
    rep.floor("C11-R2", "(site, operator) pairs classified", n_pairs, 40)

    # ad-hoc arithmetic on constant values
    folder_funcs = {f.qual for f, *_ in folders}
    adhoc = 0
    for f in repo.all_funcs():
        if f.qual in folder_funcs or not any(s in f.module.name + "." for s in SCOPE):
            continue
        du = None
        pm = None
        for n in walk_local(f.node):
            kind = None
            operands: list[ast.AST] = []
            if isinstance(n, ast.BinOp) and isinstance(n.op, ARITH_NODES):
                kind, operands = "binop", [n.left, n.right]
            elif isinstance(n, ast.UnaryOp) and isinstance(n.op, ast.USub) and not isinstance(n.operand, ast.Constant):
                kind, operands = "neg", [n.operand]
            elif isinstance(n, ast.Call) and isinstance(n.func, ast.Name) and n.func.id in ("sum", "pow") and n.args:
                kind, operands = n.func.id, list(n.args)
            elif isinstance(n, ast.AugAssign) and isinstance(n.op, ARITH_NODES):
                kind, operands = "aug", [n.target, n.value]
            if kind is None:
                continue
            if du is None:
                du = DefUse(f)
                pm = parents_map(f.node)
            if _in_annotation(pm, n) or _stringy(n):
                continue
            tainted = False
            for o in operands:
                for lf in du.leaves(o):
                    if lf.kind == "call" and lf.text in CONST_SOURCES:
                        tainted = True
                for sub in _expand_nodes(du, o):
                    if isinstance(sub, ast.Attribute) and sub.attr == "value" and isinstance(sub.ctx, ast.Load):
                        tainted = True
            if not tainted:
                # a lowered value known to be a compile-time integer on this path (`isinstance(ref, int)` holds for the statement)
                try:
                    gs_int = cguards(f, stmt_of(f, n))
                except Exception:
                    gs_int = []
                cf = canon(f)
                for o in operands:
                    ot = cf.text(o)
                    if any(pol and g == f"isinstance({ot}, int)" for g, pol in gs_int) and ("lower_expr" in ot or "lower_" in ot):
                        tainted = True
            if not tainted:
                continue
            adhoc += 1
            # the value computed at this site: wrapped?
            outer = _outermost_expr(pm, n)
            se = SymExec(repo, f, {}, None, None)
            t = se.term(outer, {})
            core = t
            wrapped = core[0] == "wrap32"
            from .util import ckey as _ckey
            key = f"{f.short} computes {_ckey(f, n)} on constant values"
            if kind == "neg" or kind in ("sum", "pow", "aug") or (kind == "binop" and isinstance(n.op, (ast.Add, ast.Sub, ast.Mult, ast.Pow, ast.LShift))):
                rep.check(wrapped, "C11-R2", key + ("" if wrapped else " [no-wrap]"),
                          f"value is {show(t)}" + ("" if wrapped else ": unbounded Python integer, run time wraps to signed 32 bits"), f.loc(n))
            else:
                rep.unknown("C11-R2", key, f"unregistered folding site with operator {type(n.op).__name__ if hasattr(n, 'op') else kind}: {show(t)}", f.loc(n))
    rep.floor("C11-R1", "ad-hoc arithmetic sites on constant values", adhoc, 2)

    # R3 literal parsing
    pn = repo.func("DSLTransformer._parse_number")
    bases: dict[str, int] = {}
    default_base = None
    from ..core import _positive_test

    def _int_base(st: ast.stmt | None):
        if isinstance(st, ast.Return) and isinstance(st.value, ast.Call) and call_name(st.value) == "int":
            a = st.value.args
            if len(a) == 2:
                return a[1].value if isinstance(a[1], ast.Constant) else None
            return 10
        return None

    def _chain(block: list[ast.stmt]) -> None:
        # a dispatch written as if/elif/else or as early returns, with the test spelled positively or negatively: the arm taken when the
        # prefix test holds gives that prefix's base; what is left when no test holds is the default
        nonlocal default_base
        for i, st in enumerate(block):
            if isinstance(st, ast.If):
                pos, keep = _positive_test(st.test)
                prefixes = [k.value.lower() for c in ast.walk(pos) if isinstance(c, ast.Call) and call_name(c) == "startswith"
                            for k in ast.walk(c) if isinstance(k, ast.Constant) and isinstance(k.value, str)]
                cont = st.orelse if st.orelse else block[i + 1:]
                holds, fails = (st.body, cont) if keep else (cont, st.body)
                if prefixes:
                    b = _int_base(holds[0] if holds else None)
                    if b is not None:
                        for p_ in set(prefixes):
                            bases.setdefault(p_, b)
                    _chain(fails)
                    return
            elif _int_base(st) is not None:
                default_base = _int_base(st)
                return

    _chain(pn.node.body)
    want = {"0x": 16, "0o": 8, "0b": 2}
    for p, b in want.items():
        rep.check(bases.get(p) == b, "C11-R3", f"{pn.short} prefix {p} -> base {b}", f"parsed with base {bases.get(p)}", pn.loc())
    rep.check(default_base == 10, "C11-R3", f"{pn.short} default base 10", f"default base {default_base}", pn.loc())

    # ---------------- R4 ---------------------------------------------------------------
    from .shared import borrow as _borrow11
    _borrow11(repo, rep, "C03", "C03-R2", "C11-R4", "a constant write enable means what the same value on a wire means: the builder treats an enable as always-on exactly for the "
              "constants the lowerer produces for an unconditional write (1), not for any non-zero or negative constant", select=lambda o: "constant-one enables" in o.construct, floor=1)

    # ---------------- R5 ---------------------------------------------------------------
    rep.rule("C11-R5", "a comparison decided at emission is the program's comparison: wherever the emitter evaluates two constants itself (`_compare_constants(op, a, b)`), the operator "
             "is the row's own comparator when a, b are in program order (first, second / left, right), and the mirrored comparator only together with swapped operands")
    em5 = repo.cls("PlanEntityEmitter")
    n5 = 0
    for m5 in em5.methods.values():
        c5 = canon(m5)
        for k5 in [c for c in ast.walk(m5.node) if isinstance(c, ast.Call) and call_name(c) == "_compare_constants" and len(c.args) == 3]:
            n5 += 1
            # the comparator argument as written at the call, with the reaching definitions of the local it reads
            op_alts = c5.alts(k5.args[0])
            mirrored = [a for a in op_alts if "_MIRRORED" in a or "MIRROR" in a.upper()]
            # the comparator may be read back from the row dict: a mirrored value stored under the same key on the way to the call counts
            if isinstance(k5.args[0], ast.Subscript) and isinstance(k5.args[0].value, ast.Name):
                from ..cfg import CFG as _CFG5
                g5 = _CFG5(m5.node)
                call_st = stmt_of(m5, k5)
                for st5 in g5.stmts():
                    if isinstance(st5, ast.Assign) and isinstance(st5.targets[0], ast.Subscript) and norm(st5.targets[0]) == norm(k5.args[0]) and "MIRROR" in norm(st5.value).upper() \
                            and st5 is not call_st and g5.dominates(st5, call_st):
                        mirrored = op_alts  # every path to the call passes the mirrored store
            a1, a2 = c5.text(k5.args[1]), c5.text(k5.args[2])
            in_order = ("first" in a1 and "second" in a2) or ("left" in a1 and "right" in a2)
            swapped = ("second" in a1 and "first" in a2) or ("right" in a1 and "left" in a2)
            ok5 = (in_order and not mirrored) or (swapped and len(mirrored) == len(op_alts))
            rep.check(ok5, "C11-R5", f"{m5.short}: constants are compared with the row's own comparator in program order",
                      f"operands ({a1[-30:]}, {a2[-30:]}), comparator {'mirrored' if mirrored else 'as written'}" if ok5 else
                      f"operands in {'program' if in_order else 'swapped' if swapped else 'unknown'} order but the comparator is {'mirrored on some path' if mirrored else 'as written'}: `11 >= 0` is decided as `11 <= 0`", m5.loc(k5))
    rep.floor("C11-R5", "compile-time decisions in the emitter", n5, 2)



def _in_annotation(pm, n: ast.AST) -> bool:
    cur = n
    while cur in pm:
        par = pm[cur]
        if isinstance(par, ast.arg) or (isinstance(par, ast.AnnAssign) and par.annotation is cur) or (isinstance(par, (ast.FunctionDef, ast.AsyncFunctionDef)) and par.returns is cur):
            return True
        cur = par
    return False


def _stringy(n: ast.AST) -> bool:
    for sub in ast.walk(n):
        if isinstance(sub, (ast.JoinedStr, ast.List, ast.ListComp)):
            return True
        if isinstance(sub, ast.Constant) and isinstance(sub.value, str):
            return True
    return False


def _expand_nodes(du: DefUse, e: ast.AST, depth: int = 0, seen: set | None = None):
    seen = seen if seen is not None else set()
    for sub in ast.walk(e):
        yield sub
        if isinstance(sub, ast.Name) and sub.id in du.defs and sub.id not in seen and depth < 6:
            seen.add(sub.id)
            for v, _h, _s in du.defs[sub.id]:
                yield from _expand_nodes(du, v, depth + 1, seen)


def _outermost_expr(pm, n: ast.AST) -> ast.AST:
    cur = n
    while cur in pm and isinstance(pm[cur], ast.expr) and not isinstance(pm[cur], (ast.Call, ast.Tuple, ast.List, ast.Dict, ast.JoinedStr, ast.FormattedValue)):
        cur = pm[cur]
    # allow one wrapping call (helper / int(...)) around the arithmetic
    if cur in pm and isinstance(pm[cur], ast.Call) and cur in pm[cur].args and call_name(pm[cur]) not in ("const", "append", "info", "warning", "error", "join", "map", "str"):
        return pm[cur]
    return cur
