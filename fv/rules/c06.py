"""C06 Entities are driven by exactly the condition the program assigns — structural clauses.

R1 a plain signal assigned to enable becomes `signal > 0` with the circuit condition enabled, in every spelling of the emitter
R2 inlining a comparison into the entity passes (signal, comparator, constant) through unchanged, happens only when the property write is the decider's only consumer, and re-wires the entity to the decider's input
R3 early inlining of any()/all() conditions accepts only `CMP constant`, maps all->everything / any->anything and passes operator and constant unchanged
R4 entity outputs and property reads are sourced by the entity itself
"""

from __future__ import annotations

import ast

from ..bags import readers_in
from ..cfg import CFG
from ..core import AnalysisError, Repo, Report, call_name, calls_in, kwarg, norm, parents_map, walk_local
from ..dataflow import DefUse
from ..sites import guard_chain
from .util import canon, cguards, cguards_any, dict_of, stmt_of as stmt_of9


def _branch(f, test_substr: str):
    c = canon(f)
    for n in walk_local(f.node):
        if isinstance(n, ast.If) and test_substr in c.text(n.test):
            return n
    return None


P = "ELEM(property_writes.items())[1]"


def _split_alts(e: ast.AST) -> list[str]:
    """alternatives of an already canonical expression (conditional expressions split)"""
    if isinstance(e, ast.IfExp):
        return _split_alts(e.body) + _split_alts(e.orelse)
    return [norm(e)]


def run(repo: Repo, rep: Report, tier: str) -> None:
    ap = repo.func("PlanEntityEmitter._apply_property_writes")
    ep = repo.cls("EntityPlacer")

    # ---------------- R1 ---------------------------------------------------------------
    rep.rule("C06-R1", "in the `signal` branch of _apply_property_writes every path enables the circuit condition and compares the resolved signal with `> 0` "
             "(set_circuit_condition and raw control_behavior spellings); the constant branch sets circuit_enabled from the value")
    cap = canon(ap)
    sb = _branch(ap, f"{P}.get('type') == 'signal'")
    if sb is None:
        raise AnalysisError("C06-R1: `signal` branch not found in _apply_property_writes")
    def _is_resolved_signal(t: str) -> bool:
        # {'name': <resolved from signal_ref.signal_type>, 'type': ...}
        return t.startswith("{'name': ") and f"{P}['signal_ref'].signal_type" in t and "'signal-0'" not in t
    scc = [c for s in sb.body for c in ast.walk(s) if isinstance(c, ast.Call) and call_name(c) == "set_circuit_condition"]
    ok = bool(scc) and len(scc[0].args) == 3 and _is_resolved_signal(cap.text(scc[0].args[0])) and [norm(a) for a in scc[0].args[1:]] == ["'>'", "0"]
    rep.check(ok, "C06-R1", "plain signal: set_circuit_condition(signal, '>', 0)", norm(scc[0]) if scc else "missing", ap.loc(scc[0]) if scc else ap.loc(sb))
    raw = [n for s in sb.body for n in ast.walk(s) if isinstance(n, ast.Dict) and any(isinstance(k, ast.Constant) and k.value == "comparator" for k in n.keys)]
    rd = dict_of(raw[0], cap) if raw else {}
    ok = bool(raw) and set(rd) == {"first_signal", "comparator", "constant"} and _is_resolved_signal(rd["first_signal"]) and rd["comparator"] == "'>'" and rd["constant"] == "0"
    rep.check(ok, "C06-R1", "plain signal: raw circuit_condition is {signal, '>', 0}", norm(raw[0]) if raw else "missing", ap.loc(sb))
    en = [n for s in sb.body for n in ast.walk(s) if isinstance(n, ast.Assign) and "circuit_enabled" in norm(n.targets[0])]
    rep.check(len(en) >= 2 and all(norm(n.value) == "True" for n in en), "C06-R1", "plain signal: the circuit condition is enabled on every path", "; ".join(norm(n) for n in en), ap.loc(sb))
    ok = bool(scc) and _is_resolved_signal(cap.text(scc[0].args[0]))
    rep.check(ok, "C06-R1", "the condition's signal is resolved from the assigned signal reference", cap.text(scc[0].args[0])[:160] if scc else "", ap.loc(sb))
    cb = [n for n in walk_local(ap.node) if isinstance(n, ast.If) and "== 'constant'" in cap.text(n.test)]
    ens = [n for s in (cb[0].body if cb else []) for n in ast.walk(s) if isinstance(n, ast.Assign) and "circuit_enabled" in norm(n.targets[0])]
    ok = bool(ens) and all(cap.text(n.value) == f"bool({P}['value'])" for n in ens)
    rep.check(ok, "C06-R1", "a constant enable sets circuit_enabled to its truth value", "bool(prop_data['value'])", ap.loc(cb[0]) if cb else ap.loc())

    # ---------------- R2 ---------------------------------------------------------------
    rep.rule("C06-R2", "_try_inline_comparison returns data only for `signal CMP int -> 1` deciders whose only consumer (by the complete usage index) is the property write; "
             "comparison_data carries the decider's left_operand/operation/right_operand unchanged and the emitter hands them to the circuit condition in that order; "
             "the decider is scheduled for removal only on the inlined path and the entity becomes a sink of the decider's input")
    tic = ep.methods["_try_inline_comparison"]
    pm = parents_map(tic.node)
    ret = [n for n in walk_local(tic.node) if isinstance(n, ast.Return) and isinstance(n.value, ast.Dict)]
    if not ret:
        raise AnalysisError("C06-R2: result dict of _try_inline_comparison not found")
    ctic = canon(tic)
    d = dict_of(ret[0].value, ctic)
    PL = "self.plan.get_placement(signal_ref.source_id).properties"
    ok = d.get("left_signal") == f"{PL}.get('left_operand')" and d.get("comparator") == f"{PL}.get('operation')" and d.get("right_constant") == f"{PL}.get('right_operand')"
    rep.check(ok, "C06-R2", "comparison_data = (left_operand, operation, right_operand) of the decider, unchanged", str({k: v[-30:] for k, v in d.items()}), tic.loc(ret[0]))
    gs = cguards_any(tic, ret[0])
    ok_shape = any(g == f"isinstance({PL}.get('right_operand'), int) and {PL}.get('output_value') == 1" and pol for g, pol in gs)
    ok_type = any(".entity_type != 'decider-combinator'" in g and not pol for g, pol in gs)
    rep.check(ok_shape and ok_type, "C06-R2", "only `signal CMP int -> 1` single-condition deciders are inlined", "; ".join(("not " if not p else "") + g[-90:] for g, p in cguards(tic, ret[0])), tic.loc())
    uses_usage = any("self.signal_usage.get(signal_ref.source_id)" in g and "'consumers'" in g and "> 1" in g and not pol for g, pol in gs)
    rep.check(uses_usage, "C06-R2", "the decider is inlined (and removed) only when the complete consumer set has a single member",
              "guarded by the usage index (consumers)" if uses_usage else
              "the multiplicity test only sees the sinks registered so far: with `Signal c = x > 5; lamp.enable = c; Signal d = c + 1;` the decider is removed although d still reads it", tic.loc())
    keeps_outputs = any("self.signal_usage.get(signal_ref.source_id)" in g and "debug_metadata" in g and ".get('is_output')" in g and not pol for g, pol in gs)
    rep.check(keeps_outputs, "C06-R2", "a comparison that is exposed under a name of its own (is_output) is not removed by inlining",
              "guarded by the usage entry's is_output flag" if keeps_outputs else
              "`Signal c = x > 5; Signal alias = c; lamp.enable = c;` removes the decider although the output anchor of `alias` is wired to it (the anchor reads nothing)", tic.loc())
    pw = ep.methods["_place_entity_prop_write"]
    pmw = parents_map(pw.node)
    rm = [n for n in walk_local(pw.node) if isinstance(n, ast.Assign) and "source_node_id_to_remove" in norm(n.targets[0])]
    cpw = canon(pw)
    ok = bool(rm) and cpw.text(rm[0].value) == "op.value.source_id" and any(t == "self._try_inline_comparison(op.value)" and pol for t, pol in cguards_any(pw, rm[0]))
    rep.check(ok and len(rm) == 1, "C06-R2", "removal of the decider is scheduled only on the inlined path, for that decider", norm(rm[0]) if rm else "", pw.loc(rm[0]) if rm else pw.loc())
    resink = [c for c in calls_in(pw.node, "_add_signal_sink") if cpw.text(c.args[0]) == "self._ir_nodes.get(op.value.source_id).left"]
    ok = bool(resink) and norm(resink[0].args[1]) == "op.entity_id" and any(call_name(c) == "remove_sink" for c in calls_in(pw.node))
    rep.check(ok, "C06-R2", "the entity is wired to the signal the inlined comparison reads", norm(resink[0]) if resink else "missing", pw.loc())
    ib = _branch(ap, f"{P}.get('type') == 'inline_comparison'")
    CD = f"{P}.get('comparison_data', {{}})"
    body_nodes = [n for s in (ib.body if ib else []) for n in ast.walk(s)]
    rk = set()
    for n in body_nodes:
        if isinstance(n, ast.Call) and call_name(n) == "get" and n.args and isinstance(n.args[0], ast.Constant) and isinstance(n.func, ast.Attribute) and cap.text(n.func.value) == CD:
            rk.add(n.args[0].value)
    rep.check({"left_signal", "comparator", "right_constant"} <= rk, "C06-R2", "the emitter reads the three comparison_data keys", str(sorted(rk)), ap.loc(ib) if ib else ap.loc())
    def _is_inline_signal(t: str) -> bool:
        return f"{{'name': {CD}.get('left_signal'), 'type': " in t
    sc = [c for c in body_nodes if isinstance(c, ast.Call) and call_name(c) == "set_circuit_condition"]
    ok = bool(sc) and len(sc[0].args) == 3 and _is_inline_signal(cap.text(sc[0].args[0])) and [cap.text(a) for a in sc[0].args[1:]] == [f"{CD}.get('comparator')", f"{CD}.get('right_constant')"]
    rep.check(ok, "C06-R2", "inlined comparison: set_circuit_condition(signal, comparator, constant)", norm(sc[0]) if sc else "missing", ap.loc(ib) if ib else ap.loc())
    raws = [n for n in body_nodes if isinstance(n, ast.Dict) and any(isinstance(k, ast.Constant) and k.value == "comparator" for k in n.keys)]
    def _raw_ok(n: ast.Dict) -> bool:
        dd_ = dict_of(n, cap)
        return set(dd_) == {"first_signal", "comparator", "constant"} and _is_inline_signal(dd_["first_signal"]) and dd_["comparator"] == f"{CD}.get('comparator')" and dd_["constant"] == f"{CD}.get('right_constant')"
    ok = len(raws) >= 2 and all(_raw_ok(n) for n in raws)
    rep.check(ok, "C06-R2", "inlined comparison: raw circuit_condition uses the same three values", f"{len(raws)} dict(s)", ap.loc(ib) if ib else ap.loc())
    cu = ep.methods["cleanup_unused_entities"]
    ok = any(isinstance(n, ast.Compare) and "'inline_comparison'" in norm(n) for n in walk_local(cu.node)) and any("source_node_id_to_remove" in norm(n) for n in walk_local(cu.node))
    rep.check(ok, "C06-R2", "cleanup removes exactly the deciders recorded by inlining", "type == inline_comparison -> comparison_data.source_node_id_to_remove", cu.loc())

    # ---------------- R3 ---------------------------------------------------------------
    rep.rule("C06-R3", "_is_inlinable_bundle_condition accepts only the six comparators with any()/all() on the left and a constant on the right; the inlined condition maps "
             "all -> signal-everything, any -> signal-anything and passes operator and constant through to the emitter unchanged; the bundle is registered as the entity's wire source")
    sl = repo.cls("StatementLowerer")
    iic = sl.methods["_is_inlinable_bundle_condition"]
    ops = None
    for n in walk_local(iic.node):
        if isinstance(n, ast.Compare) and isinstance(n.ops[0], ast.NotIn) and norm(n.left) == "expr.op" and isinstance(n.comparators[0], (ast.Tuple, ast.Set, ast.List)):
            ops = {e.value for e in n.comparators[0].elts}
    rep.check(ops == {"<", "<=", ">", ">=", "==", "!="}, "C06-R3", "only the six comparators are inlined", str(sorted(ops) if ops else None), iic.loc())
    ok = any(isinstance(n, ast.Return) and norm(n.value) == "self._is_constant(expr.right)" for n in walk_local(iic.node)) and any("BundleAnyExpr, BundleAllExpr" in norm(n) for n in walk_local(iic.node) if isinstance(n, ast.If))
    rep.check(ok, "C06-R3", "left side is any()/all(), right side a compile-time constant", "isinstance(expr.left, (BundleAnyExpr, BundleAllExpr)); _is_constant(expr.right)", iic.loc())
    lic = sl.methods["_lower_inlined_bundle_condition"]
    clic = canon(lic)
    dd = [n for n in walk_local(lic.node) if isinstance(n, ast.Dict) and any(isinstance(k, ast.Constant) and k.value == "operator" for k in n.keys)]
    dd_ = dict_of(dd[0], clic) if dd else {}
    ok = dd_.get("signal") == "'signal-everything' if ('all' if isinstance(expr.left, BundleAllExpr) else 'any') == 'all' else 'signal-anything'"
    rep.check(ok, "C06-R3", "all -> signal-everything, any -> signal-anything", dd_.get("signal", ""), lic.loc())
    ok = bool(dd) and set(dd_) == {"signal", "operator", "constant", "input_source"} and dd_["operator"] == "expr.op"
    rep.check(ok, "C06-R3", "operator, constant and bundle source are recorded unchanged", norm(dd[0]) if dd else "", lic.loc())
    ok = dd_.get("constant") == "self._extract_constant(expr.right)" and dd_.get("input_source", "").endswith("lower_expr(expr.left.bundle)")
    rep.check(ok, "C06-R3", "constant comes from the right side, source from the bundle argument", f"{dd_.get('constant')}; {dd_.get('input_source')}", lic.loc())
    # placer forwards the three keys and registers the sink
    ibw = _branch(pw, "op.inline_bundle_condition")
    IB = "op.inline_bundle_condition"
    fw = [n for s in (ibw.body if ibw else []) for n in ast.walk(s) if isinstance(n, ast.Dict) and any(isinstance(k, ast.Constant) and k.value == "operator" for k in n.keys)]
    ok = bool(fw) and dict_of(fw[0], cpw) == {"type": "'inline_bundle_condition'", "signal": f"{IB}['signal']", "operator": f"{IB}['operator']", "constant": f"{IB}['constant']"}
    rep.check(ok, "C06-R3", "the placer forwards signal/operator/constant unchanged", norm(fw[0]) if fw else "", pw.loc(ibw) if ibw else pw.loc())
    ok = any(call_name(c) == "_add_signal_sink" and cpw.text(c.args[0]) == f"{IB}.get('input_source')" and norm(c.args[1]) == "op.entity_id" for s in (ibw.body if ibw else []) for c in ast.walk(s) if isinstance(c, ast.Call))
    rep.check(ok, "C06-R3", "the bundle source is wired to the entity", "_add_signal_sink(input_source, op.entity_id)", pw.loc(ibw) if ibw else pw.loc())
    bb = _branch(ap, f"{P}.get('type') == 'inline_bundle_condition'")
    sc = [c for s in (bb.body if bb else []) for c in ast.walk(s) if isinstance(c, ast.Call) and call_name(c) == "set_circuit_condition"]
    ok = bool(sc) and len(sc[0].args) == 3 and [cap.text(a) for a in sc[0].args] == [f"{{'name': {P}.get('signal'), 'type': 'virtual'}}", f"{P}.get('operator')", f"{P}.get('constant')"]
    rep.check(ok, "C06-R3", "the emitter applies (wildcard, operator, constant) unchanged", norm(sc[0]) if sc else "", ap.loc(bb) if bb else ap.loc())

    rep.rule("C06-R6", "a constant that drives an entity property is exported (record_export on IREntityPropWrite.value) and exported constants are always materialised, so the entity's condition has a wired source")
    an_ = repo.func("SignalAnalyzer.analyze")
    exp = [c for c in calls_in(an_.node, "record_export") if canon(an_).text(c.args[0]) == "ELEM(ir_operations).value"
           and any("isinstance(ELEM(ir_operations), IREntityPropWrite)" in g and pol for g, pol in cguards(an_, c))]
    rep.check(bool(exp), "C06-R6", "analyze exports the value of every entity property write", norm(exp[0])[:80] if exp else "record_export(op.value, ...) missing", an_.loc())
    dm = repo.func("SignalAnalyzer._decide_materialization")
    fin = [n for n in walk_local(dm.node) if isinstance(n, ast.Assign) and norm(n.targets[0]) == "entry.should_materialize" and isinstance(n.value, ast.Call) and call_name(n.value) == "bool"]
    terms = {norm(v) for v in fin[0].value.args[0].values} if fin and isinstance(fin[0].value.args[0], ast.BoolOp) else set()
    rep.check("entry.export_targets" in terms, "C06-R6", "a constant exported to an entity property is materialised",
              "export_targets is a reason to materialise" if "entry.export_targets" in terms else
              f"materialisation reasons {sorted(terms)} omit export_targets: `lamp.enable = <expression folding to a positive constant>` leaves the lamp with a condition and no wire", dm.loc(fin[0]) if fin else dm.loc())

    rep.rule("C06-R5", "the constant of an inlined any()/all() condition is resolved the way the expression itself would be: name resolvers consult the parameter environment first")
    from .shared import identifier_resolvers
    identifier_resolvers(repo, rep, "C06-R5")

    # ---------------- R4 ---------------------------------------------------------------
    rep.rule("C06-R4", "an entity output / property read registers the entity itself as the source in the signal graph (so it is wired once per consumer by the ordinary edge machinery)")
    for name in ("_place_entity_output", "_place_entity_prop_read"):
        f = ep.methods[name]
        c = [x for x in calls_in(f.node, "set_source")]
        ok = bool(c) and [norm(a) for a in c[0].args] == ["op.node_id", "op.entity_id"]
        rep.check(ok, "C06-R4", f"{name}: source of the read is the entity", norm(c[0]) if c else "missing", f.loc())

    # ---------------- R9 ---------------------------------------------------------------
    rep.rule("C06-R9", "the usage index that decides whether a comparison may be inlined (and its decider removed) knows every consumer: SignalAnalyzer.analyze reads, under an isinstance "
             "branch for the class, every reference-holding slot of the IR schema; a slot it skips is a reader the inliner cannot see")
    from ..irschema import ir_classes as _irc, ir_schema as _irs
    from .c10 import slot_access as _slot_access
    an9 = repo.func("SignalAnalyzer.analyze")
    names9 = {c.name for c in _irc(repo)}
    n9 = 0
    for s9 in _irs(repo):
        n9 += 1
        ok9, where9 = _slot_access(repo, [an9], s9, names9, "load")
        rep.check(ok9, "C06-R9", f"SignalAnalyzer.analyze records the consumer of {s9}", "read in the consumer ladder" if ok9 else
                  f"{s9} is not recorded: `Signal c = x > 5; lamp.enable = c;` followed by a use of c in this slot removes the decider the slot reads", where9 or an9.loc())
    rep.floor("C06-R9", "reference slots of the IR schema", n9, 15)
    # ... and "reads" means: handed to the consumer recorder, on every path of the class's branch — a call `record_consumer(<op>.<slot>...)` whose guards, beyond the
    # class test, look at that slot only (`if op.set_condition is not None:`).  A slot recorded on one arm of an unrelated test is invisible on the other.
    c9 = canon(an9)
    rc_calls = calls_in(an9.node, "record_consumer")
    rep.floor("C06-R9", "consumer-recording calls", len(rc_calls), 10)
    OP9 = "ELEM(ir_operations)"
    for s9 in _irs(repo):
        want = {"": f"{OP9}.{s9.field}", "[]": f"{OP9}.{s9.field}", "[0]": f"{OP9}.{s9.field}[0]"}.get(s9.sub)
        if want is None and s9.sub.startswith("[]."):
            want = f"ELEM({OP9}.{s9.field}).{s9.sub[3:]}"
        if want is None:
            continue
        hits = []
        for k in rc_calls:
            if not k.args:
                continue
            a0 = c9.text(k.args[0])
            if a0 != want and a0 != f"ELEM({want})":
                continue
            gs = cguards(an9, stmt_of9(an9, k))
            if not any(pol and g.startswith(f"isinstance({OP9}, ") for g, pol in gs):
                continue
            extra = [g for g, pol in gs if not g.startswith(f"isinstance({OP9}, ") and f"{OP9}.{s9.field}" not in g and g != OP9]
            hits.append((k, extra))
        if not hits:
            # today every slot of the schema is handed to the recorder; a slot that is only *read* (say, by the export bookkeeping) has no consumer entry
            rep.bad("C06-R9", f"SignalAnalyzer.analyze records the consumer of {s9} on every path of its branch",
                    f"no `record_consumer({want.replace(OP9, 'op')})` under the class's branch: the producer of this slot has no recorded consumer", an9.loc())
            continue
        clean = [h for h in hits if not h[1]]
        rep.check(bool(clean), "C06-R9", f"SignalAnalyzer.analyze records the consumer of {s9} on every path of its branch",
                  "recorded unconditionally (or under a test on the slot itself)" if clean else
                  f"recorded only under `{hits[0][1][0][:80]}`: on the other arm the producer of this slot has no recorded consumer and may be inlined away or left unplaced", an9.loc(hits[0][0]))

    # ---------------- R10 / R11 --------------------------------------------------------
    from .shared import borrow as _borrow6
    _borrow6(repo, rep, "C12", "C12-R1", "C06-R10", "the network an entity's condition is evaluated on carries one producer per signal: relay poles are shared only inside one (source, colour) network", floor=3)
    _borrow6(repo, rep, "C10", "C10-R1", "C06-R11", "the source of an inlined any()/all() condition and of a property value follows its producer through the optimizer passes",
             select=lambda o: "IREntityPropWrite" in o.construct, floor=2)

    # ---------------- R12 --------------------------------------------------------------
    rep.rule("C06-R12", "the condition reaches every entity that can take one: in each enable branch of _apply_property_writes a set_circuit_condition call is reachable for entities "
             "without a `circuit_enabled` flag too (pumps, power switches, ... offer the condition but not the flag; raw control_behavior entries are dropped on export)")
    from ..gamedata import draftsman_classes_with_condition_but_no_enable_flag as _noflag
    affected = _noflag()
    rep.analysed["C06-R12:draftsman classes with a circuit condition but no enable flag"] = affected
    for label, br in (("plain signal", sb), ("inlined comparison", ib), ("inlined any()/all()", bb)):
        if br is None:
            raise AnalysisError(f"C06-R12: branch `{label}` not found")
        calls12 = [c for s_ in br.body for c in ast.walk(s_) if isinstance(c, ast.Call) and call_name(c) == "set_circuit_condition"]
        free = [c for c in calls12 if not any(pol and g == "hasattr(entity, 'circuit_enabled')" for g, pol in cguards(ap, c))]
        rep.check(bool(free) or not affected, "C06-R12", f"{label}: the condition is set on entities without an enable flag as well",
                  f"{len(free)} of {len(calls12)} set_circuit_condition call(s) do not require circuit_enabled" if free else
                  f"every set_circuit_condition call requires `circuit_enabled`; {', '.join(affected[:6])} have none, so `{affected[0].lower() if affected else 'pump'}.enable = ...` is emitted without any condition", ap.loc(br))

    # ---------------- R13 --------------------------------------------------------------
    rep.rule("C06-R13", "the condition reads the signal the program named, in its own category: in every {name, type} signal dict the emitter builds for a circuit condition the "
             "type is looked up for that very name (category helper, or the `type` entry of the table row the name came from); the constant 'virtual' is used only with a "
             "name that is a virtual signal by construction (a literal virtual signal, or the any()/all() wildcard the lowering stored)")
    from ..core import module_const as _mc13
    _sig13 = repo.module("common.signals")
    _WILD13, _AVAIL13 = set(_mc13(repo, _sig13, "WILDCARD_SIGNALS")), set(_mc13(repo, _sig13, "AVAILABLE_VIRTUAL_SIGNALS"))
    virt_names = set(_WILD13) | set(_AVAIL13) | {"signal-0"}
    # names that are virtual by construction through the plan: property key -> proven
    wildcard_ok = True
    ibc_sites = 0
    for f13 in repo.all_funcs():
        for n in walk_local(f13.node):
            if isinstance(n, ast.Assign) and any(isinstance(t, ast.Attribute) and t.attr == "inline_bundle_condition" for t in n.targets) and isinstance(n.value, ast.Dict):
                ibc_sites += 1
                d13 = {k.value: v for k, v in zip(n.value.keys, n.value.values) if isinstance(k, ast.Constant)}
                alts13 = canon(f13).alts(d13["signal"]) if "signal" in d13 else ["<missing>"]
                if not all(a.startswith("'") and a.strip("'") in _WILD13 for a in alts13):
                    wildcard_ok = False
    pw = None
    for m13 in ep.methods.values():
        for n in walk_local(m13.node):
            if isinstance(n, ast.Dict):
                d13 = {k.value: v for k, v in zip(n.keys, n.values) if isinstance(k, ast.Constant)}
                if "type" in d13 and isinstance(d13["type"], ast.Constant) and d13["type"].value == "inline_bundle_condition":
                    pw = (m13, d13)
    passthrough = pw is not None and "signal" in pw[1] and canon(pw[0]).text(pw[1]["signal"]).endswith(".inline_bundle_condition['signal']")
    dicts13 = []
    for f13 in repo.all_funcs():
        if ".emission." not in f13.module.name + ".":
            continue
        for n in walk_local(f13.node):
            if isinstance(n, ast.Dict) and {k.value for k in n.keys if isinstance(k, ast.Constant)} == {"name", "type"}:
                dicts13.append((f13, n))
    rep.floor("C06-R13", "signal dicts built by the emitter", len(dicts13), 3)
    rep.analysed["C06-R13:lowering sites storing an inlined any()/all() condition"] = ibc_sites
    for f13, n in dicts13:
        c13 = canon(f13)
        d13 = {k.value: v for k, v in zip(n.keys, n.values)}
        n_alts = c13.alts(d13["name"])
        t_alts = c13.alts(d13["type"])
        bad13 = []
        for t in t_alts:
            if t.startswith("'"):
                for na in n_alts:
                    if na.startswith("'") and na.strip("'") in virt_names and t == "'virtual'":
                        continue
                    if t == "'virtual'" and na.endswith(".get('signal')") and wildcard_ok and passthrough and ibc_sites:
                        continue
                    bad13.append(f"type {t} is a constant while the name may be `{na[-70:]}`")
                continue
            tn = ast.parse(t, mode="eval").body
            if isinstance(tn, ast.Call) and call_name(tn) in ("_infer_signal_type",) and tn.args:
                arg_alts = set(_split_alts(tn.args[0]))
                if arg_alts <= set(n_alts) or norm(tn.args[0]) == c13.text(d13["name"]):
                    continue
                bad13.append(f"category looked up for `{norm(tn.args[0])[-60:]}`, not for the name")
                continue
            if isinstance(tn, ast.Call) and call_name(tn) == "get" and tn.args and isinstance(tn.args[0], ast.Constant) and tn.args[0].value == "type":
                row = norm(tn.func.value)
                if any(na.startswith(row + ".get('name'") or na.startswith(row + "['name']") for na in n_alts):
                    continue
                bad13.append(f"type read from `{row[-60:]}`, which is not the row the name came from")
                continue
            bad13.append(f"type `{t[-70:]}` is not a category lookup")
        key13 = "name=" + min((a.replace(P, "P") for a in n_alts), key=lambda a: (len(a), a))
        rep.check(not bad13, "C06-R13", f"{f13.short}: signal dict {key13}",
                  f"type alternatives {[a[-60:] for a in t_alts]}" if not bad13 else "; ".join(bad13) +
                  ": e.g. `Signal x = (\"iron-plate\", 5); lamp.enable = x;` makes the lamp watch a virtual signal called iron-plate, which nothing ever sends", f13.loc(n))

    # ---------------- R14 --------------------------------------------------------------
    _borrow6(repo, rep, "C10", "C10-R3", "C06-R14", "two entities whose conditions differ (`a && b` against `a || b`, different comparators or operands) never share one decider: the "
             "common-subexpression key of a decider reads every field of every condition row, and its output", select=lambda o: "IRDecider" in o.construct, floor=6)

    # ---------------- R15 --------------------------------------------------------------
    rep.rule("C06-R15", "an assignment to `name.property` either lands on a placed entity or is reported: the last-resort branch of lower_assign_stmt that emits the property write under "
             "`<name> in entity_refs` has an error on the other arm — a silent skip leaves the entity without the condition the program assigned")
    las = repo.func("StatementLowerer.lower_assign_stmt")
    clas = canon(las)
    sites15 = [n for n in walk_local(las.node) if isinstance(n, ast.If) and clas.text(n.test) == "stmt.target.object_name in self.parent.entity_refs"
               and any(isinstance(c, ast.Call) and call_name(c) == "IREntityPropWrite" for b in n.body for c in ast.walk(b))]
    rep.floor("C06-R15", "property-write branches keyed on entity_refs membership", len(sites15), 1)
    for i15, n in enumerate(sites15):
        reported = any(isinstance(c, ast.Call) and call_name(c) in ("_error", "error") for b in n.orelse for c in ast.walk(b))
        rep.check(reported, "C06-R15", f"lower_assign_stmt: property write #{i15 + 1} reports a target that is no placed entity", "error on the other arm" if reported else
                  "no else branch: `func make(int x) { return place(\"small-lamp\", x, 0); } Entity l = make(3); l.enable = a > 0;` compiles and the lamp has no condition", las.loc(n))

    # ---------------- R16 --------------------------------------------------------------
    rep.rule("C06-R16", "what an entity emits is counted once per use: a same-type addition becomes one shared wire only for sources whose node id names the physical producer — a node "
             "with a combinator of its own, or an alias of an entity whose id is a function of that entity (so the same entity used twice is recognised as a duplicate and "
             "not merged); an alias with a fresh id per use (`chest.output[\"x\"] + chest.output[\"x\"]`) would put one wire where two values are added")
    from ..irschema import ladder as _ladder16
    ssr = repo.func("ExpressionLowerer._is_simple_source_ref")
    admitted: set[str] = set()
    for c in [x for x in ast.walk(ssr.node) if isinstance(x, ast.Call) and call_name(x) == "isinstance" and len(x.args) == 2]:
        t_ = c.args[1]
        admitted |= {norm(e) for e in (t_.elts if isinstance(t_, ast.Tuple) else [t_])} - {"SignalRef", "int"}
    rep.floor("C06-R16", "node classes admitted as wire-merge sources", len(admitted), 2)
    handlers16: dict[str, list] = {}
    for br in _ladder16(ep.methods["place_ir_operation"], "op"):
        for cls16 in br.classes:
            handlers16[cls16] = [c for st in br.node.body for c in calls_in(st)]
    el16 = repo.cls("ExpressionLowerer")
    for cls16 in sorted(admitted):
        hcalls = handlers16.get(cls16, [])
        hm = [ep.methods[call_name(c)] for c in hcalls if call_name(c) in ep.methods]
        own = any(any(call_name(k) == "create_and_add_placement" for k in calls_in(m.node)) or
                  any(call_name(k) == "set_source" and len(k.args) == 2 and norm(k.args[0]) == norm(k.args[1]) for k in calls_in(m.node)) for m in hm)
        alias = any(any(call_name(k) == "set_source" and len(k.args) == 2 and norm(k.args[0]) != norm(k.args[1]) for k in calls_in(m.node)) for m in hm)
        if own or not alias:
            rep.ok("C06-R16", f"{cls16} as a wire-merge source has a producer of its own", "placed as its own entity / junction" if own else "no alias placement", ssr.loc())
            continue
        ctor = [(m, k) for m in list(el16.methods.values()) for k in calls_in(m.node, cls16)]
        det = bool(ctor)
        why = ""
        for m, k in ctor:
            ida = k.args[0] if k.args else kwarg(k, "node_id")
            t16 = canon(m).text(ida) if ida is not None else ""
            if "next_id(" in t16 or "entity" not in t16:
                det = False
                why = f"{m.short} builds the id `{t16[:60]}`"
        rep.check(det, "C06-R16", f"{cls16} (an alias of an entity) is identified by the entity in its node id", "id derived from the entity id" if det else
                  f"{why}: fresh per use, so two reads of one entity look like two producers and are joined on one wire — the value is counted once, not twice", ssr.loc())

    # ---------------- R18 --------------------------------------------------------------
    from .shared import borrow as _borrow06b
    _borrow06b(repo, rep, "C15", "C15-R24", "C06-R18", "a property write on an Entity parameter drives the entity that was passed, also when the call is made from inside another "
               "function body", floor=1)

    # ---------------- R17 --------------------------------------------------------------
    from .shared import zero_is_a_value as _zero17
    _zero17(repo, rep, "C06-R17")
