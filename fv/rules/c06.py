"""C06 Entities are driven by exactly the condition the program assigns — structural clauses.

R1 a plain signal assigned to enable becomes `signal > 0` with the circuit condition enabled, in every spelling of the emitter
R2 inlining a comparison into the entity passes (signal, comparator, constant) through unchanged, happens only when the property write is the decider's only consumer, and re-wires the entity to the decider's input
R3 early inlining of any()/all() conditions accepts only `CMP constant`, maps all->everything / any->anything and passes operator and constant unchanged
R4 entity outputs and property reads are sourced by the entity itself
"""

from __future__ import annotations

import ast

from ..bags import readers_in
from ..cfg import CFG
from ..core import AnalysisError, Repo, Report, call_name, calls_in, kwarg, norm, parents_map, walk_local
from ..dataflow import DefUse
from ..sites import guard_chain


def _branch(f, test_substr: str):
    for n in walk_local(f.node):
        if isinstance(n, ast.If) and test_substr in norm(n.test):
            return n
    return None


def run(repo: Repo, rep: Report, tier: str) -> None:
    ap = repo.func("PlanEntityEmitter._apply_property_writes")
    ep = repo.cls("EntityPlacer")

    # ---------------- R1 ---------------------------------------------------------------
    rep.rule("C06-R1", "in the `signal` branch of _apply_property_writes every path enables the circuit condition and compares the resolved signal with `> 0` "
             "(set_circuit_condition and raw control_behavior spellings); the constant branch sets circuit_enabled from the value")
    sb = _branch(ap, "prop_type == 'signal'")
    if sb is None:
        raise AnalysisError("C06-R1: `signal` branch not found in _apply_property_writes")
    scc = [c for s in sb.body for c in ast.walk(s) if isinstance(c, ast.Call) and call_name(c) == "set_circuit_condition"]
    ok = bool(scc) and [norm(a) for a in scc[0].args] == ["signal_dict", "'>'", "0"]
    rep.check(ok, "C06-R1", "plain signal: set_circuit_condition(signal, '>', 0)", norm(scc[0]) if scc else "missing", ap.loc(scc[0]) if scc else ap.loc(sb))
    raw = [n for s in sb.body for n in ast.walk(s) if isinstance(n, ast.Dict) and any(isinstance(k, ast.Constant) and k.value == "comparator" for k in n.keys)]
    ok = bool(raw) and {k.value: norm(v) for k, v in zip(raw[0].keys, raw[0].values)} == {"first_signal": "signal_dict", "comparator": "'>'", "constant": "0"}
    rep.check(ok, "C06-R1", "plain signal: raw circuit_condition is {signal, '>', 0}", norm(raw[0]) if raw else "missing", ap.loc(sb))
    en = [n for s in sb.body for n in ast.walk(s) if isinstance(n, ast.Assign) and "circuit_enabled" in norm(n.targets[0])]
    rep.check(len(en) >= 2 and all(norm(n.value) == "True" for n in en), "C06-R1", "plain signal: the circuit condition is enabled on every path", "; ".join(norm(n) for n in en), ap.loc(sb))
    du = DefUse(ap)
    sd = [n for s in sb.body for n in ast.walk(s) if isinstance(n, ast.Assign) and norm(n.targets[0]) == "signal_dict"]
    ok = bool(sd) and norm(sd[0].value) == "{'name': signal_name, 'type': signal_category}" and any("signal_ref.signal_type" in norm(v) for v in du.value_exprs("signal_type_key"))
    rep.check(ok, "C06-R1", "the condition's signal is resolved from the assigned signal reference", norm(sd[0].value) if sd else "", ap.loc(sb))
    cb = [n for n in walk_local(ap.node) if isinstance(n, ast.If) and "'constant'" in norm(n.test)]
    ok = bool(cb) and all(norm(n.value) == "bool(prop_data['value'])" for s in cb[0].body for n in ast.walk(s) if isinstance(n, ast.Assign) and "circuit_enabled" in norm(n.targets[0]))
    rep.check(ok, "C06-R1", "a constant enable sets circuit_enabled to its truth value", "bool(prop_data['value'])", ap.loc(cb[0]) if cb else ap.loc())

    # ---------------- R2 ---------------------------------------------------------------
    rep.rule("C06-R2", "_try_inline_comparison returns data only for `signal CMP int -> 1` deciders whose only consumer (by the complete usage index) is the property write; "
             "comparison_data carries the decider's left_operand/operation/right_operand unchanged and the emitter hands them to the circuit condition in that order; "
             "the decider is scheduled for removal only on the inlined path and the entity becomes a sink of the decider's input")
    tic = ep.methods["_try_inline_comparison"]
    pm = parents_map(tic.node)
    ret = [n for n in walk_local(tic.node) if isinstance(n, ast.Return) and isinstance(n.value, ast.Dict)]
    if not ret:
        raise AnalysisError("C06-R2: result dict of _try_inline_comparison not found")
    d = {k.value: norm(v) for k, v in zip(ret[0].value.keys, ret[0].value.values)}
    dut = DefUse(tic)
    src = {k: [norm(x) for x in dut.value_exprs(v)] for k, v in d.items() if v.isidentifier()}
    ok = src.get("left_signal") == ["props.get('left_operand')"] and src.get("comparator") == ["props.get('operation')"] and src.get("right_constant") == ["props.get('right_operand')"]
    rep.check(ok, "C06-R2", "comparison_data = (left_operand, operation, right_operand) of the decider, unchanged", str(src), tic.loc(ret[0]))
    gs = [(norm(t), pol) for t, pol in guard_chain(tic, ret[0], pm)]
    ok_shape = any("isinstance(right, int) and output_value == 1" in g and not pol for g, pol in gs)
    ok_type = any("entity_type != 'decider-combinator'" in g and not pol for g, pol in gs)
    rep.check(ok_shape and ok_type, "C06-R2", "only `signal CMP int -> 1` single-condition deciders are inlined", "; ".join(("not " if not p else "") + g for g, p in gs), tic.loc())
    uses_usage = any("consumers" in g and not pol for g, pol in gs)
    rep.check(uses_usage, "C06-R2", "the decider is inlined (and removed) only when the complete consumer set has a single member",
              "guarded by the usage index (consumers)" if uses_usage else
              "the multiplicity test only sees the sinks registered so far: with `Signal c = x > 5; lamp.enable = c; Signal d = c + 1;` the decider is removed although d still reads it", tic.loc())
    pw = ep.methods["_place_entity_prop_write"]
    pmw = parents_map(pw.node)
    rm = [n for n in walk_local(pw.node) if isinstance(n, ast.Assign) and "source_node_id_to_remove" in norm(n.targets[0])]
    ok = bool(rm) and norm(rm[0].value) == "op.value.source_id" and any(norm(t) == "inline_data" and pol for t, pol in guard_chain(pw, rm[0], pmw))
    rep.check(ok and len(rm) == 1, "C06-R2", "removal of the decider is scheduled only on the inlined path, for that decider", norm(rm[0]) if rm else "", pw.loc(rm[0]) if rm else pw.loc())
    resink = [c for c in calls_in(pw.node, "_add_signal_sink") if norm(c.args[0]) == "ir_node.left"]
    ok = bool(resink) and norm(resink[0].args[1]) == "op.entity_id" and any(call_name(c) == "remove_sink" for c in calls_in(pw.node))
    rep.check(ok, "C06-R2", "the entity is wired to the signal the inlined comparison reads", norm(resink[0]) if resink else "missing", pw.loc())
    ib = _branch(ap, "prop_type == 'inline_comparison'")
    rk = {r.key for r in readers_in(ap, {"comp_data"})}
    rep.check({"left_signal", "comparator", "right_constant"} <= rk, "C06-R2", "the emitter reads the three comparison_data keys", str(sorted(rk)), ap.loc(ib) if ib else ap.loc())
    sc = [c for s in (ib.body if ib else []) for c in ast.walk(s) if isinstance(c, ast.Call) and call_name(c) == "set_circuit_condition"]
    ok = bool(sc) and [norm(a) for a in sc[0].args] == ["signal_dict", "comparator", "right_constant"]
    rep.check(ok, "C06-R2", "inlined comparison: set_circuit_condition(signal, comparator, constant)", norm(sc[0]) if sc else "missing", ap.loc(ib) if ib else ap.loc())
    raws = [n for s in (ib.body if ib else []) for n in ast.walk(s) if isinstance(n, ast.Dict) and any(isinstance(k, ast.Constant) and k.value == "comparator" for k in n.keys)]
    ok = len(raws) >= 2 and all({k.value: norm(v) for k, v in zip(n.keys, n.values)} == {"first_signal": "signal_dict", "comparator": "comparator", "constant": "right_constant"} for n in raws)
    rep.check(ok, "C06-R2", "inlined comparison: raw circuit_condition uses the same three values", f"{len(raws)} dict(s)", ap.loc(ib) if ib else ap.loc())
    cu = ep.methods["cleanup_unused_entities"]
    ok = any(isinstance(n, ast.Compare) and "'inline_comparison'" in norm(n) for n in walk_local(cu.node)) and any("source_node_id_to_remove" in norm(n) for n in walk_local(cu.node))
    rep.check(ok, "C06-R2", "cleanup removes exactly the deciders recorded by inlining", "type == inline_comparison -> comparison_data.source_node_id_to_remove", cu.loc())

    # ---------------- R3 ---------------------------------------------------------------
    rep.rule("C06-R3", "_is_inlinable_bundle_condition accepts only the six comparators with any()/all() on the left and a constant on the right; the inlined condition maps "
             "all -> signal-everything, any -> signal-anything and passes operator and constant through to the emitter unchanged; the bundle is registered as the entity's wire source")
    sl = repo.cls("StatementLowerer")
    iic = sl.methods["_is_inlinable_bundle_condition"]
    ops = None
    for n in walk_local(iic.node):
        if isinstance(n, ast.Compare) and isinstance(n.ops[0], ast.NotIn) and norm(n.left) == "expr.op" and isinstance(n.comparators[0], (ast.Tuple, ast.Set, ast.List)):
            ops = {e.value for e in n.comparators[0].elts}
    rep.check(ops == {"<", "<=", ">", ">=", "==", "!="}, "C06-R3", "only the six comparators are inlined", str(sorted(ops) if ops else None), iic.loc())
    ok = any(isinstance(n, ast.Return) and norm(n.value) == "self._is_constant(expr.right)" for n in walk_local(iic.node)) and any("BundleAnyExpr, BundleAllExpr" in norm(n) for n in walk_local(iic.node) if isinstance(n, ast.If))
    rep.check(ok, "C06-R3", "left side is any()/all(), right side a compile-time constant", "isinstance(expr.left, (BundleAnyExpr, BundleAllExpr)); _is_constant(expr.right)", iic.loc())
    lic = sl.methods["_lower_inlined_bundle_condition"]
    dul = DefUse(lic)
    fn = [norm(v) for v in dul.value_exprs("func_name")]
    ss = [norm(v) for v in dul.value_exprs("special_signal")]
    ok = fn == ["'all' if isinstance(expr.left, BundleAllExpr) else 'any'"] and ss == ["'signal-everything' if func_name == 'all' else 'signal-anything'"]
    rep.check(ok, "C06-R3", "all -> signal-everything, any -> signal-anything", f"{fn}; {ss}", lic.loc())
    dd = [n for n in walk_local(lic.node) if isinstance(n, ast.Dict) and any(isinstance(k, ast.Constant) and k.value == "operator" for k in n.keys)]
    ok = bool(dd) and {k.value: norm(v) for k, v in zip(dd[0].keys, dd[0].values)} == {"signal": "special_signal", "operator": "expr.op", "constant": "constant", "input_source": "bundle_ref"}
    rep.check(ok, "C06-R3", "operator, constant and bundle source are recorded unchanged", norm(dd[0]) if dd else "", lic.loc())
    ok = any(norm(v) == "self._extract_constant(expr.right)" for v in dul.value_exprs("constant")) and any("lower_expr(bundle_arg)" in norm(v) for v in dul.value_exprs("bundle_ref"))
    rep.check(ok, "C06-R3", "constant comes from the right side, source from the bundle argument", "", lic.loc())
    # placer forwards the three keys and registers the sink
    ibw = _branch(pw, "op.inline_bundle_condition")
    fw = [n for s in (ibw.body if ibw else []) for n in ast.walk(s) if isinstance(n, ast.Dict) and any(isinstance(k, ast.Constant) and k.value == "operator" for k in n.keys)]
    ok = bool(fw) and {k.value: norm(v) for k, v in zip(fw[0].keys, fw[0].values)} == {"type": "'inline_bundle_condition'", "signal": "cond['signal']", "operator": "cond['operator']", "constant": "cond['constant']"}
    rep.check(ok, "C06-R3", "the placer forwards signal/operator/constant unchanged", norm(fw[0]) if fw else "", pw.loc(ibw) if ibw else pw.loc())
    ok = any(call_name(c) == "_add_signal_sink" and norm(c.args[0]) == "input_source" and norm(c.args[1]) == "op.entity_id" for s in (ibw.body if ibw else []) for c in ast.walk(s) if isinstance(c, ast.Call))
    rep.check(ok, "C06-R3", "the bundle source is wired to the entity", "_add_signal_sink(input_source, op.entity_id)", pw.loc(ibw) if ibw else pw.loc())
    bb = _branch(ap, "prop_type == 'inline_bundle_condition'")
    sc = [c for s in (bb.body if bb else []) for c in ast.walk(s) if isinstance(c, ast.Call) and call_name(c) == "set_circuit_condition"]
    dub = DefUse(ap)
    ok = bool(sc) and [norm(a) for a in sc[0].args] == ["signal_dict", "comparator", "constant"]
    srcs = {n: [norm(v) for v in dub.value_exprs(n)] for n in ("comparator", "constant")}
    ok = ok and "prop_data.get('operator')" in srcs["comparator"] and "prop_data.get('constant')" in srcs["constant"]
    rep.check(ok, "C06-R3", "the emitter applies (wildcard, operator, constant) unchanged", norm(sc[0]) if sc else "", ap.loc(bb) if bb else ap.loc())

    rep.rule("C06-R6", "a constant that drives an entity property is exported (record_export on IREntityPropWrite.value) and exported constants are always materialised, so the entity's condition has a wired source")
    an_ = repo.func("SignalAnalyzer.analyze")
    exp = [c for c in calls_in(an_.node, "record_export") if norm(c.args[0]) == "op.value"]
    rep.check(bool(exp), "C06-R6", "analyze exports the value of every entity property write", norm(exp[0])[:80] if exp else "record_export(op.value, ...) missing", an_.loc())
    dm = repo.func("SignalAnalyzer._decide_materialization")
    fin = [n for n in walk_local(dm.node) if isinstance(n, ast.Assign) and norm(n.targets[0]) == "entry.should_materialize" and isinstance(n.value, ast.Call) and call_name(n.value) == "bool"]
    terms = {norm(v) for v in fin[0].value.args[0].values} if fin and isinstance(fin[0].value.args[0], ast.BoolOp) else set()
    rep.check("entry.export_targets" in terms, "C06-R6", "a constant exported to an entity property is materialised",
              "export_targets is a reason to materialise" if "entry.export_targets" in terms else
              f"materialisation reasons {sorted(terms)} omit export_targets: `lamp.enable = <expression folding to a positive constant>` leaves the lamp with a condition and no wire", dm.loc(fin[0]) if fin else dm.loc())

    rep.rule("C06-R5", "the constant of an inlined any()/all() condition is resolved the way the expression itself would be: name resolvers consult the parameter environment first")
    from .shared import identifier_resolvers
    identifier_resolvers(repo, rep, "C06-R5")

    # ---------------- R4 ---------------------------------------------------------------
    rep.rule("C06-R4", "an entity output / property read registers the entity itself as the source in the signal graph (so it is wired once per consumer by the ordinary edge machinery)")
    for name in ("_place_entity_output", "_place_entity_prop_read"):
        f = ep.methods[name]
        c = [x for x in calls_in(f.node, "set_source")]
        ok = bool(c) and [norm(a) for a in c[0].args] == ["op.node_id", "op.entity_id"]
        rep.check(ok, "C06-R4", f"{name}: source of the read is the entity", norm(c[0]) if c else "missing", f.loc())
