"""C05 Set/reset latches obey set, reset, hold and the declared priority — structural clauses.

R1 priority flow: grammar alias -> transformer constant -> WriteExpr.set_priority -> latch type, identical on both lowering paths
R2 sibling latch builders consult the priority (latch_type) when they build the condition rows
R3 the hold-condition inversion table is total over the comparators lowering can hand it and maps each to its negation over the integers
R4 feedback colour agreement: feedback wire colour == colour read by the feedback row; external rows read the other colour; preset wire selections are not overwritten
"""

from __future__ import annotations

import ast

from ..cfg import CFG
from ..core import AnalysisError, NotConstant, Repo, Report, call_name, calls_in, const_eval, kwarg, module_const, norm, parents_map, walk_local
from ..dataflow import DefUse
from ..grammar import load_grammar
from ..sites import guard_chain
from .util import canon, cguards

NEGATION = {"<": ">=", "<=": ">", ">": "<=", ">=": "<", "==": "!=", "!=": "==", "=": "!=", "≠": "="}


def _dict_rows(node: ast.AST) -> list[dict[str, ast.AST]]:
    rows = []
    if isinstance(node, ast.List):
        for e in node.elts:
            if isinstance(e, ast.Dict):
                rows.append({k.value: v for k, v in zip(e.keys, e.values) if isinstance(k, ast.Constant)})
    return rows


def run(repo: Repo, rep: Report, tier: str) -> None:
    g = load_grammar(repo)
    tr = repo.cls("DSLTransformer")

    # ---------------- R1 ---------------------------------------------------------------
    rep.rule("C05-R1", "the grammar alias whose expansion has SET_KW before RESET_KW is handled by a transformer method returning priority True and binding the "
             "first expression to set (False / reset for the other alias); memory_latch_write stores it in WriteExpr.set_priority; both lowering paths map it to SR/RS the same way")
    aliases = [r for r in g.rules if r.origin == "latch_kwargs" and r.alias]
    rep.floor("C05-R1", "latch_kwargs alternatives", len(aliases), 2)
    for r in aliases:
        order = [s for s in r.expansion if s in ("SET_KW", "RESET_KW")]
        set_first = order and order[0] == "SET_KW"
        m = tr.methods.get(r.alias)
        if m is None:
            rep.bad("C05-R1", f"transformer handles alias {r.alias}", "no method of that name", tr.loc())
            continue
        ret = [n for n in walk_local(m.node) if isinstance(n, ast.Return) and isinstance(n.value, ast.Tuple) and len(n.value.elts) == 3]
        if not ret:
            rep.unknown("C05-R1", f"{r.alias}: shape of the returned triple", "return (set, reset, priority) not recognised", m.loc())
            continue
        du = DefUse(m)
        s_e, r_e, prio = ret[0].value.elts
        kept = [s for s in r.expansion if s.isupper() and not s.startswith("__") and s in ("SET_KW", "RESET_KW") or s == "expr"]
        # positions of the two exprs among the children the transformer receives (named terminals + rules are kept)
        children = [s for s in r.expansion if s in ("SET_KW", "RESET_KW", "expr")]
        first_expr_idx = children.index("expr")
        second_expr_idx = len(children) - 1 - children[::-1].index("expr")
        def src_index(e: ast.AST) -> int | None:
            for v in [e] + du.expand(e):
                for n in ast.walk(v):
                    if isinstance(n, ast.Subscript) and norm(n.value) == "items" and isinstance(n.slice, ast.Constant):
                        return n.slice.value
            return None
        si, ri = src_index(s_e), src_index(r_e)
        want_set, want_reset = (first_expr_idx, second_expr_idx) if set_first else (second_expr_idx, first_expr_idx)
        rep.check(si == want_set and ri == want_reset, "C05-R1", f"{r.alias}: set/reset expressions bound to the right keywords",
                  f"set <- items[{si}], reset <- items[{ri}] (grammar order {children})", m.loc(ret[0]))
        rep.check(isinstance(prio, ast.Constant) and prio.value is bool(set_first), "C05-R1", f"{r.alias}: priority constant is {bool(set_first)}",
                  f"returns {norm(prio)}; in the grammar {'set' if set_first else 'reset'} comes first", m.loc(ret[0]))
    mlw = tr.methods["memory_latch_write"]
    c = calls_in(mlw.node, "WriteExpr")
    du = DefUse(mlw)
    ok = bool(c) and all(kwarg(c[0], k) is not None for k in ("set_signal", "reset_signal", "set_priority"))
    if ok:
        cm = canon(mlw)
        got = [cm.text(kwarg(c[0], k)) for k in ("set_signal", "reset_signal", "set_priority")]
        base = got[0][:-3] if got[0].endswith("[0]") else None
        ok = base is not None and got == [f"{base}[{i}]" for i in range(3)]
    rep.check(ok, "C05-R1", "memory_latch_write passes (set, reset, priority) to WriteExpr under the same names", norm(c[0])[:120] if c else "", mlw.loc())
    we = repo.cls("WriteExpr")
    st = [n for n in walk_local(we.methods["__init__"].node) if isinstance(n, ast.Assign) and norm(n.targets[0]) == "self.set_priority"]
    rep.check(bool(st) and norm(st[0].value) == "set_priority", "C05-R1", "WriteExpr stores set_priority unchanged", norm(st[0]) if st else "", we.loc())
    ml = repo.cls("MemoryLowerer")
    maps = []
    for m in ml.methods.values():
        for lwc in calls_in(m.node, "latch_write"):
            if len(lwc.args) >= 5:
                maps.append((m, lwc))
    rep.floor("C05-R1", "priority -> latch-type mappings in lowering", len(maps), 2)
    for m, lwc in maps:
        got = canon(m).text(lwc.args[4])
        ok = got == "MEMORY_TYPE_SR_LATCH if expr.set_priority else MEMORY_TYPE_RS_LATCH"
        rep.check(ok, "C05-R1", f"{m.short}: set priority -> SR latch, reset priority -> RS latch, passed to IR", got, m.loc(lwc))
    il = repo.cls("IRLatchWrite")
    st = [n for n in walk_local(il.methods["__init__"].node) if isinstance(n, ast.Assign) and norm(n.targets[0]) == "self.latch_type"]
    rep.check(bool(st) and norm(st[0].value) == "latch_type", "C05-R1", "IRLatchWrite stores latch_type unchanged", norm(st[0]) if st else "", il.loc())
    lw = repo.func("IRBuilder.latch_write")
    cc = calls_in(lw.node, "IRLatchWrite")
    rep.check(bool(cc) and [norm(a) for a in cc[0].args[:5]] == ["memory_id", "value", "set_signal", "reset_signal", "latch_type"], "C05-R1",
              "IRBuilder.latch_write forwards (value, set, reset, latch_type) in order", norm(cc[0])[:100] if cc else "", lw.loc())

    # ---------------- R2 ---------------------------------------------------------------
    rep.rule("C05-R2", "every function that builds a latch placement (role 'latch') from an IRLatchWrite makes the emitted condition rows depend on op.latch_type "
             "(a branch on it selects the rows, or its value flows into them); siblings that ignore it contradict the one that branches")
    mb = repo.cls("MemoryBuilder")
    builders = []
    for m in mb.methods.values():
        if "op" not in m.params:
            continue
        makes_latch = any(kwarg(c2, "role") is not None and norm(kwarg(c2, "role")) == "'latch'" for c2 in calls_in(m.node, "create_and_add_placement"))
        calls_builders = [call_name(c2) for c2 in calls_in(m.node) if call_name(c2) in mb.methods and call_name(c2).startswith("_create_") and any(
            kwarg(c3, "role") is not None and norm(kwarg(c3, "role")) == "'latch'" for c3 in calls_in(mb.methods[call_name(c2)].node, "create_and_add_placement"))]
        if makes_latch or calls_builders:
            if m.name.startswith("_create_"):
                continue  # leaf builders are selected by their callers
            builders.append(m)
    rep.floor("C05-R2", "latch-building handlers", len(builders), 2)
    for m in builders:
        reads = [n for n in walk_local(m.node) if isinstance(n, ast.Attribute) and n.attr == "latch_type" and norm(n.value) == "op"]
        branches = [n for n in walk_local(m.node) if isinstance(n, ast.If) and "op.latch_type" in norm(n.test)]
        rep.check(bool(branches), "C05-R2", f"{m.short} selects its condition rows by op.latch_type",
                  f"branches on op.latch_type at line {branches[0].lineno}" if branches else
                  ("reads latch_type only for messages" if reads else "never reads op.latch_type") + ": `write(v, set=..., reset=...)` and `write(v, reset=..., set=...)` produce identical rows, so one of the two priorities is wrong whatever the evaluation order",
                  m.loc())

    # the branch has to act on the rows that are emitted: the local handed over as `conditions=` is changed (or chosen) inside it
    for m in builders:
        for c2 in calls_in(m.node, "create_and_add_placement"):
            cv = kwarg(c2, "conditions")
            if cv is None or not isinstance(cv, ast.Name):
                continue
            brs = [n for n in walk_local(m.node) if isinstance(n, ast.If) and "op.latch_type" in norm(n.test)]
            touches = any(isinstance(x, ast.Name) and x.id == cv.id for b in brs for st in b.body + b.orelse for x in ast.walk(st))
            for b in brs:
                if any(isinstance(x, ast.Name) and x.id == cv.id for st in b.body + b.orelse for x in ast.walk(st)):
                    bare = isinstance(b.test, ast.Compare) and len(b.test.ops) == 1 and isinstance(b.test.ops[0], (ast.Eq, ast.NotEq, ast.Is, ast.IsNot)) and "op.latch_type" in norm(b.test)
                    rep.check(bare, "C05-R2", f"{m.short}: the rows follow the declared priority and nothing else", "bare test of op.latch_type" if bare else
                              f"`{norm(b.test)[:90]}`: the priority rows are emitted only when a further condition holds; when it does not, reset-first behaves like set-first", m.loc(b))
            if brs:
                rep.check(touches, "C05-R2", f"{m.short}: the branch on op.latch_type changes the rows it emits", f"`{cv.id}` is built or edited inside the branch" if touches else
                          f"the branch never touches `{cv.id}`: both priorities still emit the same rows", m.loc(brs[0]))

    # ---------------- R3 ---------------------------------------------------------------
    rep.rule("C05-R3", "_invert_comparison's table maps every comparator that lowering can pass (the lowerer's COMPARISON_OPS) to its logical negation over the integers, "
             "keeps the constant, and the caller passes the *reset* operator through it")
    inv = mb.methods["_invert_comparison"]
    table = None
    for n in walk_local(inv.node):
        if isinstance(n, ast.Assign) and isinstance(n.value, ast.Dict):
            table = const_eval(n.value)
    if table is None:
        raise AnalysisError("C05-R3: inversion table not found")
    try:
        ops = set(module_const(repo, repo.module("lowering.memory_lowerer"), "COMPARISON_OPS"))
    except NotConstant:
        ops = {"==", "!=", "<", "<=", ">", ">="}
    rep.floor("C05-R3", "comparators lowering can pass", len(ops), 6)
    fallback_identity = any(isinstance(n, ast.Call) and call_name(n) == "get" and len(n.args) == 2 and norm(n.args[1]) == norm(n.args[0]) for n in walk_local(inv.node))
    for o in sorted(ops):
        got = table.get(o)
        ok = got is not None and got == NEGATION.get(o)
        rep.check(ok, "C05-R3", f"inversion of '{o}' is '{NEGATION.get(o)}'",
                  f"table gives {got!r}" + ("" if ok else (" (falls back to the operator itself: the hold row repeats the reset condition)" if got is None and fallback_identity else "")), inv.loc())
    rt = [n for n in walk_local(inv.node) if isinstance(n, ast.Return)]
    rep.check(bool(rt) and isinstance(rt[0].value, ast.Tuple) and norm(rt[0].value.elts[1]) == "const", "C05-R3", "the constant is kept", norm(rt[0].value) if rt else "", inv.loc())
    hi = mb.methods["_handle_latch_write_inlined"]
    cc = calls_in(hi.node, "_invert_comparison")
    chi = canon(hi)
    rep.check(bool(cc) and [chi.text(a) for a in cc[0].args] == ["op.reset_condition[1]", "op.reset_condition[2]"], "C05-R3", "the reset condition is the one inverted into the hold row", norm(cc[0]) if cc else "", hi.loc())
    up = [n for n in walk_local(hi.node) if isinstance(n, ast.Assign) and isinstance(n.targets[0], ast.Tuple) and norm(n.value) in ("op.set_condition", "op.reset_condition")]
    ok = len(up) == 2 and all(len(n.targets[0].elts) == 3 for n in up)
    rep.check(ok, "C05-R3", "set/reset conditions are unpacked as (signal, op, const)", "; ".join(norm(n) for n in up), hi.loc())

    # ---------------- R4 ---------------------------------------------------------------
    rep.rule("C05-R4", "the colour of the latch's self-feedback wire equals the colour the feedback row reads; rows on external inputs read the other colour; the "
             "multiplier reads the latch on the feedback colour and the value on the other; the planner's wire injection never overwrites these preset selections")
    fb = mb.methods["_setup_latch_feedback"]
    wc = calls_in(fb.node, "WireConnection")
    fb_col = kwarg(wc[0], "wire_color").value if wc and isinstance(kwarg(wc[0], "wire_color"), ast.Constant) else None
    ok = bool(wc) and norm(kwarg(wc[0], "source_entity_id")) == norm(kwarg(wc[0], "sink_entity_id")) and norm(kwarg(wc[0], "source_side")) == "'output'" and norm(kwarg(wc[0], "sink_side")) == "'input'"
    rep.check(ok and fb_col in ("red", "green"), "C05-R4", "latch feedback is an output->input self-connection on one colour", norm(wc[0])[:120] if wc else "", fb.loc())
    n_rows = 0
    for m in mb.methods.values():
        cm = canon(m)
        for pc in calls_in(m.node, "create_and_add_placement"):
            if kwarg(pc, "role") is None or norm(kwarg(pc, "role")) != "'latch'" or kwarg(pc, "conditions") is None:
                continue
            rows_node = cm.node(kwarg(pc, "conditions"))
            own = cm.text(kwarg(pc, "output_signal")) if kwarg(pc, "output_signal") is not None else None
            for i, row in enumerate(_dict_rows(rows_node)):
                n_rows += 1
                sig = norm(row.get("first_signal"))
                wires = row.get("first_signal_wires")
                wset = {e.value for e in wires.elts} if isinstance(wires, ast.Set) else None
                is_feedback = own is not None and sig == own
                want = {fb_col} if is_feedback else ({"red", "green"} - {fb_col})
                rep.check(wset == want, "C05-R4", f"{m.short} row {i + 1} ({sig[-40:]}) reads {'the feedback' if is_feedback else 'the external'} colour",
                          f"first_signal_wires={sorted(wset) if wset else None}, feedback wire is {fb_col}", m.loc(pc))
    rep.floor("C05-R4", "latch condition rows", n_rows, 6)
    mul = mb.methods["_create_latch_multiplier"]
    wcm = calls_in(mul.node, "WireConnection")
    cmul = canon(mul)
    mpc = [c2 for c2 in calls_in(mul.node, "create_and_add_placement")]
    def _sets(e):
        out = []
        for t in (cmul.alts(e) if e is not None else []):
            try:
                v = ast.literal_eval(t)
            except Exception:
                v = None
            out.append(v if isinstance(v, set) else None)
        return out
    lsets = _sets(kwarg(mpc[0], "left_operand_wires")) if mpc else []
    rsets = _sets(kwarg(mpc[0], "right_operand_wires")) if mpc else []
    lcol = lsets[0] if len(lsets) == 1 else None
    rone = [x for x in rsets if x is not None and len(x) == 1]
    rcol = rone[0] if len(rone) == 1 and all(x is not None for x in rsets) else None
    wcol = kwarg(wcm[0], "wire_color").value if wcm else None
    rep.check(lcol == {fb_col} and wcol == fb_col and rcol == ({"red", "green"} - {fb_col}), "C05-R4", "multiplier reads the latch on the feedback colour and the value on the other colour",
              f"left wires {lcol}, latch->multiplier wire {wcol}, right (signal value) wires {rcol}", mul.loc())
    inj = repo.func("LayoutPlanner._inject_operand_wire_color")
    cfg = CFG(inj.node)
    stores = [s for s in cfg.stmts() if isinstance(s, ast.Assign) and isinstance(s.targets[0], ast.Subscript) and "_operand_wires" in norm(s.targets[0].slice)]
    guards = [s for s in cfg.stmts() if isinstance(s, ast.If) and s.body and isinstance(s.body[-1], ast.Return) and "_operand_signal_id" in canon(inj).text(s.test) and isinstance(s.test, ast.BoolOp) and isinstance(s.test.op, ast.Or) and any(isinstance(v, ast.UnaryOp) and isinstance(v.op, ast.Not) and "_operand_signal_id" in canon(inj).text(v.operand) for v in s.test.values)]
    ok = bool(stores) and bool(guards) and all(cfg.dominates(guards[0], s) for s in stores)
    rep.check(ok, "C05-R4", "wire injection skips operands without a signal id (the latch multiplier's preset selections survive)",
              "early return on `not signal_id` dominates every *_operand_wires store" if ok else
              "injection can overwrite the {'green'}/{'red'} selections preset by _create_latch_multiplier (that placement has no *_operand_signal_id)", inj.loc())
    presets = [c2 for c2 in calls_in(mul.node, "create_and_add_placement")]
    ok = bool(presets) and not any(k.arg and k.arg.endswith("_operand_signal_id") for k in presets[0].keywords)
    rep.check(ok, "C05-R4", "the multiplier placement carries no *_operand_signal_id", "no signal-id keys" if ok else "signal id present", mul.loc())

    # ---------------- R5 ---------------------------------------------------------------
    rep.rule("C05-R5", "a latch is built on one combinator with inlined set/reset conditions only when both conditions compare the same input: the success return of "
             "_try_extract_inline_conditions is guarded by equality of the two compared names (or of the two producers), not merely of their signal types")
    from .util import cguards as _cg5
    tei = ml.methods["_try_extract_inline_conditions"]
    c5 = canon(tei)
    succ = [n for n in walk_local(tei.node) if isinstance(n, ast.Return) and isinstance(n.value, ast.Tuple) and len(n.value.elts) == 2 and all(isinstance(e, ast.Tuple) for e in n.value.elts)]
    rep.floor("C05-R5", "success returns of the inline-condition extractor", len(succ), 1)
    SN = "self._extract_simple_comparison(set_expr)[0]"
    RN = "self._extract_simple_comparison(reset_expr)[0]"
    for r5 in succ:
        gs5 = _cg5(tei, r5)
        same_name = any(pol and g in (f"{SN} == {RN}", f"{RN} == {SN}") for g, pol in gs5)
        a5, b5 = c5.text(r5.value.elts[0].elts[0]), c5.text(r5.value.elts[1].elts[0])
        same_prod = any(pol and ".source_id ==" in g and ".source_id" in g.split("==")[1] for g, pol in gs5)
        ok5 = (same_name and a5 == b5) or same_prod
        rep.check(ok5, "C05-R5", "inlined set/reset conditions compare one and the same input",
                  "guarded by set name == reset name; both conditions carry the one lowered reference" if ok5 else
                  f"guards {[g[-70:] for g, p in gs5 if p]} do not identify the two inputs: two different inputs on one signal type share the latch's single input wire, the reset input is never connected", tei.loc(r5))
    rep.rule("C05-R6", "rewriting references in a latch write keeps set and reset apart: each operand slot is rebuilt from its own old value")
    from .shared import slot_rewrites_are_self_referential as _srs
    _srs(repo, rep, "C05-R6", only_class="IRLatchWrite")

    # ---------------- R7 ---------------------------------------------------------------
    from .shared import borrow as _borrow5
    _borrow5(repo, rep, "C06", "C06-R9", "C05-R7", "whatever produces a latch's value, set and reset signals stays in place: the usage index records the latch write's operands as consumers",
             select=lambda o: "IRLatchWrite." in o.construct, floor=5)

    # ---------------- R8 ---------------------------------------------------------------
    rep.rule("C05-R8", "a read of the cell lowered before its latch write is served by the latch as well: the latch write re-points every recorded read of this cell "
             "(the gates such a read was first attached to are removed as unused)")
    hlw = mb.methods["handle_latch_write"]
    chl = canon(hlw)
    loops8 = [n for n in walk_local(hlw.node) if isinstance(n, ast.For) and chl.text(n.iter) == "self._read_sources.items()"]
    ok8 = False
    for lp8 in loops8:
        for k8 in calls_in(lp8, "set_source"):
            a0, a1 = chl.text(k8.args[0]), chl.text(k8.args[1])
            own = any(pol and g in ("ELEM(self._read_sources.items())[1] == op.memory_id", "op.memory_id == ELEM(self._read_sources.items())[1]") for g, pol in cguards(hlw, k8))
            if a0 == "ELEM(self._read_sources.items())[0]" and ("latch_combinator" in a1 or "multiplier_combinator" in a1) and own:
                ok8 = True
    rep.check(ok8, "C05-R8", "handle_latch_write re-points the reads of its own cell at the latch output",
              "for read in _read_sources: if it is this cell: set_source(read, latch output)" if ok8 else
              "no re-pointing: `Memory m; Signal early = m.read(); m.write(1, set=..., reset=...);` leaves `early` attached to the removed hold gate, it reads 0 forever", hlw.loc())

    # ---------------- R9 ---------------------------------------------------------------
    rep.rule("C05-R9", "the latch and its multiplier read the written value and the set/reset signals from wires only, so a constant that feeds them must be placed: "
             "SignalAnalyzer.analyze exports (record_export) IRLatchWrite.value, .set_signal and .reset_signal in the IRLatchWrite branch (exported constants always materialise, C06-R6)")
    an9 = repo.func("SignalAnalyzer.analyze")
    c9 = canon(an9)
    for slot9, ex_in in (("value", "`int k = 2; m.write(k * 3, set=s, reset=r);`: the folded 6 has no combinator, the multiplier scales by a signal nobody sends and the cell reads 0"),
                         ("set_signal", "`m.write(1, set=5 | \"signal-S\", reset=r);`: the anonymous constant is never placed, the latch is never set"),
                         ("reset_signal", "`m.write(1, set=s, reset=5 | \"signal-R\");`: the anonymous constant is never placed, the latch is never reset")):
        ex9 = [k for k in calls_in(an9.node, "record_export") if c9.text(k.args[0]) == f"ELEM(ir_operations).{slot9}"
               and any(pol and g == "isinstance(ELEM(ir_operations), IRLatchWrite)" for g, pol in cguards(an9, k))]
        rep.check(bool(ex9), "C05-R9", f"a constant used as IRLatchWrite.{slot9} is always placed", "exported in the IRLatchWrite branch" if ex9 else
                  f"IRLatchWrite.{slot9} is only recorded as a consumer: an anonymous constant there is treated as inlinable and never placed — {ex_in}", an9.loc())

    # ---------------- R10 --------------------------------------------------------------
    from .shared import borrow as _borrow5b
    _borrow5b(repo, rep, "C01", "C01-R4", "C05-R10", "the latch's conditions read set, reset and feedback wherever they arrive: a decider operand without a recorded wire selection "
              "reads both colours", select=lambda o: "defaults to both colours" in o.construct, floor=4)

    # ---------------- R11 --------------------------------------------------------------
    rep.rule("C05-R11", "a threshold written with the constant first means the same threshold: wherever the lowering swaps the operands of a comparison and maps its operator through a "
             "table, the table is the mirror table (< <-> >, <= <-> >=, == and != unchanged) — the negation table (< -> >=) moves the boundary by one")
    from ..sides import MIRROR_PAIRS as _MP11
    n11 = 0
    for f11 in repo.all_funcs():
        if not any(seg in f11.module.name + "." for seg in (".lowering.", ".layout.", ".emission.", ".semantic.", ".ir.")):
            continue
        for blk in walk_local(f11.node):
            if not isinstance(blk, ast.If):
                continue
            swaps = [x for x in blk.body if isinstance(x, ast.Assign) and isinstance(x.targets[0], ast.Tuple) and isinstance(x.value, ast.Tuple) and len(x.targets[0].elts) == 2
                     and [norm(e) for e in x.targets[0].elts] == [norm(e) for e in reversed(x.value.elts)]]
            if not swaps:
                continue
            for x in blk.body:
                for c in ast.walk(x):
                    tname = None
                    if isinstance(c, ast.Call) and call_name(c) == "get" and isinstance(c.func, ast.Attribute) and isinstance(c.func.value, ast.Name) and c.args:
                        tname = c.func.value.id
                    elif isinstance(c, ast.Subscript) and isinstance(c.value, ast.Name) and isinstance(c.ctx, ast.Load) and c.value.id.isupper():
                        tname = c.value.id
                    if tname is None:
                        continue
                    try:
                        table = module_const(repo, f11.module, tname)
                    except Exception:  # noqa: BLE001
                        continue
                    if not (isinstance(table, dict) and table and all(isinstance(k, str) and isinstance(v, str) for k, v in table.items())
                            and set(table) & set(_MP11)):
                        continue
                    n11 += 1
                    wrong = {k: v for k, v in table.items() if (k in _MP11 and v != _MP11[k]) or (k not in _MP11 and v != k)}
                    # a table looked up with a default (`.get(op, op)`) leaves every operator it does not list as it is: the ordered ones must all be listed
                    if isinstance(c, ast.Call):
                        wrong.update({k: "(not listed: stays as it is)" for k in ("<", ">", "<=", ">=") if k not in table})
                    rep.check(not wrong, "C05-R11", f"{f11.short}: operator table `{tname}` used with swapped operands is the mirror table",
                              f"{table}" if not wrong else f"entries {wrong} are not mirror images: `20 > battery` becomes `battery {table.get('>')} 20`; the set/reset threshold is off by one at the boundary", f11.loc(swaps[0]))
    rep.analysed["C05-R11:operand swaps with an operator table"] = n11
    if n11 == 0:
        rep.ok("C05-R11", "no comparison is re-oriented through an operator table in the lowering", "0 swap sites (constant-first thresholds are not inlined)", "dsl_compiler/src/lowering/memory_lowerer.py:1", nontrivial=False)

    # ---------------- R12 --------------------------------------------------------------
    rep.rule("C05-R12", "reset priority is decided on the reset input alone: the feedback of a latch travels on the latch's own signal and, for the combinator-built reset-first "
             "latch, adds to the set input — a single test `S > R` therefore stops honouring the reset once the cell is on (S + 1 > R). The reset-first placement is a "
             "multi-condition decider in which every OR-group contains a row `reset = 0`")
    rsl = mb.methods["_create_rs_latch_placement"]
    cap = calls_in(rsl.node, "create_and_add_placement")
    if not cap:
        raise AnalysisError("C05-R12: _create_rs_latch_placement creates no placement")
    cv12 = kwarg(cap[0], "conditions")
    rows12 = None
    if isinstance(cv12, ast.Name):
        for st in walk_local(rsl.node):
            if isinstance(st, ast.Assign) and norm(st.targets[0]) == cv12.id and isinstance(st.value, ast.List):
                rows12 = st.value.elts
    elif isinstance(cv12, ast.List):
        rows12 = cv12.elts
    reset_p = [p_ for p_ in rsl.params if "reset" in p_]
    ok12 = False
    detail12 = "single condition on (set, reset): `operation`/`left_operand`/`right_operand`"
    if rows12 and reset_p:
        groups, cur = [], []
        for r_ in rows12:
            dct = {k.value: v for k, v in zip(r_.keys, r_.values) if isinstance(k, ast.Constant)} if isinstance(r_, ast.Dict) else {}
            if dct.get("compare_type") is not None and norm(dct["compare_type"]) == "'or'" and cur:
                groups.append(cur)
                cur = []
            cur.append(dct)
        if cur:
            groups.append(cur)
        def _is_reset_row(dct):
            return "first_signal" in dct and norm(dct["first_signal"]) == reset_p[0] and norm(dct.get("comparator")) in ("'='", "'=='") and norm(dct.get("second_constant")) == "0"
        ok12 = bool(groups) and all(any(_is_reset_row(x) for x in g_) for g_ in groups)
        detail12 = f"{len(groups)} OR-group(s), each with `{reset_p[0]} = 0`" if ok12 else f"{len(groups)} OR-group(s), some without a row `{reset_p[0]} = 0`"
    rep.check(ok12, "C05-R12", "_create_rs_latch_placement tests the reset input in every OR-group", detail12 if ok12 else
              detail12 + ": with the cell on and set still active, a reset equal to the set input does not win (history s=1; r=1 reads 1 instead of 0)", rsl.loc(cap[0]))
