"""C20 Every named result is exposed and labelled — structural clauses (thin).

R1 reference tracking: a name is marked 'referenced' only when it is read
R2 anchor pairing: one anchor per (output signal, alias), always wired to the signal; constants are skipped only when they carry the name themselves
R3 label flow: debug_info keys written by the placers are read by the description formatter, declared names override node ids, inputs are marked, anchors say 'output'
R4 output detection uses a complete consumer ladder (every reference slot of the IR schema is recorded as a consumer)
R5 materialisation: a constant that is exported to an entity property, unconsumed, typed or named is materialised
"""

from __future__ import annotations

import ast

from ..bags import readers_in
from ..cfg import CFG, EXIT
from ..core import AnalysisError, Repo, Report, call_name, calls_in, kwarg, norm, parents_map, walk_local
from ..dataflow import DefUse
from ..irschema import ir_classes, ir_schema
from ..sites import guard_chain
from .c10 import slot_access
from .util import canon, cguards, cguards_any, dict_of
import re


def run(repo: Repo, rep: Report, tier: str) -> None:
    # ---------------- R1 ---------------------------------------------------------------
    rep.rule("C20-R1", "referenced_signal_names.add happens only on the read path of an identifier (never in declaration/assignment lowering)")
    adders = []
    for f in repo.all_funcs():
        for c in calls_in(f.node, "add"):
            if norm(c.func.value if isinstance(c.func, ast.Attribute) else c.func).endswith("referenced_signal_names"):
                adders.append((f, c))
    rep.floor("C20-R1", "sites that mark a name as referenced", len(adders), 1)
    for f, c in adders:
        rep.check(f.short == "ExpressionLowerer.lower_identifier", "C20-R1", f"{f.short} marks a name as referenced", "read path" if f.short == "ExpressionLowerer.lower_identifier" else
                  "a declaration/assignment path marks its own name as read: the name stops being an output", f.loc(c))
    li = repo.func("ExpressionLowerer.lower_identifier")
    pm = parents_map(li.node)
    for f, c in adders:
        if f is li or f.short == li.short:
            st = c
            while not isinstance(st, ast.stmt):
                st = pm[st]
            gs = [t for t, pol in cguards(li, c) if pol]
            argt = canon(li).text(c.args[0])
            rep.check(any(g == f"{argt} in self.parent.signal_refs" for g in gs) and argt == "expr.name", "C20-R1", "the referenced name is the identifier being read from signal_refs", "; ".join(gs), li.loc(c))

    # ---------------- R2 ---------------------------------------------------------------
    rep.rule("C20-R2", "create_output_anchors: for every alias of every is_output entry with a producer, an anchor placement keyed by (signal id, alias) is created and on every path "
             "followed by signal_graph.add_sink(signal id, anchor id); a constant producer is skipped only for its own declared name")
    coa = repo.func("EntityPlacer.create_output_anchors")
    cfg = CFG(coa.node)
    creates = [s for s in cfg.stmts() if isinstance(s, ast.Expr) and isinstance(s.value, ast.Call) and call_name(s.value) == "create_and_add_placement"]
    ccoa = canon(coa)
    E = "ELEM(self.signal_usage.items())"
    anchor_txt = ccoa.text(kwarg(creates[0].value, "ir_node_id")) if creates else ""
    sinks = [s for s in cfg.stmts() if isinstance(s, ast.Expr) and isinstance(s.value, ast.Call) and norm(s.value.func) == "self.signal_graph.add_sink" and len(s.value.args) == 2
             and ccoa.text(s.value.args[0]) == f"{E}[0]" and ccoa.text(s.value.args[1]) == anchor_txt]
    ok = bool(creates) and bool(sinks)
    loop = None
    if creates:
        cur = creates[0]
        while cur in ccoa.pm:
            cur = ccoa.pm[cur]
            if isinstance(cur, ast.For):
                loop = cur
                break
    if ok and loop is not None:
        leak = cfg.reaches_avoiding(creates[0], {id(loop), id(EXIT)}, lambda n: n is sinks[0], start_inclusive=False)
        ok = not leak
    rep.check(ok and loop is not None, "C20-R2", "every anchor is wired to the result it exposes", "add_sink(signal_id, anchor_id) on every path after the placement" if ok else "an anchor can be created without being wired", coa.loc(creates[0]) if creates else coa.loc())
    m_ = re.fullmatch(r"f'\{ELEM\(self\.signal_usage\.items\(\)\)\[0\]\}_\{ELEM\((.+)\)\}_output_anchor'", anchor_txt)
    ok = m_ is not None and loop is not None and m_.group(1) == ccoa.text(loop.iter)
    rep.check(ok, "C20-R2", "anchor id is a function of (signal id, alias): one per name", "f'{signal id}_{alias}_output_anchor'" if ok else anchor_txt[:120], coa.loc())
    c = creates[0].value if creates else None
    ok = c is not None and norm(kwarg(c, "entity_type")) == "'constant-combinator'" and norm(kwarg(c, "signals")) == "[]" and norm(kwarg(c, "role")) == "'output_anchor'"
    rep.check(ok, "C20-R2", "the anchor is an empty constant combinator with role output_anchor", norm(c)[:120] if c is not None else "", coa.loc())
    gate = [n for n in walk_local(coa.node) if isinstance(n, ast.If) and ccoa.text(n.test) == f"not {E}[1].debug_metadata.get('is_output')" and isinstance(n.body[-1], ast.Continue)]
    rep.check(bool(gate), "C20-R2", "anchors are created for exactly the entries marked is_output", "skip unless is_output" if gate else "gate missing", coa.loc())
    cb = [n for n in walk_local(coa.node) if isinstance(n, ast.If) and ccoa.text(n.test) == f"isinstance({E}[1].producer, IRConst)"]
    ok = False
    if cb and loop is not None and isinstance(loop.iter, ast.Name):
        for x in [x for s_ in cb[0].body for x in ast.walk(s_)]:
            if isinstance(x, ast.Assign) and isinstance(x.targets[0], ast.Name) and x.targets[0].id == loop.iter.id and isinstance(x.value, ast.BinOp) and isinstance(x.value.op, ast.Sub) \
                    and isinstance(x.value.left, ast.Name) and x.value.left.id == loop.iter.id and isinstance(x.value.right, ast.Set) and len(x.value.right.elts) == 1 \
                    and ccoa.text(x.value.right.elts[0]) == f"{E}[1].debug_metadata.get('declared_name')":
                ok = True
    rep.check(ok, "C20-R2", "a constant is skipped only under its own declared name; other aliases still get anchors", "aliases minus {declared_name}" if ok else "constant aliases are dropped", coa.loc(cb[0]) if cb else coa.loc())

    # ---------------- R3 ---------------------------------------------------------------
    rep.rule("C20-R3", "variable/line/source_file/operation/details written by the placers are read by format_entity_description and end in player_description; "
             "the declared name overrides the node id; user-declared constants carry `value=... (input)`; anchors are labelled `(output anchor)`")
    fed = repo.func("format_entity_description")
    rkeys = {r.key for r in readers_in(fed, {"debug_info"})}
    for k in ("variable", "line", "source_file", "operation", "details"):
        rep.check(k in rkeys, "C20-R3", f"description reads debug_info['{k}']", "read" if k in rkeys else "key ignored by the formatter", fed.loc())
    # the name is dropped from the label only when there is none: a literal placeholder is chosen under `not <variable>` alone
    cfed = canon(fed)
    VAR3 = "debug_info.get('variable', '')"
    name_locals = {n.targets[0].id for n in walk_local(fed.node) if isinstance(n, ast.Assign) and isinstance(n.targets[0], ast.Name)
                   and isinstance(n.value, ast.Name) and cfed.text(n.value) == VAR3}
    lit_names = [n for n in walk_local(fed.node) if isinstance(n, ast.Assign) and isinstance(n.targets[0], ast.Name) and n.targets[0].id in name_locals
                 and isinstance(n.value, ast.Constant) and isinstance(n.value.value, str)]
    if not name_locals:
        raise AnalysisError("C20-R3: the local holding the label's name part was not found in format_entity_description")
    reads_var = any(VAR3 in a_ for n in walk_local(fed.node) if isinstance(n, ast.Expr) and isinstance(n.value, ast.Call) and call_name(n.value) == "append" and n.value.args for a_ in cfed.alts(n.value.args[0]))
    rep.check(reads_var, "C20-R3", "the label's name part can be the variable itself", "an appended part has the alternative debug_info['variable']" if reads_var else "no appended part is the variable", fed.loc())
    for n in lit_names:
        gs3 = cguards(fed, n)
        ok3 = any((not pol) and t == VAR3 for t, pol in gs3)
        rep.check(ok3, "C20-R3", f"placeholder name {n.value.value!r} only when the node has no variable", "under `not variable`" if ok3 else
                  f"chosen under {[('' if pol else 'not ') + t[:70] for t, pol in gs3]}: a result whose name the program chose (e.g. `const_speed`, `arith_mean`) is labelled {n.value.value!r}", fed.loc(n))
    bdi = repo.func("EntityPlacer._build_debug_info")
    cbdi = canon(bdi)
    dubd = DefUse(bdi)
    ret_names = {x.id for n in walk_local(bdi.node) if isinstance(n, ast.Return) and n.value is not None for x in ast.walk(n.value)
                 if isinstance(x, ast.Name) and any(isinstance(v, ast.Dict) for v in dubd.value_exprs(x.id))}
    wkeys = {n.slice.value for n in walk_local(bdi.node) if isinstance(n, ast.Subscript) and isinstance(n.ctx, ast.Store) and isinstance(n.value, ast.Name) and n.value.id in ret_names and isinstance(n.slice, ast.Constant)}
    rep.check({"variable", "line", "source_file", "operation", "details"} <= wkeys, "C20-R3", "the placer writes the keys the formatter reads", str(sorted(wkeys)), bdi.loc())
    ov = [n for n in walk_local(bdi.node) if isinstance(n, ast.Assign) and isinstance(n.targets[0], ast.Subscript) and isinstance(n.targets[0].value, ast.Name) and n.targets[0].value.id in ret_names
          and norm(n.targets[0].slice) == "'variable'" and cbdi.text(n.value) == "op.debug_metadata.get('declared_name')"]
    gs_ov = cguards(bdi, ov[0]) if ov else []
    DN = "op.debug_metadata.get('declared_name')"
    UD = "hasattr(op, 'debug_metadata') and op.debug_metadata and op.debug_metadata.get('user_declared')"
    extra = [("" if pol else "not ") + t for t, pol in gs_ov if not (pol and t in (DN, UD, "op.debug_metadata.get('user_declared')"))]
    ok = bool(ov) and any("user_declared" in t and pol for t, pol in gs_ov) and not extra
    rep.check(ok, "C20-R3", "a declared name overrides the node id in the label", "debug_info['variable'] = declared_name whenever the node is user-declared and has a declared name" if ok else
              ("override missing" if not ov else f"the override is additionally conditioned on {extra}: a user-declared input can be labelled with another name"), bdi.loc(ov[0]) if ov else bdi.loc())
    det = [n for n in walk_local(bdi.node) if isinstance(n, ast.Assign) and isinstance(n.targets[0], ast.Subscript) and isinstance(n.targets[0].value, ast.Name) and n.targets[0].value.id in ret_names
           and norm(n.targets[0].slice) == "'details'" and any("isinstance(op, IRConst)" == t and pol for t, pol in cguards_any(bdi, n))]
    alts = cbdi.alts(det[0].value) if det else []
    ok = bool(det) and any("value={op.value}" in a_ for a_ in alts) and any("AUG(' (input)')" in a_ for a_ in alts)
    inp = [n for n in walk_local(bdi.node) if isinstance(n, ast.AugAssign) and "(input)" in norm(n.value)]
    ok = ok and bool(inp) and any("user_declared" in t and pol for t, pol in cguards(bdi, inp[0]))
    rep.check(ok, "C20-R3", "named inputs are labelled with their value and `(input)`", "details = value=<v> (input)" if ok else f"input label missing: {alts}", bdi.loc())
    ce = repo.func("PlanEntityEmitter.create_entity")
    cce = canon(ce)
    pd = [n for n in walk_local(ce.node) if isinstance(n, ast.Assign) and isinstance(n.targets[0], ast.Attribute) and n.targets[0].attr == "player_description"]
    ok = bool(pd) and re.fullmatch(r"format_entity_description\(placement\.properties\.get\('debug_info'(, .+)?\)\)", cce.text(pd[0].value)) is not None
    rep.check(ok, "C20-R3", "the description of every entity is format_entity_description(placement debug_info)", cce.text(pd[0].value)[:100] if pd else "", ce.loc())
    anchor_info = [n for n in walk_local(coa.node) if isinstance(n, ast.Dict) and any(isinstance(k, ast.Constant) and k.value == "operation" for k in n.keys)]
    d = dict_of(anchor_info[0], ccoa) if anchor_info else {}
    out_branch = any(isinstance(n, ast.If) and "operation == 'output'" in canon(fed).text(n.test).replace("debug_info.get('operation')", "operation").replace("debug_info['operation']", "operation") for n in ast.walk(fed.node))
    rep.check(loop is not None and d.get("variable") == f"ELEM({ccoa.text(loop.iter)})" and d.get("operation") == "'output'" and out_branch, "C20-R3", "anchors are labelled with the alias and `(output anchor)`", str({k: v[-40:] for k, v in d.items()}), coa.loc())

    # ---------------- R4 ---------------------------------------------------------------
    rep.rule("C20-R4", "is_output = (labelled and no consumers) or (has aliases whose names were never read); consumers are recorded only for operand slots of the node being visited")
    an = repo.func("SignalAnalyzer.analyze")
    # NOTE: completeness of the consumer ladder is *not* required here: a consumer that analyze fails to record (IRLatchWrite today)
    # only produces an extra anchor for a consumed name, which the property does not forbid.  The unsafe direction is a spurious
    # consumer; record_consumer is only ever called with operand slots of the node being visited, checked next.
    rc_calls = [c for c in calls_in(an.node, "record_consumer")]
    can_ = canon(an)
    spurious = [c for c in rc_calls if not can_.text(c.args[0]).startswith(("ELEM(ir_operations).", "ELEM(ELEM(ir_operations)."))]
    rep.check(not spurious and len(rc_calls) >= 10, "C20-R4", "consumers are recorded only for operand slots of the visited node", f"{len(rc_calls)} record_consumer calls" + (f"; suspicious: {[norm(c) for c in spurious]}" if spurious else ""), an.loc())
    flags = [n for n in walk_local(an.node) if isinstance(n, ast.Assign) and isinstance(n.targets[0], ast.Subscript) and norm(n.targets[0].slice) == "'is_output'" and norm(n.targets[0].value).endswith(".debug_metadata")]
    conds_all: set[str] = set()
    for n in flags:
        en = can_.text(n.targets[0].value.value)
        sid = en[:-3] + "[0]" if en.endswith("[1]") else "?"
        for t, pol in cguards(an, n):
            if pol and en in t:
                conds_all.add(t.replace(en, "entry").replace(sid, "signal_id"))
    conds = sorted(conds_all)
    ok = "entry.debug_label and entry.debug_label != signal_id and (not entry.consumers)" in conds and "entry.output_aliases" in conds
    rep.check(ok, "C20-R4", "is_output <=> (labelled and unconsumed) or (has unreferenced aliases)", "; ".join(conds), an.loc())
    oa = [c_ for c_ in calls_in(an.node, "add") if isinstance(c_.func, ast.Attribute) and norm(c_.func.value).endswith(".output_aliases")
          and any(re.fullmatch(r"ELEM\(.+\.alias_names\) in self\.referenced_signal_names", g) and not pol for g, pol in cguards(an, c_))
          and re.fullmatch(r"ELEM\(.+\.alias_names\)", can_.text(c_.args[0]))]
    rep.check(bool(oa), "C20-R4", "an alias is output-only iff its name was never read", "alias_name not in referenced_signal_names" if oa else "", an.loc())

    # ---------------- R5 ---------------------------------------------------------------
    rep.rule("C20-R5", "_decide_materialization keeps a constant that is typed, exported to an entity property, unconsumed, named or labelled (each disjunct is one way a user can find it)")
    dm = repo.func("SignalAnalyzer._decide_materialization")
    fin = [n for n in walk_local(dm.node) if isinstance(n, ast.Assign) and norm(n.targets[0]) == "entry.should_materialize" and isinstance(n.value, ast.Call) and call_name(n.value) == "bool"]
    terms = set()
    if fin and isinstance(fin[0].value.args[0], ast.BoolOp):
        cdm = canon(dm)
        for v in fin[0].value.args[0].values:
            t = cdm.text(v)
            if "ELEM(('name', 'declared_type', 'source_ast')) in entry.debug_metadata" in t:
                t = "named_metadata"
            elif t == "bool(entry.debug_label) and entry.debug_label != entry.signal_id":
                t = "has_user_label"
            terms.add(t)
    want = {"entry.is_typed_literal", "entry.export_targets", "not entry.consumers", "named_metadata", "has_user_label"}
    rep.check(want <= terms, "C20-R5", "every reason to materialise a constant is still honoured",
              f"disjuncts {sorted(terms)}" + ("" if want <= terms else f"; missing {sorted(want - terms)}: such constants silently disappear from the blueprint"), dm.loc(fin[0]) if fin else dm.loc())
    ud = [n for n in walk_local(dm.node) if isinstance(n, ast.If) and "user_declared" in norm(n.test)]
    rep.check(len(ud) >= 2, "C20-R5", "user-declared constants always materialise", f"{len(ud)} user_declared guards", dm.loc())

    # ---------------- R6 ---------------------------------------------------------------
    rep.rule("C20-R6", "a pass that eliminates IR nodes (it records old id -> surviving id in `replacements`) must not strand names: the name table handed to the layout "
             "(signal_refs) is re-pointed through those replacements, otherwise a named result whose node was merged or folded has no producer and gets no label or anchor")
    from ..pipeline import compile_funcs as _cfs6
    eliminators = [c for c in repo.all_classes() if "optimize" in c.methods and any(
        isinstance(n, ast.Assign) and isinstance(n.targets[0], ast.Subscript) and norm(n.targets[0].value) == "self.replacements" for n in walk_local(c.methods["optimize"].node))]
    rep.floor("C20-R6", "node-eliminating passes", len(eliminators), 2)
    for cf in _cfs6(repo):
        used = [c for c in calls_in(cf.node) if call_name(c) in {k.name for k in eliminators}]
        if not used:
            continue
        passes_names = any(kwarg(c, "signal_refs") is not None for c in calls_in(cf.node, "LayoutPlanner"))
        ccf = canon(cf)
        applied = set()
        for c_ in calls_in(cf.node):
            texts = [ccf.text(a_) for a_ in list(c_.args) + [k_.value for k_ in c_.keywords]]
            if any(t_.endswith(".signal_refs") for t_ in texts):
                for t_ in texts:
                    for k_ in eliminators:
                        if t_.startswith(k_.name + "(") and t_.endswith(".replacements"):
                            applied.add(k_.name)
                        # loop form: `for p in (A(), B()): ir = p.optimize(ir); repoint(refs, p.replacements)`
                        m_ = re.fullmatch(r"ELEM\(\((.*)\)\)\.replacements", t_)
                        if m_ and re.search(rf"\b{k_.name}\(", m_.group(1)):
                            applied.add(k_.name)
        missing = sorted({call_name(c) for c in used} - applied)
        handed = [ccf.text(kwarg(c, "signal_refs")) for c in calls_in(cf.node, "LayoutPlanner") if kwarg(c, "signal_refs") is not None]
        repointed_objs = {t_ for c_ in calls_in(cf.node) for t_ in [ccf.text(a_) for a_ in c_.args[:1]] if t_.endswith(".signal_refs") and any(ccf.text(a2).endswith(".replacements") for a2 in c_.args[1:])}
        if handed and not set(handed) <= repointed_objs:
            missing = missing + [f"planner receives {handed[0][-40:]!r}, not the re-pointed table"]
        repointed = not missing
        rep.check((not passes_names) or repointed, "C20-R6", f"{cf.short} re-points the name table after node-eliminating passes",
                  f"replacements of {sorted(applied)} are applied to signal_refs" if repointed else
                  f"{missing} drop nodes but signal_refs still names the dropped ids: `Signal a = x + 1; Signal b = x + 1;` exposes a only (b has no anchor and no label)", cf.loc(used[0]))

    # ---------------- R7 ---------------------------------------------------------------
    from .shared import borrow as _borrow20
    _borrow20(repo, rep, "C04", "C04-R5", "C20-R7", "every anchor created for a name is wired: wire population leaves no sink of a producer out, whichever routing strategy is used",
              select=lambda o: "sinks handed to the spanning tree" in o.construct or "always routed directly" in o.construct, floor=2)

    # ---------------- R8 ---------------------------------------------------------------
    rep.rule("C20-R8", "names of bundles are treated like names of signals: every reference class that the lowerer stores in the name table (the members of ValueRef that carry a "
             "source_id) is followed through `replacements` by repoint_signal_refs and is entered in the analyzer's alias map (name -> producer); a class left out keeps "
             "pointing at an eliminated node or never gets an alias anchor")
    def _isinstance_classes(test):
        out = set()
        for x in ast.walk(test):
            if isinstance(x, ast.Call) and call_name(x) == "isinstance" and len(x.args) == 2:
                t_ = x.args[1]
                out |= {e.id for e in (t_.elts if isinstance(t_, ast.Tuple) else [t_]) if isinstance(e, ast.Name)}
        return out
    ref_classes = sorted(c.name for c in repo.all_classes() if c.name.endswith("Ref") and any(
        isinstance(n, ast.Assign) and norm(n.targets[0]) == "self.source_id" for m in c.methods.values() for n in walk_local(m.node)))
    rep.floor("C20-R8", "reference classes with a source_id", len(ref_classes), 2)
    rp = repo.func("repoint_signal_refs")
    rp_tests = [n.test for n in walk_local(rp.node) if isinstance(n, ast.If)]
    rp_classes = set().union(*[_isinstance_classes(t_) for t_ in rp_tests]) if rp_tests else set()
    an8 = repo.func("SignalAnalyzer.analyze")
    alias_loops = [n for n in walk_local(an8.node) if isinstance(n, ast.For) and norm(n.iter) == "self.signal_refs.items()"]
    if not alias_loops:
        raise AnalysisError("C20-R8: the alias-map loop over self.signal_refs was not found in SignalAnalyzer.analyze")
    al_classes = set().union(*[_isinstance_classes(x.test) for n in alias_loops for x in n.body if isinstance(x, ast.If)])
    for cname in ref_classes:
        rep.check(cname in rp_classes, "C20-R8", f"repoint_signal_refs follows {cname} names", "covered" if cname in rp_classes else
                  f"only {sorted(rp_classes)} are re-pointed: `Bundle c = b * 3; Bundle d = b * 3;` leaves d on the eliminated node — no label, no anchor", rp.loc())
        rep.check(cname in al_classes, "C20-R8", f"the alias map records {cname} names", "covered" if cname in al_classes else
                  f"only {sorted(al_classes)} enter the alias map: a second name of a {cname} producer never becomes an output alias and gets no anchor", an8.loc(alias_loops[0]))

    # ---------------- R9 ---------------------------------------------------------------
    _borrow20(repo, rep, "C04", "C04-R2", "C20-R9", "a named read declared after the write of a folded cell is wired to the combinator that now holds the cell: the feedback rewrite records "
              "the surviving node for later reads on every path", select=lambda o: "output_node_id" in o.construct or "handle_read" in o.detail, floor=1)

    # ---------------- R10 --------------------------------------------------------------
    rep.rule("C20-R10", "the source line in a label is the line of the user's file: the text handed to the parser keeps its leading lines (no `.strip()` / `.lstrip()` on the way), "
             "otherwise every label and diagnostic of a file that starts with blank lines is off by that many lines")
    n10 = 0
    for cf10 in _cfs6(repo):
        cc10 = canon(cf10)
        for c in calls_in(cf10.node, "parse"):
            if not c.args:
                continue
            n10 += 1
            t10 = cc10.text(c.args[0])
            bad10 = [m for m in (".strip()", ".lstrip(") if m in t10]
            rep.check(not bad10, "C20-R10", f"{cf10.short}: parser receives the source with its leading lines", t10[:60] if not bad10 else
                      f"`{t10[:60]}` removes leading blank lines: `\\\\n\\\\nSignal a = 1;` is labelled line 1 instead of line 3", cf10.loc(c))
    rep.floor("C20-R10", "parse calls in the compile functions", n10, 2)

    # ---------------- R11 --------------------------------------------------------------
    _borrow20(repo, rep, "C16", "C16-R3", "C20-R11", "a top-level name keeps pointing at its own value when a loop body declares a local of the same name: the name table is given back "
              "the outer value for every name an iteration declares", select=lambda o: "iteration's own names" in o.construct or "outer ASTLowerer.signal_refs value back" in o.construct, floor=2)

    # ---------------- R12 --------------------------------------------------------------
    rep.rule("C20-R12", "a result is hidden only because the program itself reads it: the set of names counted as 'read' (which decides whether a named value still gets its "
             "output anchor) is filled by identifier look-ups; inside an inlined function body a look-up counts only if it reaches the program's own value of that name, "
             "not a local of the callee that is merely called the same — otherwise `Signal on = x > 3;` loses its anchor because some function has a local `on`")
    li12 = repo.func("ExpressionLowerer.lower_identifier")
    adds12 = [c for c in calls_in(li12.node, "add") if "referenced_signal_names" in norm(c.func)]
    if not adds12:
        raise AnalysisError("C20-R12: lower_identifier no longer records referenced names")
    from .util import cguards as _cg12b
    for c in adds12:
        gs = [g for g, pol in _cg12b(li12, c)]
        scoped = any("_inlining_stack" in g or "_inline_outer_refs" in g for g in gs)
        rep.check(scoped, "C20-R12", "lower_identifier counts a name as read only when the look-up reaches the program's own value", "guarded by the inlining state" if scoped else
                  "every look-up counts, also one that finds a callee's local: a top-level result of the same name is treated as consumed and gets no anchor", li12.loc(c))
