"""C20 Every named result is exposed and labelled — structural clauses (thin).

R1 reference tracking: a name is marked 'referenced' only when it is read
R2 anchor pairing: one anchor per (output signal, alias), always wired to the signal; constants are skipped only when they carry the name themselves
R3 label flow: debug_info keys written by the placers are read by the description formatter, declared names override node ids, inputs are marked, anchors say 'output'
R4 output detection uses a complete consumer ladder (every reference slot of the IR schema is recorded as a consumer)
R5 materialisation: a constant that is exported to an entity property, unconsumed, typed or named is materialised
"""

from __future__ import annotations

import ast

from ..bags import readers_in
from ..cfg import CFG, EXIT
from ..core import AnalysisError, Repo, Report, call_name, calls_in, kwarg, norm, parents_map, walk_local
from ..dataflow import DefUse
from ..irschema import ir_classes, ir_schema
from ..sites import guard_chain
from .c10 import slot_access


def run(repo: Repo, rep: Report, tier: str) -> None:
    # ---------------- R1 ---------------------------------------------------------------
    rep.rule("C20-R1", "referenced_signal_names.add happens only on the read path of an identifier (never in declaration/assignment lowering)")
    adders = []
    for f in repo.all_funcs():
        for c in calls_in(f.node, "add"):
            if norm(c.func.value if isinstance(c.func, ast.Attribute) else c.func).endswith("referenced_signal_names"):
                adders.append((f, c))
    rep.floor("C20-R1", "sites that mark a name as referenced", len(adders), 1)
    for f, c in adders:
        rep.check(f.short == "ExpressionLowerer.lower_identifier", "C20-R1", f"{f.short} marks a name as referenced", "read path" if f.short == "ExpressionLowerer.lower_identifier" else
                  "a declaration/assignment path marks its own name as read: the name stops being an output", f.loc(c))
    li = repo.func("ExpressionLowerer.lower_identifier")
    pm = parents_map(li.node)
    for f, c in adders:
        if f is li or f.short == li.short:
            st = c
            while not isinstance(st, ast.stmt):
                st = pm[st]
            gs = [norm(t) for t, pol in guard_chain(li, st, pm) if pol]
            rep.check(any("in self.parent.signal_refs" in g for g in gs) and norm(c.args[0]) == "name", "C20-R1", "the referenced name is the identifier being read from signal_refs", "; ".join(gs), li.loc(c))

    # ---------------- R2 ---------------------------------------------------------------
    rep.rule("C20-R2", "create_output_anchors: for every alias of every is_output entry with a producer, an anchor placement keyed by (signal id, alias) is created and on every path "
             "followed by signal_graph.add_sink(signal id, anchor id); a constant producer is skipped only for its own declared name")
    coa = repo.func("EntityPlacer.create_output_anchors")
    cfg = CFG(coa.node)
    creates = [s for s in cfg.stmts() if isinstance(s, ast.Expr) and isinstance(s.value, ast.Call) and call_name(s.value) == "create_and_add_placement"]
    sinks = [s for s in cfg.stmts() if isinstance(s, ast.Expr) and norm(s.value) == "self.signal_graph.add_sink(signal_id, anchor_id)"]
    ok = bool(creates) and bool(sinks)
    if ok:
        loop = [s for s in cfg.stmts() if isinstance(s, ast.For) and "output_aliases" in norm(s.iter)][0]
        leak = cfg.reaches_avoiding(creates[0], {id(loop), id(EXIT)}, lambda n: n is sinks[0], start_inclusive=False)
        ok = not leak
    rep.check(ok, "C20-R2", "every anchor is wired to the result it exposes", "add_sink(signal_id, anchor_id) on every path after the placement" if ok else "an anchor can be created without being wired", coa.loc(creates[0]) if creates else coa.loc())
    du = DefUse(coa)
    aid = [norm(v) for v in du.value_exprs("anchor_id")]
    rep.check(aid == ["f'{signal_id}_{alias_name}_output_anchor'"], "C20-R2", "anchor id is a function of (signal id, alias): one per name", str(aid), coa.loc())
    c = creates[0].value if creates else None
    ok = c is not None and norm(kwarg(c, "entity_type")) == "'constant-combinator'" and norm(kwarg(c, "signals")) == "[]" and norm(kwarg(c, "role")) == "'output_anchor'"
    rep.check(ok, "C20-R2", "the anchor is an empty constant combinator with role output_anchor", norm(c)[:120] if c is not None else "", coa.loc())
    gate = [n for n in walk_local(coa.node) if isinstance(n, ast.If) and norm(n.test) == "not entry.debug_metadata.get('is_output')" and isinstance(n.body[-1], ast.Continue)]
    rep.check(bool(gate), "C20-R2", "anchors are created for exactly the entries marked is_output", "skip unless is_output" if gate else "gate missing", coa.loc())
    cb = [n for n in walk_local(coa.node) if isinstance(n, ast.If) and norm(n.test) == "isinstance(entry.producer, IRConst)"]
    ok = bool(cb) and any(isinstance(x, ast.Assign) and norm(x) == "output_aliases = output_aliases - {original_name}" for s in cb[0].body for x in ast.walk(s)) \
        and any("declared_name" in norm(v) for v in du.value_exprs("original_name"))
    rep.check(ok, "C20-R2", "a constant is skipped only under its own declared name; other aliases still get anchors", "aliases minus {declared_name}" if ok else "constant aliases are dropped", coa.loc(cb[0]) if cb else coa.loc())

    # ---------------- R3 ---------------------------------------------------------------
    rep.rule("C20-R3", "variable/line/source_file/operation/details written by the placers are read by format_entity_description and end in player_description; "
             "the declared name overrides the node id; user-declared constants carry `value=... (input)`; anchors are labelled `(output anchor)`")
    fed = repo.func("format_entity_description")
    rkeys = {r.key for r in readers_in(fed, {"debug_info"})}
    for k in ("variable", "line", "source_file", "operation", "details"):
        rep.check(k in rkeys, "C20-R3", f"description reads debug_info['{k}']", "read" if k in rkeys else "key ignored by the formatter", fed.loc())
    bdi = repo.func("EntityPlacer._build_debug_info")
    wkeys = {n.slice.value for n in walk_local(bdi.node) if isinstance(n, ast.Subscript) and isinstance(n.ctx, ast.Store) and norm(n.value) == "debug_info" and isinstance(n.slice, ast.Constant)}
    rep.check({"variable", "line", "source_file", "operation", "details"} <= wkeys, "C20-R3", "the placer writes the keys the formatter reads", str(sorted(wkeys)), bdi.loc())
    pmb = parents_map(bdi.node)
    ov = [n for n in walk_local(bdi.node) if isinstance(n, ast.Assign) and norm(n.targets[0]) == "debug_info['variable']" and norm(n.value) == "declared_name"]
    ok = bool(ov) and any("user_declared" in norm(t) and pol for t, pol in guard_chain(bdi, ov[0], pmb))
    rep.check(ok, "C20-R3", "a declared name overrides the node id in the label", norm(ov[0]) if ov else "override missing", bdi.loc(ov[0]) if ov else bdi.loc())
    inp = [n for n in walk_local(bdi.node) if isinstance(n, ast.AugAssign) and norm(n.target) == "details" and "(input)" in norm(n.value)]
    dub = DefUse(bdi)
    ok = bool(inp) and any("value={op.value}" in norm(v) for v in dub.value_exprs("details"))
    rep.check(ok, "C20-R3", "named inputs are labelled with their value and `(input)`", "details = value=<v> (input)" if ok else "input label missing", bdi.loc())
    ce = repo.func("PlanEntityEmitter.create_entity")
    duc = DefUse(ce)
    ok = any(isinstance(n, ast.Assign) and norm(n.targets[0]) == "entity.player_description" and norm(n.value) == "description" for n in walk_local(ce.node)) \
        and any("format_entity_description(debug_info)" in norm(v) for v in duc.value_exprs("description")) and any("placement.properties.get('debug_info'" in norm(v) for v in duc.value_exprs("debug_info"))
    rep.check(ok, "C20-R3", "the description of every entity is format_entity_description(placement debug_info)", "", ce.loc())
    anchor_info = [n for n in walk_local(coa.node) if isinstance(n, ast.Dict) and any(isinstance(k, ast.Constant) and k.value == "operation" for k in n.keys)]
    d = {k.value: norm(v) for k, v in zip(anchor_info[0].keys, anchor_info[0].values)} if anchor_info else {}
    out_branch = any(isinstance(n, ast.If) and "operation == 'output'" in norm(n.test) for n in ast.walk(fed.node))
    rep.check(d.get("variable") == "alias_name" and d.get("operation") == "'output'" and out_branch, "C20-R3", "anchors are labelled with the alias and `(output anchor)`", str(d), coa.loc())

    # ---------------- R4 ---------------------------------------------------------------
    rep.rule("C20-R4", "is_output = (labelled and no consumers) or (has aliases whose names were never read); consumers are recorded only for operand slots of the node being visited")
    an = repo.func("SignalAnalyzer.analyze")
    # NOTE: completeness of the consumer ladder is *not* required here: a consumer that analyze fails to record (IRLatchWrite today)
    # only produces an extra anchor for a consumed name, which the property does not forbid.  The unsafe direction is a spurious
    # consumer; record_consumer is only ever called with operand slots of the node being visited, checked next.
    rc_calls = [c for c in calls_in(an.node, "record_consumer")]
    spurious = [c for c in rc_calls if not (norm(c.args[0]).startswith(("op.", "cond.", "prop_value", "input_source", "item")))]
    rep.check(not spurious, "C20-R4", "consumers are recorded only for operand slots of the visited node", f"{len(rc_calls)} record_consumer calls" + (f"; suspicious: {[norm(c) for c in spurious]}" if spurious else ""), an.loc())
    flags = [n for n in walk_local(an.node) if isinstance(n, ast.Assign) and norm(n.targets[0]) == "entry.debug_metadata['is_output']"]
    pma = parents_map(an.node)
    conds = sorted({norm(t) for n in flags for t, pol in guard_chain(an, n, pma) if pol and "entry." in norm(t)})
    ok = "entry.debug_label and entry.debug_label != signal_id and (not entry.consumers)" in conds and "entry.output_aliases" in conds
    rep.check(ok, "C20-R4", "is_output <=> (labelled and unconsumed) or (has unreferenced aliases)", "; ".join(conds), an.loc())
    oa = [n for n in walk_local(an.node) if isinstance(n, ast.If) and norm(n.test) == "alias_name not in self.referenced_signal_names"]
    rep.check(bool(oa), "C20-R4", "an alias is output-only iff its name was never read", "alias_name not in referenced_signal_names" if oa else "", an.loc())

    # ---------------- R5 ---------------------------------------------------------------
    rep.rule("C20-R5", "_decide_materialization keeps a constant that is typed, exported to an entity property, unconsumed, named or labelled (each disjunct is one way a user can find it)")
    dm = repo.func("SignalAnalyzer._decide_materialization")
    fin = [n for n in walk_local(dm.node) if isinstance(n, ast.Assign) and norm(n.targets[0]) == "entry.should_materialize" and isinstance(n.value, ast.Call) and call_name(n.value) == "bool"]
    terms = set()
    if fin and isinstance(fin[0].value.args[0], ast.BoolOp):
        terms = {norm(v) for v in fin[0].value.args[0].values}
    want = {"entry.is_typed_literal", "entry.export_targets", "not entry.consumers", "named_metadata", "has_user_label"}
    rep.check(want <= terms, "C20-R5", "every reason to materialise a constant is still honoured",
              f"disjuncts {sorted(terms)}" + ("" if want <= terms else f"; missing {sorted(want - terms)}: such constants silently disappear from the blueprint"), dm.loc(fin[0]) if fin else dm.loc())
    ud = [n for n in walk_local(dm.node) if isinstance(n, ast.If) and "user_declared" in norm(n.test)]
    rep.check(len(ud) >= 2, "C20-R5", "user-declared constants always materialise", f"{len(ud)} user_declared guards", dm.loc())
