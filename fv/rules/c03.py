"""C03 A gated memory cell latches and holds — structural clauses.

R1 gate complementarity (write gate / hold gate test the same signal against the same constant with complementary comparators; both copy the cell signal)
R2 enable typestate in the lowerer and agreement of the two 'constant one' recognisers; the enable reaches both gates; the enable signal can never be allocated
R3 the two explicit wires of the cell and the colour locks agree (data/feedback on one colour, enable on the other)
R4 reads are served by the hold gate
R5 the gate configuration keys are read by the decider configurator
"""

from __future__ import annotations

import ast
import re

from ..bags import property_readers
from ..cfg import CFG
from ..core import AnalysisError, NotConstant, Repo, Report, call_name, calls_in, kwarg, module_const, norm, walk_local
from ..dataflow import DefUse
from .util import canon, cguards, cguards_any

CMP = {">": lambda a, b: a > b, ">=": lambda a, b: a >= b, "<": lambda a, b: a < b, "<=": lambda a, b: a <= b,
       "=": lambda a, b: a == b, "==": lambda a, b: a == b, "!=": lambda a, b: a != b, "≠": lambda a, b: a != b}


def _gate_calls(repo: Repo):
    mb = repo.cls("MemoryBuilder")
    out = {}
    for m in mb.methods.values():
        for c in calls_in(m.node, "create_and_add_placement"):
            r = kwarg(c, "role")
            if isinstance(r, ast.Constant) and r.value in ("memory_write_gate", "memory_hold_gate"):
                out[r.value] = (m, c)
    return out


def run(repo: Repo, rep: Report, tier: str) -> None:
    gates = _gate_calls(repo)
    if set(gates) != {"memory_write_gate", "memory_hold_gate"}:
        raise AnalysisError(f"C03: memory gate placements not found ({sorted(gates)})")
    (wf, wc), (hf, hc) = gates["memory_write_gate"], gates["memory_hold_gate"]

    # ---------------- R1 ---------------------------------------------------------------
    rep.rule("C03-R1", "write gate and hold gate compare the same signal literal with the same constant k using comparators c_w, c_h such that c_w and c_h are never both true, "
             "c_w holds for every W > k and c_h holds at W = k (decided over the integers around k, exact for comparator-vs-constant); both copy the cell's signal from their input")
    wl, hl = kwarg(wc, "left_operand"), kwarg(hc, "left_operand")
    wr, hr = kwarg(wc, "right_operand"), kwarg(hc, "right_operand")
    wo, ho = kwarg(wc, "operation"), kwarg(hc, "operation")
    same = all(isinstance(x, ast.Constant) for x in (wl, hl, wr, hr, wo, ho)) and wl.value == hl.value and wr.value == hr.value
    rep.check(same, "C03-R1", "both gates test the same signal against the same constant", f"write: {norm(wl)} {norm(wo)} {norm(wr)}; hold: {norm(hl)} {norm(ho)} {norm(hr)}", wf.loc(wc))
    if same and wo.value in CMP and ho.value in CMP:
        k = wr.value
        cw, ch = CMP[wo.value], CMP[ho.value]
        dom = range(k - 4, k + 5)
        exclusive = all(not (cw(w, k) and ch(w, k)) for w in dom)
        writes_on_positive = all(cw(w, k) for w in dom if w > k)
        holds_at_zero = ch(k, k) and not cw(k, k)
        rep.check(exclusive and writes_on_positive and holds_at_zero and k == 0, "C03-R1", "the gate comparators are complementary (write on W > 0, hold on W = 0, never both)",
                  f"c_w = W {wo.value} {k}, c_h = W {ho.value} {k}: exclusive={exclusive}, writes for all W>{k}={writes_on_positive}, holds at W={k}={holds_at_zero}", wf.loc(wc))
    else:
        rep.unknown("C03-R1", "the gate comparators are complementary (write on W > 0, hold on W = 0, never both)", "comparator literals not recognised", wf.loc(wc))
    for role, (f, c) in gates.items():
        cc = kwarg(c, "copy_count_from_input")
        rep.check(isinstance(cc, ast.Constant) and cc.value is True, "C03-R1", f"{role} copies the count from its input", f"copy_count_from_input={norm(cc)}", f.loc(c))
    ow, oh = canon(wf).text(kwarg(wc, "output_signal")), canon(hf).text(kwarg(hc, "output_signal"))
    rep.check(ow == oh and "op.signal_type" in ow, "C03-R1", "both gates output the cell's signal", f"{ow} / {oh}", wf.loc(wc))
    enable_sig = wl.value if isinstance(wl, ast.Constant) else None

    # ---------------- R2 ---------------------------------------------------------------
    rep.rule("C03-R2", "in _lower_standard_write every enable that reaches memory_write is retyped to the gates' enable signal (decider retype, `+ 0` projection or the constant 1 on that signal) "
             "or is the constant-one form; the lowerer's and the builder's 'is constant one' tests agree; the enable is a sink of both gates; that signal is reserved and never allocated")
    lsw = repo.func("MemoryLowerer._lower_standard_write")
    lits = {n.value for n in walk_local(lsw.node) if isinstance(n, ast.Constant) and isinstance(n.value, str) and n.value.startswith("signal-")}
    rep.check(lits == {enable_sig}, "C03-R2", "the lowerer retypes the enable to the signal the gates test", f"lowerer literals {sorted(lits)}, gates test {enable_sig}", lsw.loc())
    try:
        reserved = set(module_const(repo, repo.module("common.signals"), "RESERVED_SIGNALS"))
        avail = list(module_const(repo, repo.module("common.signals"), "AVAILABLE_VIRTUAL_SIGNALS"))
    except NotConstant as e:
        raise AnalysisError(str(e)) from e
    rep.check(enable_sig in reserved, "C03-R2", "the enable signal is reserved", f"RESERVED_SIGNALS = {sorted(reserved)}", "dsl_compiler/src/common/signals.py:1")
    pool = repo.func("SignalAnalyzer._build_available_signal_pool")
    du = DefUse(pool)
    rets = [n for n in walk_local(pool.node) if isinstance(n, ast.Return) and n.value is not None]
    excl = set()
    for n in ast.walk(rets[-1].value):
        if isinstance(n, ast.Compare) and isinstance(n.ops[0], ast.NotIn):
            excl |= {l.text for l in du.leaves(n.comparators[0])}
    excl_vals: set[str] = set()
    for en in sorted(excl):
        if en.isidentifier():
            for modx in (pool.module, repo.module("common.signals")):
                try:
                    val = module_const(repo, modx, en)
                except Exception:
                    continue
                if isinstance(val, (set, frozenset, list, tuple)):
                    excl_vals |= {x for x in val if isinstance(x, str)}
                break
    ok = enable_sig not in avail or "RESERVED_SIGNALS" in excl or enable_sig in excl_vals
    rep.check(ok, "C03-R2", "no untyped value can be allocated the enable signal", "RESERVED_SIGNALS is excluded from the allocation pool" if ok else
              f"{enable_sig} is in AVAILABLE_VIRTUAL_SIGNALS and the pool's exclusion set {sorted(excl)} omits RESERVED_SIGNALS: an unrelated value on {enable_sig} holds the write gate open", pool.loc())
    # typestate of the enable argument of memory_write: every alternative it can stand for is the lowered `when` expression (retyped in place
    # when it is a decider), a `+ 0` projection onto the enable signal, or the constant 1 on the enable signal
    clw = canon(lsw)
    mwc = [c for c in calls_in(lsw.node, "memory_write")]
    if not mwc:
        raise AnalysisError("C03-R2: memory_write call not found in the lowerer")
    en_arg = mwc[0].args[2] if len(mwc[0].args) > 2 else kwarg(mwc[0], "write_enable")
    alts = clw.alts(en_arg)
    q = repr(enable_sig)
    def alt_ok(a: str) -> bool:
        return a == "self.parent.expr_lowerer.lower_expr(expr.when)" or (a.startswith("self.ir_builder.arithmetic('+', ") and a.endswith(f", 0, {q}, expr)")) or a == f"self.ir_builder.const({q}, 1, expr)" \
            or a == f"self.ir_builder.const({q}, self.parent.expr_lowerer.lower_expr(expr.when), expr)"
    rep.check(all(alt_ok(a) for a in alts) and len(alts) >= 3, "C03-R2", "the enable handed to memory_write is the lowered condition, its projection onto the enable signal, or the constant 1 on it",
              "; ".join(a[:70] for a in alts), lsw.loc(mwc[0]))
    inplace = [n for n in walk_local(lsw.node) if isinstance(n, ast.Assign) and isinstance(n.targets[0], ast.Attribute) and n.targets[0].attr in ("signal_type", "output_type") and norm(n.value) == q]
    # exactly the decider class: a decider made for the condition is unnamed; an arithmetic node can be a named value that is read again under its own type
    from ..core import parents_map as _pm2f
    pm2 = _pm2f(lsw.node)
    def _conj2(n):
        cur = n
        while cur in pm2 and not isinstance(pm2[cur], ast.If):
            cur = pm2[cur]
        iff = pm2.get(cur)
        if not isinstance(iff, ast.If):
            return []
        return list(iff.test.values) if isinstance(iff.test, ast.BoolOp) and isinstance(iff.test.op, ast.And) else [iff.test]
    def _is_decider_test(c):
        return isinstance(c, ast.Call) and call_name(c) == "isinstance" and len(c.args) == 2 and norm(c.args[1]) == "IRDecider"
    okp = len(inplace) >= 2 and all(any(_is_decider_test(c) for c in _conj2(n)) for n in inplace)
    # ... and only a decider that outputs a constant: one that passes a value through copies the input count of its *output* signal, so renamed to the enable signal it
    # copies an enable-signal input that does not exist and the cell is never written
    okc = bool(inplace) and all(any(isinstance(c, ast.UnaryOp) and isinstance(c.op, ast.Not) and norm(c.operand).endswith(".copy_count_from_input") for c in _conj2(n)) for n in inplace)
    rep.check(okc, "C03-R2", "a pass-through gate used as the enable is projected, not renamed", "in-place retyping excludes copy-count deciders" if okc else
              "`when=(c > 0) : x` renames the gate's output to the enable signal while the gate still copies the input count of that signal: the enable never arrives", lsw.loc(inplace[0]) if inplace else lsw.loc())
    rep.check(okp, "C03-R2", "a decider-valued enable is retyped in place (node output type and reference type) to the enable signal", "; ".join(clw.text(n.targets[0])[:60] for n in inplace), lsw.loc(inplace[0]) if inplace else lsw.loc())
    proj = [n for n in walk_local(lsw.node) if isinstance(n, ast.Assign) and isinstance(n.value, ast.Call) and call_name(n.value) == "arithmetic" and q in norm(n.value)]
    okj = bool(proj) and any(t.endswith(f".signal_type != {q}") and pol for t, pol in cguards_any(lsw, proj[0]))
    rep.check(okj, "C03-R2", "any other signal-valued enable not already on the enable signal is projected onto it", "; ".join(t for t, p in cguards(lsw, proj[0]) if p)[:160] if proj else "projection missing", lsw.loc(proj[0]) if proj else lsw.loc())
    # the exemption from retyping: a *reference* counts as "constant one" only when it is on the enable signal already (a named `Signal one = 1;`, or a Signal
    # parameter bound to the literal 1, is a constant 1 on some other signal: the gates never see it and the cell adds its input to itself every tick)
    exempt = [n for n in walk_local(lsw.node) if isinstance(n, ast.Assign) and isinstance(n.targets[0], ast.Name) and isinstance(n.value, ast.Constant) and n.value.value is True
              and any("IRConst" in t and pol for t, pol in cguards(lsw, n))]
    for n in exempt:
        gtxt = [t for t, pol in cguards_any(lsw, n) if pol]
        oke = any(re.search(rf"\.(signal_type|output_type) == {re.escape(q)}", t) for t in gtxt)
        rep.check(oke, "C03-R2", "a constant-one reference is exempt from retyping only when it is on the enable signal", "guarded by the reference's type" if oke else
                  f"`{norm(n)}` under {[t[:60] for t in gtxt][-2:]}: a constant 1 on any signal is passed to the gates unprojected", lsw.loc(n))
    rep.floor("C03-R2", "constant-one exemptions for references", len(exempt), 1)
    # sibling agreement of the constant-one recognisers
    iaw = repo.func("MemoryBuilder._is_always_write")
    def shape(f):
        out = set()
        for n in walk_local(f.node):
            if isinstance(n, ast.Compare) and norm(n.comparators[0]) == "1" and isinstance(n.ops[0], ast.Eq):
                out.add("IRConst.value==1" if canon(f).text(n.left).endswith(".value") else "int==1")
        return out
    a, b = shape(lsw), shape(iaw)
    rep.check(a == b == {"int==1", "IRConst.value==1"}, "C03-R2", "lowerer and builder recognise the same constant-one enables", f"lowerer {sorted(a)}, builder {sorted(b)}", iaw.loc())
    ssw = repo.func("MemoryBuilder._setup_standard_write")
    sinks = [c for c in calls_in(ssw.node, "add_sink") if "write_enable" in norm(c.args[0])]
    tg = {norm(c.args[1]) for c in sinks}
    rep.check(tg == {"module.write_gate.ir_node_id", "module.hold_gate.ir_node_id"}, "C03-R2", "the enable is wired to both gates", str(sorted(tg)), ssw.loc())
    # constant-one enable that is not folded into arithmetic feedback must still open the write gate
    hw = repo.func("MemoryBuilder.handle_write")
    guarded = [n for n in walk_local(ssw.node) if isinstance(n, ast.If) and norm(n.test) == "isinstance(op.write_enable, SignalRef)"]
    # ... either the builder handles an int enable itself, or the lowerer never hands one over (a literal enable becomes a constant on the enable signal)
    converts = any(isinstance(n, ast.If) and clw.text(n.test) == "isinstance(self.parent.expr_lowerer.lower_expr(expr.when), int)"
                   and any(isinstance(x, ast.Call) and call_name(x) == "const" and x.args and norm(x.args[0]) == q for b_ in n.body for x in ast.walk(b_)) for n in walk_local(lsw.node))
    handles_const = (bool(guarded) and bool(guarded[0].orelse)) or converts
    rep.check(handles_const, "C03-R2", "a constant enable (when=1) that is not turned into arithmetic feedback still reaches the gates",
              ("the lowerer turns a literal enable into a constant on the enable signal" if converts else "else-branch handles the constant") if handles_const else
              "_setup_standard_write wires the enable only `if isinstance(op.write_enable, SignalRef)`; for the int 1 nothing carries signal-W to the gates, so `W > 0` is never true and the cell is never written", ssw.loc(guarded[0]) if guarded else ssw.loc())

    # ---------------- R3 ---------------------------------------------------------------
    rep.rule("C03-R3", "the cell's two explicit wires go write-gate output -> hold-gate input and hold-gate output -> hold-gate input on one colour K; the planner locks the cell signal "
             "of both gates to K and every source of the enable signal to the other colour")
    wcs = calls_in(ssw.node, "WireConnection")
    rep.floor("C03-R3", "explicit memory wires", len(wcs), 2)
    pairs = {(norm(kwarg(c, "source_entity_id")), norm(kwarg(c, "sink_entity_id"))) for c in wcs}
    want = {("module.write_gate.ir_node_id", "module.hold_gate.ir_node_id"), ("module.hold_gate.ir_node_id", "module.hold_gate.ir_node_id")}
    rep.check(pairs == want, "C03-R3", "forward feedback write->hold and hold self-loop exist (and nothing feeds the write gate back)", str(sorted(pairs)), ssw.loc())
    cols = {kwarg(c, "wire_color").value for c in wcs if isinstance(kwarg(c, "wire_color"), ast.Constant)}
    sides = {(norm(kwarg(c, "source_side")), norm(kwarg(c, "sink_side"))) for c in wcs}
    sigs = {norm(kwarg(c, "signal_name")) for c in wcs}
    rep.check(len(cols) == 1 and sides == {("'output'", "'input'")} and sigs == {"module.signal_type"}, "C03-R3", "both wires run output->input on one colour and carry the cell signal", f"colours {sorted(cols)}, sides {sorted(sides)}, signal {sorted(sigs)}", ssw.loc())
    K = next(iter(cols)) if len(cols) == 1 else None
    dl = repo.func("LayoutPlanner._determine_locked_wire_colors")
    cdl = canon(dl)
    locks = [n for n in walk_local(dl.node) if isinstance(n, ast.Assign) and isinstance(n.targets[0], ast.Subscript) and isinstance(n.targets[0].value, ast.Name) and isinstance(n.value, ast.Constant) and n.value.value in ("red", "green")]
    keyed = [(cdl.text(n.targets[0].slice), n.value.value, n) for n in locks]
    gate_locks = {k: v for k, v, _ in keyed if ("write_gate.ir_node_id" in k or "hold_gate.ir_node_id" in k) and ".signal_type" in k}
    rep.check(len(gate_locks) == 2 and set(gate_locks.values()) == {K}, "C03-R3", "the cell signal of both gates is locked to the feedback colour", str({k[:70]: v for k, v in gate_locks.items()}), dl.loc())
    w_locks = [(k, v) for k, v, _ in keyed if repr(enable_sig) in k]
    other = ({"red", "green"} - {K}).pop() if K else None
    rep.check(bool(w_locks) and all(v == other for _, v in w_locks), "C03-R3", "enable sources are locked to the other colour", "; ".join(f"{k[:50]}={v}" for k, v in w_locks), dl.loc())
    data_locks = [(k, v) for k, v, n in keyed if k not in gate_locks and repr(enable_sig) not in k and ".signal_type" in k and any("write_gate" in t for t, pol in cguards(dl, n))]
    rep.check(bool(data_locks) and all(v == K for _, v in data_locks), "C03-R3", "data sources feeding the write gate are locked to the feedback colour", "; ".join(f"{k[:60]}={v}" for k, v in data_locks), dl.loc())

    # ---------------- R4 ---------------------------------------------------------------
    rep.rule("C03-R4", "handle_read makes the hold gate the source of every read of a standard cell")
    hr_ = repo.func("MemoryBuilder.handle_read")
    last = [c for c in calls_in(hr_.node, "set_source") if "hold_gate" in norm(c)]
    rep.check(bool(last) and norm(last[0].args[0]) == "op.node_id", "C03-R4", "reads of a standard cell come from the hold gate", norm(last[0]) if last else "missing", hr_.loc())
    csm = wf
    src = [c for c in calls_in(csm.node, "set_source") if norm(c.args[0]) == "op.memory_id"]
    rep.check(bool(src) and canon(csm).text(src[0].args[1]) == canon(hf).text(kwarg(hc, "ir_node_id")), "C03-R4", "the cell's own signal id is sourced by the hold gate", canon(csm).text(src[0].args[1]) if src else "", csm.loc())

    # ---------------- R5 ---------------------------------------------------------------
    rep.rule("C03-R5", "every configuration key the gates are created with is read by _configure_decider")
    rkeys = {r.key for r in property_readers(repo) if r.f.short == "PlanEntityEmitter._configure_decider"}
    for k in [kw.arg for kw in wc.keywords if kw.arg and kw.arg not in ("ir_node_id", "entity_type", "position", "footprint", "role", "debug_info")]:
        rep.check(k in rkeys, "C03-R5", f"gate key '{k}' is emitted", "read by _configure_decider" if k in rkeys else "no reader", wf.loc(wc))

    # ---------------- R6 ---------------------------------------------------------------
    rep.rule("C03-R6", "every optimizer pass that replaces nodes re-points both operands of a memory write (data and enable): a dangling enable leaves the cell without its write signal")
    from ..irschema import Slot, ir_classes
    from .c10 import _with_module_helpers, slot_access
    optmod = repo.module("ir.optimizer")
    ir_names = {c.name for c in ir_classes(repo)}
    for k in optmod.classes.values():
        if "optimize" not in k.methods or not any(isinstance(n, ast.Attribute) and n.attr == "replacements" and isinstance(n.ctx, ast.Store) for m in k.methods.values() for n in walk_local(m.node)):
            continue
        fs = _with_module_helpers(k.module, list(k.methods.values()), list(k.methods.values()))
        for fld in ("data_signal", "write_enable"):
            ok, where = slot_access(repo, fs, Slot("IRMemWrite", fld), ir_names, "store")
            rep.check(ok, "C03-R6", f"{k.name} re-points IRMemWrite.{fld}", "rewritten" if ok else f"{k.name} can eliminate the node that drives {fld} and leave the reference dangling", where or k.loc())

    # ---------------- R7 ---------------------------------------------------------------
    rep.rule("C03-R7", "what is written into a cell travels on the cell's signal: _coerce_to_signal_type returns its argument unchanged only under `its type == the cell's type`; "
             "every other path builds a node whose output type is the cell's (projection `+ 0`, or a constant)")
    cst = repo.func("MemoryLowerer._coerce_to_signal_type")
    ccst = canon(cst)
    rets7 = [n for n in walk_local(cst.node) if isinstance(n, ast.Return) and n.value is not None]
    rep.floor("C03-R7", "returns of the write-value coercion", len(rets7), 4)
    k7 = 0
    for r7 in rets7:
        k7 += 1
        t7 = ccst.text(r7.value)
        gs7 = cguards(cst, r7)
        if t7 == "value_ref":
            ok7 = any(pol and g in ("value_ref.signal_type == signal_type", "signal_type == value_ref.signal_type") or
                      (pol and g.endswith("== signal_type") and "signal_type" in g.split("==")[0]) for g, pol in gs7)
            rep.check(ok7, "C03-R7", f"coercion return #{k7}: the value is passed through only when it is already on the cell's signal",
                      "guarded by type equality" if ok7 else f"returned unchanged under {[('' if p_ else 'not ') + g[:60] for g, p_ in gs7]}: the producer emits another signal than the gates and readers listen for, the cell never stores", cst.loc(r7))
        else:
            ok7 = (t7.startswith("self.ir_builder.arithmetic('+', value_ref, 0, signal_type") or t7.startswith("self.ir_builder.const(signal_type, "))
            rep.check(ok7, "C03-R7", f"coercion return #{k7}: a new node on the cell's signal", t7[:80], cst.loc(r7))
    from .shared import borrow as _borrow3
    _borrow3(repo, rep, "C06", "C06-R9", "C03-R8", "a comparison that also drives a write enable (or data) is never inlined into an entity and removed: the usage index records the memory write's operands as consumers",
             select=lambda o: "IRMemWrite." in o.construct, floor=2)

    # ---------------- R9 ---------------------------------------------------------------
    rep.rule("C03-R9", "the gates read their data and their enable from wires only, so a constant that feeds a write must be placed: SignalAnalyzer.analyze exports (record_export) "
             "IRMemWrite.data_signal and IRMemWrite.write_enable, and exported constants always materialise (C06-R6)")
    an9 = repo.func("SignalAnalyzer.analyze")
    c9 = canon(an9)
    for slot9 in ("data_signal", "write_enable"):
        ex9 = [k for k in calls_in(an9.node, "record_export") if c9.text(k.args[0]) == f"ELEM(ir_operations).{slot9}"
               and any(pol and g == "isinstance(ELEM(ir_operations), IRMemWrite)" for g, pol in cguards(an9, k))]
        rep.check(bool(ex9), "C03-R9", f"a constant used as IRMemWrite.{slot9} is always placed",
                  "exported in the IRMemWrite branch" if ex9 else
                  f"IRMemWrite.{slot9} is only recorded as a consumer: an anonymous constant there is treated as inlinable and never placed, so nothing reaches the gate "
                  + ("(`m.write(5, when=c)` never stores)" if slot9 == "data_signal" else "(an unconditional `m.write(v)` with non-self-referential data never stores: the signal-W = 1 constant is missing)"), an9.loc())

    # ---------------- R10 --------------------------------------------------------------
    from .shared import borrow as _borrow3b
    _borrow3b(repo, rep, "C12", "C12-R4", "C03-R10", "a gated cell keeps its reads when another cell is rewritten into a feedback combinator: the rewrite touches the recorded reads "
              "of its own cell only", select=lambda o: "only for reads of the cell" in o.construct or "re-pointed, and only those" in o.construct, floor=1)

    # ---------------- R11 --------------------------------------------------------------
    rep.rule("C03-R11", "reading a cell delivers the cell's own signal: the only nodes whose output type the lowerer rewrites in place (`x | \"t\"` folded into the producer of x) are "
             "those that get a combinator of their own with `output_signal` taken from that type; a memory read has no combinator, its signal is the cell's")
    from ..irschema import ladder as _ladder11
    ep11 = repo.cls("EntityPlacer")
    own_out: set[str] = set()
    def _has_own_output(m, depth=0):
        if m is None or depth > 2:
            return False
        cm = canon(m)
        for c in calls_in(m.node, "create_and_add_placement"):
            ov = kwarg(c, "output_signal")
            if ov is not None and "op.output_type" in cm.text(ov):
                return True
        return any(_has_own_output(ep11.methods.get(call_name(c)), depth + 1) for c in calls_in(m.node)
                   if isinstance(c.func, ast.Attribute) and isinstance(c.func.value, ast.Name) and c.func.value.id == "self" and call_name(c) in ep11.methods)
    for br in _ladder11(ep11.methods["place_ir_operation"], "op"):
        handlers = [call_name(c) for st in br.node.body for c in calls_in(st) if isinstance(c.func, ast.Attribute) and isinstance(c.func.value, ast.Name) and c.func.value.id == "self"]
        if any(_has_own_output(ep11.methods.get(h)) for h in handlers):
            own_out |= set(br.classes)
    rep.floor("C03-R11", "IR classes placed as a combinator with their own output signal", len(own_out), 2)
    rep.analysed["C03-R11:classes with an own output signal"] = sorted(own_out)
    pf11 = repo.func("ExpressionLowerer._try_fold_projection_into_source")
    retype11 = [n for n in walk_local(pf11.node) if isinstance(n, ast.Assign) and isinstance(n.targets[0], ast.Attribute) and n.targets[0].attr == "output_type"]
    if not retype11:
        raise AnalysisError("C03-R11: the in-place retyping store was not found")
    recv = norm(retype11[0].targets[0].value)
    allowed11: set[str] = set()
    for g, pol in cguards(pf11, retype11[0]):
        m11 = re.fullmatch(rf"isinstance\({re.escape(canon(pf11).text(retype11[0].targets[0].value))}, \(?([\w, ]+)\)?\)", g)
        if m11 and pol:
            allowed11 |= {x.strip() for x in m11.group(1).split(",") if x.strip()}
    if not allowed11:
        rep.bad("C03-R11", "the retyping store is guarded by a class test", f"`{norm(retype11[0])}` is reached for any producer class", pf11.loc(retype11[0]))
    for cname in sorted(allowed11):
        rep.check(cname in own_out, "C03-R11", f"in-place retyping of {cname} nodes", "the class is placed with its own output signal" if cname in own_out else
                  f"{cname} has no combinator with an output signal of its own: `m.read() | \"signal-B\"` renames the read, nothing emits signal-B and every consumer reads 0", pf11.loc(retype11[0]))

    # ---------------- R12 --------------------------------------------------------------
    _borrow3b(repo, rep, "C15", "C15-R3", "C03-R12", "a cell declared in a function or loop body is one cell per expansion: a re-declaration gets a fresh id, which needs the builder's index "
              "to contain the earlier declaration", select=lambda o: "indexes every node" in o.construct or "memory id" in o.construct, floor=2)

    # ---------------- R13 --------------------------------------------------------------
    _borrow3b(repo, rep, "C15", "C15-R9", "C03-R13", "a write after a call goes to the caller's cell: the lowerer's memory maps are put back from a snapshot after a function body that "
              "declares a memory of the same name", select=lambda o: "memory_refs" in o.construct or "memory_types" in o.construct, floor=2)

    # ---------------- R14 --------------------------------------------------------------
    _borrow3b(repo, rep, "C10", "C10-R21", "C03-R14", "readers of two cells on one signal type stay two readers under optimisation: CSE tells reads apart by the cell they read", floor=1)

    # ---------------- R15 --------------------------------------------------------------
    rep.rule("C03-R15", "two gated cells on one signal that are read together stay two cells: the hold gate's output is wired back into its own input, so a reader that takes two "
             "hold-gate outputs on one colour joins the two hold loops and each cell adds the other's value every tick — the colour of a hold gate's output towards its readers "
             "is left to the conflict colouring (no lock keyed by the hold gate), as for folded cells (C04-R11)")
    dl15 = repo.func("LayoutPlanner._determine_locked_wire_colors")
    pins15 = [n for n in walk_local(dl15.node) if isinstance(n, ast.Assign) and isinstance(n.targets[0], ast.Subscript) and isinstance(n.value, ast.Constant) and n.value.value in ("red", "green")
              and "hold_gate" in norm(n.targets[0].slice)]
    rep.check(not pins15, "C03-R15", "_determine_locked_wire_colors does not pin a hold gate's output to one colour", "no lock keyed by a hold gate" if not pins15 else
              f"`{norm(pins15[0])[:80]}`: `Signal out = m1.read() - m2.read();` with both cells on one signal joins the two hold loops (the circuit never settles)", dl15.loc(pins15[0]) if pins15 else dl15.loc())
