"""Shared model of the two sibling compile pipelines and the two CLI mains."""

from __future__ import annotations

import ast
from dataclasses import dataclass

from .core import AnalysisError, Func, Repo, call_name, calls_in, kwarg, norm, walk_local

STAGE_CTORS = ["DSLParser", "SemanticAnalyzer", "ASTLowerer", "LayoutPlanner", "BlueprintEmitter"]
OPT_CTORS = ["ConstantPropagationOptimizer", "CSEOptimizer"]


def compile_funcs(repo: Repo) -> list[Func]:
    out = []
    for m in repo.modules.values():
        for f in m.funcs.values():
            names = {call_name(c) for c in calls_in(f.node)}
            if sum(1 for s in STAGE_CTORS if s in names) >= 4:
                out.append(f)
    if len(out) < 2:
        raise AnalysisError(f"compile pipelines: {len(out)} found, 2 expected (cli.compile_dsl_source, compile.compile_dsl_file)")
    return sorted(out, key=lambda f: f.qual)


def mains(repo: Repo) -> list[tuple[Func, Func]]:
    """(main, the compile function it calls)."""
    cfs = {f.name: f for f in compile_funcs(repo)}
    out = []
    for m in repo.modules.values():
        for f in m.funcs.values():
            for c in calls_in(f.node):
                if call_name(c) in cfs and f.name not in cfs:
                    out.append((f, cfs[call_name(c)]))
                    break
    if len(out) < 2:
        raise AnalysisError(f"CLI mains: {len(out)} found, 2 expected")
    return sorted(out, key=lambda p: p[0].qual)


def top_statements(f: Func) -> list[ast.stmt]:
    body = list(f.node.body)
    if body and isinstance(body[0], ast.Expr) and isinstance(body[0].value, ast.Constant) and isinstance(body[0].value.value, str):
        body = body[1:]
    return body


def param_with_default(f: Func, name: str) -> ast.expr | None:
    a = f.node.args
    pos = a.posonlyargs + a.args
    defaults = [None] * (len(pos) - len(a.defaults)) + list(a.defaults)
    for p, d in zip(pos, defaults):
        if p.arg == name:
            return d
    for p, d in zip(a.kwonlyargs, a.kw_defaults):
        if p.arg == name:
            return d
    return None
