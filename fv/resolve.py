"""M2: constructor-based resolver and whole-program call graph.

Receiver classes come from constructor assignments (`self.x = Class(...)`,
`self.x = param` + the argument bound at the constructor's call sites), from
`x = Class(...)` locals, from annotations that name a repository class, and from
`@property` bodies that return such an attribute.  A call whose receiver class is
unknown falls back to *every* repository method of that name (marked `by_name`), so
reachability is over-approximated; rules that need an exact edge ask `exact=True`.
"""

from __future__ import annotations

import ast
from collections import defaultdict
from dataclasses import dataclass

from .core import ClassInfo, Func, Repo, call_name, chain, walk_local


@dataclass(frozen=True)
class Edge:
    caller: Func
    callee: Func
    call: ast.AST  # ast.Call or the attribute that takes the bound method
    kind: str  # "exact" | "by_name" | "bound_ref" | "reflect"


class Resolver:
    def __init__(self, repo: Repo) -> None:
        self.repo = repo
        self.class_by_name: dict[str, list[ClassInfo]] = defaultdict(list)
        for c in repo.all_classes():
            self.class_by_name[c.name].append(c)
        self.methods_by_name: dict[str, list[Func]] = defaultdict(list)
        for c in repo.all_classes():
            for m in c.methods.values():
                self.methods_by_name[m.name].append(m)
        self.attr_types: dict[tuple[str, str], set[str]] = defaultdict(set)
        self._ctor_param_args: dict[tuple[str, str], set[str]] = defaultdict(set)
        self._infer_attr_types()
        self.edges: list[Edge] = []
        self.out: dict[Func, list[Edge]] = defaultdict(list)
        self.inn: dict[Func, list[Edge]] = defaultdict(list)
        self.unresolved: list[tuple[Func, ast.Call]] = []
        self._build()

    # ---- types -----------------------------------------------------------------------
    def _one_class(self, name: str) -> ClassInfo | None:
        hits = self.class_by_name.get(name, [])
        return hits[0] if len(hits) == 1 else None

    def _ann_classes(self, ann: ast.AST | None) -> set[str]:
        out: set[str] = set()
        if ann is None:
            return out
        if isinstance(ann, ast.Constant) and isinstance(ann.value, str):
            try:
                ann = ast.parse(ann.value, mode="eval").body
            except SyntaxError:
                return out
        for n in ast.walk(ann):
            if isinstance(n, ast.Name) and self._one_class(n.id):
                out.add(n.id)
            elif isinstance(n, ast.Attribute) and self._one_class(n.attr):
                out.add(n.attr)
        return out

    def _callee_class(self, f: Func, call: ast.Call) -> ClassInfo | None:
        fn = call.func
        name = None
        if isinstance(fn, ast.Name):
            name = fn.id
        elif isinstance(fn, ast.Attribute):
            name = fn.attr
        if name and name in self.class_by_name:
            # imported or defined in module
            c = self._one_class(name)
            return c
        return None

    def _infer_attr_types(self) -> None:
        # pass 1: direct constructor assignments and annotated params
        for c in self.repo.all_classes():
            for m in c.methods.values():
                param_ann = {}
                a = m.node.args
                for p in a.posonlyargs + a.args + a.kwonlyargs:
                    param_ann[p.arg] = self._ann_classes(p.annotation)
                for n in walk_local(m.node):
                    tgt_val: list[tuple[ast.AST, ast.AST | None, ast.AST | None]] = []
                    if isinstance(n, ast.Assign):
                        for t in n.targets:
                            tgt_val.append((t, n.value, None))
                    elif isinstance(n, ast.AnnAssign):
                        tgt_val.append((n.target, n.value, n.annotation))
                    for t, v, ann in tgt_val:
                        ch = chain(t) if isinstance(t, ast.Attribute) else None
                        if not ch or ch[0] != "self" or len(ch) != 2:
                            continue
                        key = (c.name, ch[1])
                        if ann is not None:
                            self.attr_types[key] |= self._ann_classes(ann)
                        if v is None:
                            continue
                        for sub in [v] + ([v.body, v.orelse] if isinstance(v, ast.IfExp) else []):
                            if isinstance(sub, ast.BoolOp):
                                subs = sub.values
                            else:
                                subs = [sub]
                            for s in subs:
                                if isinstance(s, ast.Call):
                                    k = self._callee_class(m, s)
                                    if k:
                                        self.attr_types[key].add(k.name)
                                elif isinstance(s, ast.Name) and s.id in param_ann:
                                    self.attr_types[key] |= param_ann[s.id]
                                    if m.name == "__init__":
                                        self._ctor_param_args[(c.name, s.id)].add(ch[1])
        # dataclass fields
        for c in self.repo.all_classes():
            for st in c.node.body:
                if isinstance(st, ast.AnnAssign) and isinstance(st.target, ast.Name):
                    self.attr_types[(c.name, st.target.id)] |= self._ann_classes(st.annotation)
        # pass 2: constructor call sites binding `self` / known attrs to ctor params
        for f in self.repo.all_funcs():
            for n in walk_local(f.node):
                if not isinstance(n, ast.Call):
                    continue
                k = self._callee_class(f, n)
                if not k or "__init__" not in k.methods:
                    continue
                init = k.methods["__init__"]
                params = [p for p in init.params if p != "self"]
                bound: dict[str, ast.AST] = {}
                for i, a in enumerate(n.args):
                    if i < len(params) and not isinstance(a, ast.Starred):
                        bound[params[i]] = a
                for kw in n.keywords:
                    if kw.arg:
                        bound[kw.arg] = kw.value
                for p, a in bound.items():
                    attrs = self._ctor_param_args.get((k.name, p), set())
                    if not attrs:
                        continue
                    tys = self._expr_classes(f, a, {})
                    for at in attrs:
                        self.attr_types[(k.name, at)] |= tys

    def _local_types(self, f: Func) -> dict[str, set[str]]:
        env: dict[str, set[str]] = defaultdict(set)
        a = f.node.args
        for p in a.posonlyargs + a.args + a.kwonlyargs:
            env[p.arg] |= self._ann_classes(p.annotation)
        for _ in range(2):
            for n in walk_local(f.node):
                if isinstance(n, ast.Assign) and len(n.targets) == 1 and isinstance(n.targets[0], ast.Name):
                    env[n.targets[0].id] |= self._expr_classes(f, n.value, env)
                elif isinstance(n, ast.AnnAssign) and isinstance(n.target, ast.Name):
                    env[n.target.id] |= self._ann_classes(n.annotation)
                    if n.value is not None:
                        env[n.target.id] |= self._expr_classes(f, n.value, env)
                elif isinstance(n, ast.If) or isinstance(n, ast.While):
                    # isinstance narrowing: `if isinstance(x, C)` adds C as a possible type of x
                    for sub in ast.walk(n.test):
                        if isinstance(sub, ast.Call) and call_name(sub) == "isinstance" and len(sub.args) == 2 and isinstance(sub.args[0], ast.Name):
                            env[sub.args[0].id] |= self._ann_classes(sub.args[1])
        return env

    def _expr_classes(self, f: Func, e: ast.AST, env: dict[str, set[str]]) -> set[str]:
        if isinstance(e, ast.Name):
            if e.id == "self" and f.cls:
                return {f.cls.name}
            if e.id == "cls" and f.cls:
                return {f.cls.name}
            return set(env.get(e.id, set()))
        if isinstance(e, ast.Attribute):
            out: set[str] = set()
            for base in self._expr_classes(f, e.value, env):
                bc = self._one_class(base)
                if not bc:
                    continue
                for k in self.repo.mro(bc):
                    out |= self.attr_types.get((k.name, e.attr), set())
                    if e.attr in k.methods and _is_property(k.methods[e.attr]):
                        out |= self._property_classes(k.methods[e.attr])
            return out
        if isinstance(e, ast.Call):
            k = self._callee_class(f, e)
            if k:
                return {k.name}
            # method with annotated return type
            out = set()
            for callee in self._resolve_call(f, e, env, record=False)[0]:
                out |= self._ann_classes(callee.node.returns)
            return out
        if isinstance(e, ast.IfExp):
            return self._expr_classes(f, e.body, env) | self._expr_classes(f, e.orelse, env)
        if isinstance(e, ast.BoolOp):
            out = set()
            for v in e.values:
                out |= self._expr_classes(f, v, env)
            return out
        return set()

    def _property_classes(self, m: Func) -> set[str]:
        out = self._ann_classes(m.node.returns)
        for n in walk_local(m.node):
            if isinstance(n, ast.Return) and n.value is not None:
                out |= self._expr_classes(m, n.value, {})
        return out

    # ---- calls -----------------------------------------------------------------------
    def _resolve_call(self, f: Func, call: ast.Call, env, record: bool = True) -> tuple[list[Func], str]:
        fn = call.func
        if isinstance(fn, ast.Name):
            name = fn.id
            if name in f.module.funcs:
                return [f.module.funcs[name]], "exact"
            if name in f.module.classes:
                k = f.module.classes[name]
                init = self.repo.method(k, "__init__")
                return ([init] if init else []), "exact"
            if name in f.module.imports:
                target = f.module.imports[name]
                modname, _, attr = target.rpartition(".")
                m = self.repo.modules.get(modname)
                if m:
                    if attr in m.funcs:
                        return [m.funcs[attr]], "exact"
                    if attr in m.classes:
                        init = self.repo.method(m.classes[attr], "__init__")
                        return ([init] if init else []), "exact"
                    # re-exported through package? follow one hop
                    if attr in m.imports:
                        t2 = m.imports[attr]
                        mn2, _, a2 = t2.rpartition(".")
                        m2 = self.repo.modules.get(mn2)
                        if m2 and a2 in m2.funcs:
                            return [m2.funcs[a2]], "exact"
                        if m2 and a2 in m2.classes:
                            init = self.repo.method(m2.classes[a2], "__init__")
                            return ([init] if init else []), "exact"
            return [], "external"
        if isinstance(fn, ast.Attribute):
            mname = fn.attr
            # super().m()
            if isinstance(fn.value, ast.Call) and call_name(fn.value) == "super" and f.cls:
                for k in self.repo.mro(f.cls)[1:]:
                    if mname in k.methods:
                        return [k.methods[mname]], "exact"
                return [], "external"
            # Class.m() static / classmethod / module.func()
            if isinstance(fn.value, ast.Name):
                nm = fn.value.id
                k = None
                if nm in f.module.classes:
                    k = f.module.classes[nm]
                elif nm in f.module.imports:
                    target = f.module.imports[nm]
                    modname, _, attr = target.rpartition(".")
                    m = self.repo.modules.get(modname)
                    if m and attr in m.classes:
                        k = m.classes[attr]
                    elif target in self.repo.modules:
                        m2 = self.repo.modules[target]
                        if mname in m2.funcs:
                            return [m2.funcs[mname]], "exact"
                        if mname in m2.classes:
                            init = self.repo.method(m2.classes[mname], "__init__")
                            return ([init] if init else []), "exact"
                    elif m is None and target.split(".")[0] not in ("dsl_compiler",):
                        if nm not in env or not env[nm]:
                            return [], "external"
                if k is not None:
                    mm = self.repo.method(k, mname)
                    return ([mm] if mm else []), "exact"
            recv = self._expr_classes(f, fn.value, env)
            if recv:
                out: list[Func] = []
                for r in sorted(recv):
                    rc = self._one_class(r)
                    if not rc:
                        continue
                    mm = self.repo.method(rc, mname)
                    if mm:
                        out.append(mm)
                    for sc in self.repo.subclasses(rc.name):
                        if mname in sc.methods:
                            out.append(sc.methods[mname])
                if out:
                    return _uniq(out), "exact"
                # attribute holding a callable? fall through to by-name
            cands = self.methods_by_name.get(mname, [])
            if cands:
                return list(cands), "by_name"
            return [], "external"
        return [], "external"

    def _build(self) -> None:
        for f in self.repo.all_funcs():
            env = self._local_types(f)
            callee_attrs = {id(n.func) for n in walk_local(f.node) if isinstance(n, ast.Call)}
            for n in walk_local(f.node):
                if isinstance(n, ast.Attribute) and id(n) in callee_attrs:
                    continue
                if isinstance(n, ast.Call):
                    callees, kind = self._resolve_call(f, n, env)
                    for c in callees:
                        self._add(Edge(f, c, n, kind))
                    if not callees and kind != "external":
                        self.unresolved.append((f, n))
                elif isinstance(n, ast.Attribute) and isinstance(n.ctx, ast.Load):
                    # bound method taken as a value: self.m / self.x.m (handler tables)
                    ch = chain(n)
                    if ch and ch[0] == "self" and f.cls:
                        recv = self._expr_classes(f, n.value, env)
                        for r in recv:
                            rc = self._one_class(r)
                            mm = self.repo.method(rc, n.attr) if rc else None
                            if mm and not _is_property(mm):
                                self._add(Edge(f, mm, n, "bound_ref"))
                            elif mm and _is_property(mm):
                                self._add(Edge(f, mm, n, "exact"))
            # reflection: getattr(self, "visit_" + ...)(node)
            for n in walk_local(f.node):
                if isinstance(n, ast.Call) and call_name(n) == "getattr" and f.cls and len(n.args) >= 2:
                    if isinstance(n.args[0], ast.Name) and n.args[0].id == "self":
                        prefix = _reflect_prefix(f, n.args[1])
                        if prefix:
                            for k in [f.cls] + self.repo.subclasses(f.cls.name):
                                for mm in k.methods.values():
                                    if mm.name.startswith(prefix):
                                        self._add(Edge(f, mm, n, "reflect"))

    def _add(self, e: Edge) -> None:
        self.edges.append(e)
        self.out[e.caller].append(e)
        self.inn[e.callee].append(e)

    # ---- queries ---------------------------------------------------------------------
    def callees(self, f: Func, exact: bool = False) -> list[Func]:
        return _uniq([e.callee for e in self.out.get(f, []) if not exact or e.kind != "by_name"])

    def callers(self, f: Func, exact: bool = False) -> list[Func]:
        return _uniq([e.caller for e in self.inn.get(f, []) if not exact or e.kind != "by_name"])

    def call_sites(self, callee: Func, exact: bool = False) -> list[Edge]:
        return [e for e in self.inn.get(callee, []) if isinstance(e.call, ast.Call) and (not exact or e.kind != "by_name")]

    def reachable(self, roots: list[Func], exact: bool = False, stop: set[Func] | None = None) -> set[Func]:
        seen: set[Func] = set()
        work = list(roots)
        while work:
            f = work.pop()
            if f in seen:
                continue
            seen.add(f)
            if stop and f in stop:
                continue
            work.extend(self.callees(f, exact))
        return seen

    def resolve(self, f: Func, call: ast.Call) -> tuple[list[Func], str]:
        return self._resolve_call(f, call, self._local_types(f))

    def stats(self) -> dict[str, int]:
        kinds: dict[str, int] = defaultdict(int)
        for e in self.edges:
            kinds[e.kind] += 1
        return {"edges": len(self.edges), **kinds, "unresolved_internal": len(self.unresolved)}


def _uniq(xs: list[Func]) -> list[Func]:
    seen: set[str] = set()
    out = []
    for x in xs:
        if x.qual not in seen:
            seen.add(x.qual)
            out.append(x)
    return out


def _is_property(m: Func) -> bool:
    for d in m.node.decorator_list:
        if isinstance(d, ast.Name) and d.id in ("property", "cached_property"):
            return True
        if isinstance(d, ast.Attribute) and d.attr in ("setter", "cached_property"):
            return True
    return False


def _reflect_prefix(f: Func, arg: ast.AST) -> str | None:
    """Literal prefix of the attribute name passed to getattr (e.g. 'visit_')."""
    if isinstance(arg, ast.Constant) and isinstance(arg.value, str):
        return None  # plain attribute read, not dispatch
    if isinstance(arg, ast.JoinedStr) and arg.values and isinstance(arg.values[0], ast.Constant):
        return str(arg.values[0].value)
    if isinstance(arg, ast.BinOp) and isinstance(arg.op, ast.Add) and isinstance(arg.left, ast.Constant):
        return str(arg.left.value)
    if isinstance(arg, ast.Name):
        for n in walk_local(f.node):
            if isinstance(n, ast.Assign) and any(isinstance(t, ast.Name) and t.id == arg.id for t in n.targets):
                return _reflect_prefix(f, n.value)
    return None
