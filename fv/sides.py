"""Operand-side agreement in the emitter's configurators: a value read from a `left_*` placement key may only feed
`first_*` slots of the draftsman entity, a value read from a `right_*` key only `second_*` slots (or `constant`)."""

from __future__ import annotations

import ast

from .core import Func, call_name, norm, walk_local
from .dataflow import DefUse


def side_flows(f: Func) -> list[tuple[str, str, str, ast.AST]]:
    """(key, side, slot, node) for every flow of a props['left_*'|'right_*'] read into a slot store."""
    out = []
    var_side: dict[str, tuple[str, str]] = {}
    for n in walk_local(f.node):
        if isinstance(n, ast.Assign) and isinstance(n.targets[0], ast.Name):
            for c in ast.walk(n.value):
                if isinstance(c, ast.Call) and call_name(c) == "get" and c.args and isinstance(c.args[0], ast.Constant):
                    key = c.args[0].value
                    if isinstance(key, str) and (key.startswith("left_") or key.startswith("right_")):
                        var_side[n.targets[0].id] = (key, "left" if key.startswith("left_") else "right")
    for n in walk_local(f.node):
        if not isinstance(n, ast.Assign):
            continue
        t = n.targets[0]
        slot = None
        if isinstance(t, ast.Subscript) and isinstance(t.slice, ast.Constant) and isinstance(t.slice.value, str):
            slot = t.slice.value
        elif isinstance(t, ast.Attribute) and isinstance(t.value, ast.Name) and t.value.id == "entity":
            slot = t.attr
        if slot is None:
            continue
        for x in ast.walk(n.value):
            if isinstance(x, ast.Name) and x.id in var_side:
                key, side = var_side[x.id]
                out.append((key, side, slot, n))
    return out


def slot_side(slot: str) -> str | None:
    if slot.startswith("first"):
        return "left"
    if slot.startswith("second"):
        return "right"
    if slot == "constant":
        return "either"
    return None


MIRROR_PAIRS = {"<": ">", ">": "<", "<=": ">=", ">=": "<=", "≤": "≥", "≥": "≤"}
SYMMETRIC = {"=", "==", "!=", "≠"}


def mirrored_stores(repo, f: Func) -> tuple[set[int], list[str]]:
    """Stores that sit in a *mirroring branch*: an `if` whose test says "left operand constant, right operand not" and whose body takes the comparator from a
    table lookup `T.get(op, op)` with T a module constant that maps every asymmetric comparator to its mirror image and nothing else to something different.
    In such a branch the right operand legitimately feeds the first slot and the left one the constant.  Returns (ids of the Assign nodes, problems found)."""
    from .core import NotConstant, module_const

    ids: set[int] = set()
    problems: list[str] = []
    for n in walk_local(f.node):
        if not isinstance(n, ast.If):
            continue
        t = norm(n.test)
        # canonical: isinstance(L, int) and not isinstance(R, int)   (L/R any names; checked by the callers' side tables)
        if not (isinstance(n.test, ast.BoolOp) and isinstance(n.test.op, ast.And) and "isinstance(" in t and "not isinstance(" in t) and "is not None" not in t:
            continue
        mirror_ok = False
        for st in n.body:
            for c in ast.walk(st):
                if isinstance(c, ast.Call) and call_name(c) == "get" and isinstance(c.func, ast.Attribute) and isinstance(c.func.value, ast.Name) and len(c.args) == 2:
                    tname = c.func.value.id
                    try:
                        table = module_const(repo, f.module, tname)
                    except (NotConstant, KeyError, Exception):
                        continue
                    if not isinstance(table, dict):
                        continue
                    wrong = {k: v for k, v in table.items() if (k in MIRROR_PAIRS and v != MIRROR_PAIRS[k]) or (k not in MIRROR_PAIRS and v != k)}
                    missing = [k for k in ("<", ">", "<=", ">=") if k not in table]
                    if wrong or missing:
                        problems.append(f"{tname}: wrong entries {wrong}, missing {missing}")
                    elif norm(c.args[0]) == norm(c.args[1]):
                        mirror_ok = True
        if mirror_ok:
            for st in n.body:
                for x in ast.walk(st):
                    if isinstance(x, ast.Assign):
                        ids.add(id(x))
    return ids, problems
