"""Operand-side agreement in the emitter's configurators: a value read from a `left_*` placement key may only feed
`first_*` slots of the draftsman entity, a value read from a `right_*` key only `second_*` slots (or `constant`)."""

from __future__ import annotations

import ast

from .core import Func, call_name, norm, walk_local
from .dataflow import DefUse


def side_flows(f: Func) -> list[tuple[str, str, str, ast.AST]]:
    """(key, side, slot, node) for every flow of a props['left_*'|'right_*'] read into a slot store."""
    out = []
    var_side: dict[str, tuple[str, str]] = {}
    for n in walk_local(f.node):
        if isinstance(n, ast.Assign) and isinstance(n.targets[0], ast.Name):
            for c in ast.walk(n.value):
                if isinstance(c, ast.Call) and call_name(c) == "get" and c.args and isinstance(c.args[0], ast.Constant):
                    key = c.args[0].value
                    if isinstance(key, str) and (key.startswith("left_") or key.startswith("right_")):
                        var_side[n.targets[0].id] = (key, "left" if key.startswith("left_") else "right")
    for n in walk_local(f.node):
        if not isinstance(n, ast.Assign):
            continue
        t = n.targets[0]
        slot = None
        if isinstance(t, ast.Subscript) and isinstance(t.slice, ast.Constant) and isinstance(t.slice.value, str):
            slot = t.slice.value
        elif isinstance(t, ast.Attribute) and isinstance(t.value, ast.Name) and t.value.id == "entity":
            slot = t.attr
        if slot is None:
            continue
        for x in ast.walk(n.value):
            if isinstance(x, ast.Name) and x.id in var_side:
                key, side = var_side[x.id]
                out.append((key, side, slot, n))
    return out


def slot_side(slot: str) -> str | None:
    if slot.startswith("first"):
        return "left"
    if slot.startswith("second"):
        return "right"
    if slot == "constant":
        return "either"
    return None
