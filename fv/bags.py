"""M5: stringly-typed bag agreement — writers and readers of placement properties, condition rows,
property-write records and comparison data, keyed by literal key."""

from __future__ import annotations

import ast
from dataclasses import dataclass

from .core import Func, Repo, call_name, calls_in, kwarg, norm, walk_local

FIXED_KW = {"ir_node_id", "entity_type", "position", "footprint", "role", "debug_info"}


@dataclass
class Site:
    f: Func
    key: str
    node: ast.AST
    kind: str | None = None  # entity type literal for placement writers

    @property
    def loc(self) -> str:
        return self.f.loc(self.node)


def placement_writers(repo: Repo) -> list[Site]:
    """Keys written into EntityPlacement.properties: keyword arguments of create_and_add_placement and
    `<x>.properties["k"] = ...` stores."""
    out: list[Site] = []
    for f in repo.all_funcs():
        if ".layout." not in f.module.name + ".":
            continue
        for c in calls_in(f.node, "create_and_add_placement"):
            et = kwarg(c, "entity_type")
            kind = et.value if isinstance(et, ast.Constant) else None
            for k in c.keywords:
                if k.arg and k.arg not in FIXED_KW:
                    out.append(Site(f, k.arg, c, kind))
        for n in walk_local(f.node):
            if isinstance(n, ast.Subscript) and isinstance(n.ctx, ast.Store) and norm(n.value).endswith(".properties"):
                if isinstance(n.slice, ast.Constant) and isinstance(n.slice.value, str):
                    out.append(Site(f, n.slice.value, n, None))
                elif isinstance(n.slice, ast.JoinedStr):
                    # f"{operand_key}_operand_wires" -> pattern *_operand_wires
                    tail = "".join(v.value for v in n.slice.values if isinstance(v, ast.Constant))
                    out.append(Site(f, "*" + tail, n, None))
    return out


def readers_in(f: Func, var_names: set[str]) -> list[Site]:
    """Keys read from a dict held in one of `var_names`: v.get("k"), v["k"], "k" in v (nested functions included)."""
    out = []
    for n in ast.walk(f.node):
        if isinstance(n, ast.Call) and call_name(n) == "get" and isinstance(n.func, ast.Attribute) and norm(n.func.value) in var_names and n.args and isinstance(n.args[0], ast.Constant):
            out.append(Site(f, n.args[0].value, n))
        elif isinstance(n, ast.Subscript) and isinstance(n.ctx, ast.Load) and norm(n.value) in var_names and isinstance(n.slice, ast.Constant) and isinstance(n.slice.value, str):
            out.append(Site(f, n.slice.value, n))
        elif isinstance(n, ast.Compare) and isinstance(n.ops[0], (ast.In, ast.NotIn)) and isinstance(n.left, ast.Constant) and norm(n.comparators[0]) in var_names:
            out.append(Site(f, n.left.value, n))
    return out


def property_readers(repo: Repo) -> list[Site]:
    """Every read of a literal key from some `<x>.properties` / `props` / `properties` dict anywhere."""
    out = []
    for f in repo.all_funcs():
        names = set()
        for n in ast.walk(f.node):
            if isinstance(n, ast.Attribute) and n.attr == "properties":
                names.add(norm(n))
        names |= {"props", "properties"}
        out += readers_in(f, names)
        # f-string keys: placement.properties.get(f"{operand_key}_operand")
        for n in walk_local(f.node):
            if isinstance(n, ast.Call) and call_name(n) == "get" and isinstance(n.func, ast.Attribute) and norm(n.func.value) in names and n.args and isinstance(n.args[0], ast.JoinedStr):
                tail = "".join(v.value for v in n.args[0].values if isinstance(v, ast.Constant))
                out.append(Site(f, "*" + tail, n))
    return out


def match(key: str, pattern: str) -> bool:
    if pattern.startswith("*"):
        return key.endswith(pattern[1:])
    if key.startswith("*"):
        return pattern.endswith(key[1:])
    return key == pattern


def row_writers(f: Func, list_name: str = "conditions") -> list[Site]:
    out = []
    for n in walk_local(f.node):
        if isinstance(n, ast.Assign) and norm(n.targets[0]) == list_name and isinstance(n.value, ast.List):
            for e in n.value.elts:
                if isinstance(e, ast.Dict):
                    for k in e.keys:
                        if isinstance(k, ast.Constant):
                            out.append(Site(f, k.value, e))
        if isinstance(n, ast.Assign) and isinstance(n.value, ast.Dict) and isinstance(n.targets[0], ast.Name) and n.targets[0].id in ("cond_dict", "row", "condition"):
            for k in n.value.keys:
                if isinstance(k, ast.Constant):
                    out.append(Site(f, k.value, n.value))
        if isinstance(n, ast.Subscript) and isinstance(n.ctx, ast.Store) and isinstance(n.value, ast.Name) and n.value.id in ("cond_dict", "row", "condition") and isinstance(n.slice, ast.Constant):
            out.append(Site(f, n.slice.value, n))
    return out
