"""M5: stringly-typed bag agreement — writers and readers of placement properties, condition rows,
property-write records and comparison data, keyed by literal key."""

from __future__ import annotations

import ast
from dataclasses import dataclass

from .core import Func, Repo, call_name, calls_in, kwarg, norm, walk_local

FIXED_KW = {"ir_node_id", "entity_type", "position", "footprint", "role", "debug_info"}


@dataclass
class Site:
    f: Func
    key: str
    node: ast.AST
    kind: str | None = None  # entity type literal for placement writers

    @property
    def loc(self) -> str:
        return self.f.loc(self.node)


def placement_writers(repo: Repo) -> list[Site]:
    """Keys written into EntityPlacement.properties: keyword arguments of create_and_add_placement and
    `<x>.properties["k"] = ...` stores."""
    out: list[Site] = []
    for f in repo.all_funcs():
        if ".layout." not in f.module.name + ".":
            continue
        for c in calls_in(f.node, "create_and_add_placement"):
            et = kwarg(c, "entity_type")
            kind = et.value if isinstance(et, ast.Constant) else None
            for k in c.keywords:
                if k.arg and k.arg not in FIXED_KW:
                    out.append(Site(f, k.arg, c, kind))
        for n in walk_local(f.node):
            if isinstance(n, ast.Subscript) and isinstance(n.ctx, ast.Store) and norm(n.value).endswith(".properties"):
                if isinstance(n.slice, ast.Constant) and isinstance(n.slice.value, str):
                    out.append(Site(f, n.slice.value, n, None))
                elif isinstance(n.slice, ast.JoinedStr):
                    # f"{operand_key}_operand_wires" -> pattern *_operand_wires
                    tail = "".join(v.value for v in n.slice.values if isinstance(v, ast.Constant))
                    out.append(Site(f, "*" + tail, n, None))
    return out


def _canon(f: Func):
    from .rules.util import canon

    return canon(f)


def readers_in(f: Func, var_names: set[str] | None = None, recv=None) -> list[Site]:
    """Keys read from a dict: v.get("k"), v["k"], "k" in v (nested functions included).  The dict is selected either by the
    source text of the receiver (`var_names`, for parameters and attribute chains) or by a predicate `recv` over its canonical
    (local-free) text, which makes the selection independent of how locals are named."""
    out = []

    def sel(e: ast.AST) -> bool:
        if var_names is not None and norm(e) in var_names:
            return True
        if recv is not None:
            try:
                return bool(recv(_canon(f).text(e)))
            except RecursionError:
                return False
        return False

    for n in ast.walk(f.node):
        if isinstance(n, ast.Call) and call_name(n) == "get" and isinstance(n.func, ast.Attribute) and n.args and isinstance(n.args[0], ast.Constant) and isinstance(n.args[0].value, str) and sel(n.func.value):
            out.append(Site(f, n.args[0].value, n))
        elif isinstance(n, ast.Subscript) and isinstance(n.ctx, ast.Load) and isinstance(n.slice, ast.Constant) and isinstance(n.slice.value, str) and sel(n.value):
            out.append(Site(f, n.slice.value, n))
        elif isinstance(n, ast.Compare) and isinstance(n.ops[0], (ast.In, ast.NotIn)) and isinstance(n.left, ast.Constant) and isinstance(n.left.value, str) and sel(n.comparators[0]):
            out.append(Site(f, n.left.value, n))
    return out


def _is_properties(t: str) -> bool:
    return t.endswith(".properties") or t in ("props", "properties") or t.endswith(".properties or {}")


def property_readers(repo: Repo) -> list[Site]:
    """Every read of a literal key from some `<x>.properties` dict (directly, through a local alias, or through a parameter
    named props/properties) anywhere."""
    out = []
    for f in repo.all_funcs():
        if not any((isinstance(n, ast.Attribute) and n.attr == "properties") or (isinstance(n, ast.arg) and n.arg in ("props", "properties")) for n in ast.walk(f.node)):
            continue
        out += readers_in(f, None, _is_properties)
        # f-string keys: placement.properties.get(f"{operand_key}_operand")
        for n in walk_local(f.node):
            if isinstance(n, ast.Call) and call_name(n) == "get" and isinstance(n.func, ast.Attribute) and n.args and isinstance(n.args[0], ast.JoinedStr) and _is_properties(_canon(f).text(n.func.value)):
                tail = "".join(v.value for v in n.args[0].values if isinstance(v, ast.Constant))
                out.append(Site(f, "*" + tail, n))
    return out


def match(key: str, pattern: str) -> bool:
    if pattern.startswith("*"):
        return key.endswith(pattern[1:])
    if key.startswith("*"):
        return pattern.endswith(key[1:])
    return key == pattern


def row_writers(f: Func) -> list[Site]:
    """Keys of the condition rows a function hands to a placement (`conditions=` keyword of create_and_add_placement or a
    `.properties['conditions']` store): dict literals in the list, dicts appended to it, and item stores on such dicts."""
    out: list[Site] = []
    lists: list[ast.AST] = []
    for c in calls_in(f.node, "create_and_add_placement"):
        v = kwarg(c, "conditions")
        if v is not None:
            lists.append(v)
    for n in walk_local(f.node):
        if isinstance(n, ast.Assign) and isinstance(n.targets[0], ast.Subscript) and isinstance(n.targets[0].slice, ast.Constant) and n.targets[0].slice.value == "conditions" \
                and norm(n.targets[0].value).endswith(".properties"):
            lists.append(n.value)
    if not lists:
        return out
    from .dataflow import DefUse

    du = DefUse(f)

    def dict_keys(d: ast.Dict) -> None:
        for k in d.keys:
            if isinstance(k, ast.Constant):
                out.append(Site(f, k.value, d))

    row_names: set[str] = set()

    def rows_of(e: ast.AST, depth: int = 0) -> None:
        if isinstance(e, ast.List):
            for x in e.elts:
                row(x, depth)
        elif isinstance(e, ast.Name) and depth < 4:
            for v, how, _st in du.defs.get(e.id, []):
                if how == "assign":
                    rows_of(v, depth + 1)
                elif how == "elem-add":
                    row(v, depth + 1)

    def row(x: ast.AST, depth: int) -> None:
        if isinstance(x, ast.Dict):
            dict_keys(x)
        elif isinstance(x, ast.Name) and depth < 4 and x.id not in row_names:
            row_names.add(x.id)
            for v, how, _st in du.defs.get(x.id, []):
                if how == "assign" and isinstance(v, ast.Dict):
                    dict_keys(v)

    for e in lists:
        rows_of(e)
    for n in walk_local(f.node):
        if isinstance(n, ast.Subscript) and isinstance(n.ctx, ast.Store) and isinstance(n.value, ast.Name) and n.value.id in row_names and isinstance(n.slice, ast.Constant):
            out.append(Site(f, n.slice.value, n))
    return out
