"""M10: the game-data oracle — draftsman's prototype tables read as data (collision boxes, wire reach, supply area).
This runs draftsman's data loader, not repository code; if it cannot be loaded the rules that need it are inconclusive."""

from __future__ import annotations

import math
from functools import lru_cache

from .core import AnalysisError


@lru_cache(maxsize=1)
def raw() -> dict:
    try:
        from draftsman.data import entities  # type: ignore
    except Exception as e:  # noqa: BLE001
        raise AnalysisError(f"game data (draftsman.data.entities) not loadable: {e}") from e
    return entities.raw


def proto(name: str) -> dict | None:
    return raw().get(name)


def tile_extent(name: str) -> tuple[int, int] | None:
    p = proto(name)
    if not p:
        return None
    if p.get("tile_width") and p.get("tile_height"):
        return int(p["tile_width"]), int(p["tile_height"])
    cb = p.get("collision_box")
    if not cb:
        return None
    return max(1, math.ceil(cb[1][0] - cb[0][0])), max(1, math.ceil(cb[1][1] - cb[0][1]))


def circuit_reach(name: str) -> float | None:
    p = proto(name)
    if not p:
        return None
    if p.get("circuit_wire_max_distance") is not None:
        return float(p["circuit_wire_max_distance"])
    if p.get("maximum_wire_distance") is not None:
        return float(p["maximum_wire_distance"])
    return None


def draftsman_classes_with_condition_but_no_enable_flag() -> list[str]:
    """Entity classes of the draftsman library (read from its *source* with ast, nothing is imported or run) that offer
    `set_circuit_condition` (CircuitConditionMixin) but have no `circuit_enabled` attribute (no CircuitEnableMixin)."""
    import ast as _ast
    import importlib.util as _iu
    from pathlib import Path as _P

    spec = _iu.find_spec("draftsman")
    if spec is None or not spec.submodule_search_locations:
        return []
    root = _P(list(spec.submodule_search_locations)[0]) / "prototypes"
    out = []
    for f in sorted(root.glob("*.py")):
        try:
            tree = _ast.parse(f.read_text(encoding="utf-8"))
        except Exception:
            continue
        for n in tree.body:
            if isinstance(n, _ast.ClassDef):
                bases = {b.id if isinstance(b, _ast.Name) else getattr(b, "attr", "") for b in n.bases}
                if "CircuitConditionMixin" in bases and "CircuitEnableMixin" not in bases:
                    out.append(n.name)
    return out
