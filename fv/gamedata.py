"""M10: the game-data oracle — draftsman's prototype tables read as data (collision boxes, wire reach, supply area).
This runs draftsman's data loader, not repository code; if it cannot be loaded the rules that need it are inconclusive."""

from __future__ import annotations

import math
from functools import lru_cache

from .core import AnalysisError


@lru_cache(maxsize=1)
def raw() -> dict:
    try:
        from draftsman.data import entities  # type: ignore
    except Exception as e:  # noqa: BLE001
        raise AnalysisError(f"game data (draftsman.data.entities) not loadable: {e}") from e
    return entities.raw


def proto(name: str) -> dict | None:
    return raw().get(name)


def tile_extent(name: str) -> tuple[int, int] | None:
    p = proto(name)
    if not p:
        return None
    if p.get("tile_width") and p.get("tile_height"):
        return int(p["tile_width"]), int(p["tile_height"])
    cb = p.get("collision_box")
    if not cb:
        return None
    return max(1, math.ceil(cb[1][0] - cb[0][0])), max(1, math.ceil(cb[1][1] - cb[0][1]))


def circuit_reach(name: str) -> float | None:
    p = proto(name)
    if not p:
        return None
    if p.get("circuit_wire_max_distance") is not None:
        return float(p["circuit_wire_max_distance"])
    if p.get("maximum_wire_distance") is not None:
        return float(p["maximum_wire_distance"])
    return None
