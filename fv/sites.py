"""Error-site extraction: every place the compiler refuses a program, with the chain of
conditions that guard it (enclosing `if` tests with polarity, plus preceding early exits)."""

from __future__ import annotations

import ast
import re
from dataclasses import dataclass, field

from .core import Func, Repo, call_name, chain, norm, parents_map, walk_local
from .dataflow import DefUse

SEVERITIES = ("error", "warning", "info", "debug")


@dataclass
class Site:
    f: Func
    node: ast.AST  # the call or raise
    severity: str  # error | warning | info | raise:<Exc>
    guards: list[tuple[ast.expr, bool]] = field(default_factory=list)
    du: DefUse | None = None

    @property
    def loc(self) -> str:
        return self.f.loc(self.node)

    def guard_texts(self) -> list[str]:
        return [("" if pol else "not ") + norm(t) for t, pol in self.guards]

    def has(self, pattern: str, polarity: bool | None = None) -> bool:
        """Does some guard, in any of its equivalent spellings (`c` / `not c` with the opposite polarity, `a != b` / `a == b`
        with the opposite polarity, ...), match `pattern` with the given polarity?"""
        rx = re.compile(pattern)
        for t, pol in self.guards:
            for text, p in equivalent_forms(t, pol):
                if polarity is not None and p != polarity:
                    continue
                if rx.search(text):
                    return True
        return False

    def isinstance_of(self, cls: str) -> bool:
        for t, pol in self.guards:
            if not pol:
                continue
            for sub in ast.walk(t):
                if isinstance(sub, ast.Call) and call_name(sub) == "isinstance" and len(sub.args) == 2 and cls in norm(sub.args[1]):
                    return True
        return False

    def none_of_call(self, callee: str, arg_pattern: str = "") -> bool:
        """Some positive guard is `X is None` (or `not X`) where X is defined by a call to `callee`."""
        assert self.du is not None
        for t, pol in self.guards:
            for sub in ast.walk(t):
                x = None
                if isinstance(sub, ast.Compare) and len(sub.ops) == 1 and isinstance(sub.comparators[0], ast.Constant) and sub.comparators[0].value is None:
                    if (isinstance(sub.ops[0], ast.Is) and pol) or (isinstance(sub.ops[0], ast.IsNot) and not pol):
                        x = sub.left
                elif isinstance(sub, ast.UnaryOp) and isinstance(sub.op, ast.Not) and pol:
                    x = sub.operand
                if x is None:
                    continue
                cands = [x] + (self.du.value_exprs(x.id) if isinstance(x, ast.Name) else [])
                for c in cands:
                    if isinstance(c, ast.Call) and call_name(c) == callee and re.search(arg_pattern, norm(c)):
                        return True
        return False

    def message_text(self) -> str:
        """Concatenated string literals of the message argument (evidence only, never a locator)."""
        out = []
        n = self.node
        if isinstance(n, ast.Call) and n.args:
            for s in ast.walk(n.args[0]):
                if isinstance(s, ast.Constant) and isinstance(s.value, str):
                    out.append(s.value)
        return "".join(out)[:120]


def _early_exit(st: ast.stmt) -> bool:
    """`if c: return/continue/raise/break` with no else."""
    if isinstance(st, ast.If) and not st.orelse and st.body:
        last = st.body[-1]
        return isinstance(last, (ast.Return, ast.Continue, ast.Raise, ast.Break))
    return False


def guard_chain(f: Func, node: ast.AST, pm: dict[ast.AST, ast.AST]) -> list[tuple[ast.expr, bool]]:
    guards: list[tuple[ast.expr, bool]] = []
    cur: ast.AST = node
    while cur in pm and cur is not f.node:
        par = pm[cur]
        # position of `cur` in a statement list of par
        for fieldname in ("body", "orelse", "finalbody", "handlers"):
            block = getattr(par, fieldname, None)
            if isinstance(block, list) and cur in block:
                idx = block.index(cur)
                for prev in block[:idx]:
                    if _early_exit(prev):
                        guards.append((prev.test, False))
                if isinstance(par, ast.If):
                    guards.append((par.test, fieldname == "body"))
                elif isinstance(par, ast.While):
                    guards.append((par.test, True))
        cur = par
    guards.reverse()
    return [normal_polarity(t, pol) for t, pol in guards]


def normal_polarity(test: ast.expr, pol: bool) -> tuple[ast.expr, bool]:
    """Canonical orientation of a guard, so that `if not c: continue` followed by code, `if c: code` and `if not (not c): ...` give
    the same (test, polarity) pair: a leading `not` is folded into the polarity, and the negative comparison operators
    (`is not`, `!=`, `not in`) are written with their positive counterpart and the opposite polarity."""
    changed = True
    while changed:
        changed = False
        if isinstance(test, ast.UnaryOp) and isinstance(test.op, ast.Not):
            test, pol, changed = test.operand, not pol, True
        elif isinstance(test, ast.Compare) and len(test.ops) == 1 and isinstance(test.ops[0], (ast.IsNot, ast.NotEq, ast.NotIn)):
            pos = {ast.IsNot: ast.Is, ast.NotEq: ast.Eq, ast.NotIn: ast.In}[type(test.ops[0])]()
            test = ast.copy_location(ast.Compare(left=test.left, ops=[pos], comparators=test.comparators), test)
            pol, changed = not pol, True
    return test, pol


def error_sites(repo: Repo, funcs: list[Func] | None = None) -> list[Site]:
    out: list[Site] = []
    for f in funcs if funcs is not None else list(repo.all_funcs()):
        pm = None
        du = None
        for n in walk_local(f.node):
            sev = None
            if isinstance(n, ast.Call) and isinstance(n.func, ast.Attribute):
                ch = chain(n.func)
                if n.func.attr in SEVERITIES and ch and len(ch) >= 2 and "diagnostics" in ch[-2]:
                    sev = n.func.attr
                elif n.func.attr == "_error" and ch and ch[0] == "self":
                    sev = "error"
                elif n.func.attr in ("_emit_type_warning",):
                    sev = "warning"
                elif n.func.attr == "_emit_reserved_signal_diagnostic":
                    sev = "table:RESERVED_SIGNAL_RULES"
            elif isinstance(n, ast.Raise) and n.exc is not None:
                exc = n.exc.func if isinstance(n.exc, ast.Call) else n.exc
                sev = "raise:" + norm(exc)
            if sev is None:
                continue
            if pm is None:
                pm = parents_map(f.node)
                du = DefUse(f)
            # enclosing statement for raise/calls
            out.append(Site(f, n, sev, guard_chain(f, _stmt_of(pm, n), pm), du))
    return out


def _stmt_of(pm, n: ast.AST) -> ast.AST:
    cur = n
    while not isinstance(cur, ast.stmt) and cur in pm:
        cur = pm[cur]
    return cur


_NEG = {ast.Is: ast.IsNot, ast.IsNot: ast.Is, ast.Eq: ast.NotEq, ast.NotEq: ast.Eq, ast.In: ast.NotIn, ast.NotIn: ast.In,
        ast.Lt: ast.GtE, ast.GtE: ast.Lt, ast.Gt: ast.LtE, ast.LtE: ast.Gt}


def equivalent_forms(test: ast.expr, pol: bool) -> list[tuple[str, bool]]:
    """All spellings of one guard: (text, polarity) pairs that mean the same condition."""
    out = [(norm(test), pol)]
    if isinstance(test, (ast.Name, ast.Attribute, ast.Call, ast.Subscript, ast.Constant)):
        out.append(("not " + norm(test), not pol))
    else:
        out.append(("not (" + norm(test) + ")", not pol))
    if isinstance(test, ast.Compare) and len(test.ops) == 1 and type(test.ops[0]) in _NEG:
        neg = ast.Compare(left=test.left, ops=[_NEG[type(test.ops[0])]()], comparators=test.comparators)
        out.append((norm(neg), not pol))
    if isinstance(test, ast.UnaryOp) and isinstance(test.op, ast.Not):
        out.append((norm(test.operand), not pol))
    return out
