"""Source model (M1), constant evaluator, obligations/evidence/known-findings reporting."""

from __future__ import annotations

import ast
import hashlib
import json
import os
import sys
import time
from dataclasses import dataclass, field
from pathlib import Path
from typing import Any, Callable, Iterable, Iterator

VERIF = Path(__file__).resolve().parent.parent
REPO = Path(os.environ.get("FV_REPO", "/repo")).resolve()


class AnalysisError(Exception):
    """The analysis itself cannot proceed (anchor vanished, floor not met, unresolved edge).

    Exit status 2: neither a pass nor a violation.
    """


class Inconclusive(AnalysisError):
    """An idiom the rule does not recognise; honest 'cannot decide'."""


# --------------------------------------------------------------------------------------
# Source model
# --------------------------------------------------------------------------------------


@dataclass
class Func:
    name: str
    node: ast.FunctionDef
    module: "Module"
    cls: "ClassInfo | None" = None

    @property
    def short(self) -> str:
        return f"{self.cls.name}.{self.name}" if self.cls else self.name

    @property
    def qual(self) -> str:
        return f"{self.module.name}.{self.short}"

    @property
    def params(self) -> list[str]:
        a = self.node.args
        return [x.arg for x in a.posonlyargs + a.args + a.kwonlyargs]

    def loc(self, node: ast.AST | None = None) -> str:
        n = node if node is not None else self.node
        return f"{self.module.rel}:{getattr(n, 'lineno', 0)}"

    def __hash__(self) -> int:
        return hash(self.qual)

    def __eq__(self, other: object) -> bool:
        return isinstance(other, Func) and other.qual == self.qual

    def __repr__(self) -> str:
        return f"<Func {self.short}>"


@dataclass
class ClassInfo:
    name: str
    node: ast.ClassDef
    module: "Module"
    bases: list[str] = field(default_factory=list)
    methods: dict[str, Func] = field(default_factory=dict)

    def loc(self, node: ast.AST | None = None) -> str:
        n = node if node is not None else self.node
        return f"{self.module.rel}:{getattr(n, 'lineno', 0)}"

    def class_assigns(self) -> dict[str, ast.expr]:
        out: dict[str, ast.expr] = {}
        for st in self.node.body:
            if isinstance(st, ast.Assign):
                for t in st.targets:
                    if isinstance(t, ast.Name):
                        out[t.id] = st.value
            elif isinstance(st, ast.AnnAssign) and isinstance(st.target, ast.Name) and st.value:
                out[st.target.id] = st.value
        return out

    def __hash__(self) -> int:
        return hash((self.module.name, self.name))

    def __eq__(self, other: object) -> bool:
        return (
            isinstance(other, ClassInfo)
            and other.name == self.name
            and other.module.name == self.module.name
        )

def inline_single_use_temporaries(tree: ast.AST) -> int:
    """Source normal form applied to every repository module before analysis: a local that is assigned exactly once by a plain
    `t = E`, read exactly once, and read by the *next* statement as a direct argument of a call (or as the whole value that
    statement assigns/returns/tests) is replaced by E at that use and the assignment is dropped; repeated to a fixed point.
    `t1 = a.b; t2 = [x]; f(k=t1, v=t2)` and `f(k=a.b, v=[x])` are then the same tree, so rules that look at call arguments do
    not depend on whether the author introduced temporaries.  Returns the number of inlined temporaries."""
    total = 0
    for fn in [n for n in ast.walk(tree) if isinstance(n, (ast.FunctionDef, ast.AsyncFunctionDef))]:
        params = {a.arg for a in fn.args.posonlyargs + fn.args.args + fn.args.kwonlyargs}
        if fn.args.vararg:
            params.add(fn.args.vararg.arg)
        if fn.args.kwarg:
            params.add(fn.args.kwarg.arg)
        declared: set[str] = set()
        for n in ast.walk(fn):
            if isinstance(n, (ast.Global, ast.Nonlocal)):
                declared |= set(n.names)
        changed = True
        while changed:
            changed = False
            stores: dict[str, int] = {}
            loads: dict[str, int] = {}
            for n in ast.walk(fn):
                if isinstance(n, ast.Name):
                    d = stores if isinstance(n.ctx, (ast.Store, ast.Del)) else loads
                    d[n.id] = d.get(n.id, 0) + 1
                elif isinstance(n, ast.arg):
                    stores[n.arg] = stores.get(n.arg, 0) + 1
            for holder in [n for n in ast.walk(fn)]:
                for field in ("body", "orelse", "finalbody"):
                    block = getattr(holder, field, None)
                    if not (isinstance(block, list) and block and isinstance(block[0], ast.stmt)):
                        continue
                    i = 0
                    while i + 1 < len(block):
                        st, nxt = block[i], block[i + 1]
                        if isinstance(st, ast.Assign) and len(st.targets) == 1 and isinstance(st.targets[0], ast.Name):
                            t = st.targets[0].id
                            if t not in params and t not in declared and stores.get(t) == 1 and loads.get(t) == 1 and _replace_direct_use(nxt, t, st.value):
                                del block[i]
                                total += 1
                                changed = True
                                loads[t] = 0
                                continue
                        i += 1
    return total



_POSITIVE = {ast.IsNot: ast.Is, ast.NotEq: ast.Eq, ast.NotIn: ast.In}


def _positive_test(test: ast.expr) -> tuple[ast.expr, bool]:
    """(test written positively, whether the meaning was kept) — `not c`, `is not`, `!=`, `not in` are negative spellings."""
    keep = True
    changed = True
    while changed:
        changed = False
        if isinstance(test, ast.UnaryOp) and isinstance(test.op, ast.Not):
            test, keep, changed = test.operand, not keep, True
        elif isinstance(test, ast.Compare) and len(test.ops) == 1 and type(test.ops[0]) in _POSITIVE:
            test = ast.copy_location(ast.Compare(left=test.left, ops=[_POSITIVE[type(test.ops[0])]()], comparators=test.comparators), test)
            keep, changed = not keep, True
    return test, keep


def _negated(test: ast.expr) -> ast.expr:
    pos, keep = _positive_test(test)
    if not keep:
        return pos
    return ast.copy_location(ast.UnaryOp(op=ast.Not(), operand=test), test)


def unroll_literal_loops(tree: ast.AST) -> int:
    """`for x in (E1, E2, ...): body`  ->  `x = E1; body; x = E2; body; ...` for a literal tuple/list of at most four elements whose body has no
    break/continue/return and no else clause: the loop form and the written-out form of "do this for each of these few things" are one shape."""
    import copy

    n_un = 0
    for node in ast.walk(tree):
        for fld in ("body", "orelse", "finalbody"):
            seq = getattr(node, fld, None)
            if not (isinstance(seq, list) and seq and all(isinstance(x, ast.stmt) for x in seq)):
                continue
            out: list[ast.stmt] = []
            changed = False
            for st in seq:
                if (isinstance(st, ast.For) and isinstance(st.iter, (ast.Tuple, ast.List)) and 1 <= len(st.iter.elts) <= 4 and not st.orelse and isinstance(st.target, ast.Name)
                        and not any(isinstance(x, (ast.Break, ast.Continue, ast.Return, ast.Starred)) for b in st.body for x in ast.walk(b))
                        and not any(isinstance(e, ast.Starred) for e in st.iter.elts)):
                    for e in st.iter.elts:
                        asg = ast.Assign(targets=[ast.Name(id=st.target.id, ctx=ast.Store())], value=copy.deepcopy(e), lineno=st.lineno, col_offset=st.col_offset)
                        out.append(ast.copy_location(asg, st))
                        out.extend(copy.deepcopy(st.body))
                    changed = True
                    n_un += 1
                else:
                    out.append(st)
            if changed:
                ast.fix_missing_locations(ast.Module(body=out, type_ignores=[]))
                setattr(node, fld, out)
    return n_un


def flatten_exit_else(tree: ast.AST, elif_too: bool = True) -> int:
    """Third part of the source normal form: `if C: ...; <exit>` / `else: rest` (the arm ends in return/raise/continue/break, `rest` is
    not an elif chain) becomes `if C: ...; <exit>` followed by `rest` — the early-exit style the repository uses almost everywhere.
    Same control flow; rules that read guard chains or the statements after an early exit see one shape."""
    exits = (ast.Return, ast.Raise, ast.Continue, ast.Break)
    n = 0
    changed = True
    while changed:
        changed = False
        for node in list(ast.walk(tree)):
            holders = [(node, fld) for fld in ("body", "orelse", "finalbody") if isinstance(getattr(node, fld, None), list)]
            for h, fld in holders:
                seq = getattr(h, fld)
                if not (seq and all(isinstance(x, ast.stmt) for x in seq)):
                    continue
                for i, st in enumerate(seq):
                    if isinstance(st, ast.If) and st.orelse and isinstance(st.body[-1], exits) and (elif_too or not (
                            (len(st.orelse) == 1 and isinstance(st.orelse[0], ast.If)) or (fld == "orelse" and isinstance(h, ast.If) and len(seq) == 1))):
                        rest = st.orelse
                        st.orelse = []
                        setattr(h, fld, seq[: i + 1] + rest + seq[i + 1:])
                        n += 1
                        changed = True
                        break
    return n


def normalise_branches(tree: ast.AST) -> int:
    """Second part of the source normal form (orientation of branches):
      * `if <negative test>: A else: B` (B not an elif) becomes `if <positive test>: B else: A`;
      * an `if C: body` without else that is the last statement of a loop body becomes `if not C: continue` followed by body
        (the early-exit style the repository uses), recursively.
    Guard chains are unaffected in meaning; rules that look at the arms of an `if` or at early exits see one shape."""
    n = 0
    for node in list(ast.walk(tree)):
        if isinstance(node, ast.If) and node.orelse and not (len(node.orelse) == 1 and isinstance(node.orelse[0], ast.If)):
            pos, keep = _positive_test(node.test)
            if not keep:
                node.test, node.body, node.orelse = pos, node.orelse, node.body
                n += 1
    changed = True
    while changed:
        changed = False
        for node in list(ast.walk(tree)):
            if isinstance(node, (ast.For, ast.AsyncFor, ast.While)) and node.body:
                last = node.body[-1]
                if isinstance(last, ast.If) and not last.orelse and not (len(last.body) == 1 and isinstance(last.body[0], (ast.Continue, ast.Break, ast.Return, ast.Raise))) \
                        and not any(isinstance(x, (ast.Break,)) for x in []):
                    guard = ast.copy_location(ast.If(test=_negated(last.test), body=[ast.copy_location(ast.Continue(), last)], orelse=[]), last)
                    node.body = node.body[:-1] + [guard] + list(last.body)
                    n += 1
                    changed = True
    return n

def _header_exprs(st: ast.stmt) -> list[tuple[ast.AST, str]]:
    """(owner, field) pairs of the expressions a statement evaluates itself (not its nested blocks)."""
    if isinstance(st, (ast.Expr, ast.Return)):
        return [(st, "value")]
    if isinstance(st, (ast.Assign, ast.AnnAssign, ast.AugAssign)):
        return [(st, "value")]
    if isinstance(st, (ast.If, ast.While)):
        return [(st, "test")]
    if isinstance(st, (ast.For, ast.AsyncFor)):
        return [(st, "iter")]
    return []


def _replace_direct_use(st: ast.stmt, name: str, value: ast.AST) -> bool:
    """Replace the single read of `name` in the header of `st` when it is a direct call argument / keyword value, or the whole
    header expression.  Returns False (and changes nothing) otherwise."""
    for owner, field in _header_exprs(st):
        e = getattr(owner, field, None)
        if e is None:
            continue
        if isinstance(e, ast.Name) and e.id == name and isinstance(e.ctx, ast.Load):
            setattr(owner, field, value)
            return True
        for c in ast.walk(e):
            if isinstance(c, (ast.Lambda, ast.ListComp, ast.SetComp, ast.DictComp, ast.GeneratorExp)):
                continue
            if isinstance(c, ast.Call):
                for k, a in enumerate(c.args):
                    if isinstance(a, ast.Name) and a.id == name and isinstance(a.ctx, ast.Load):
                        c.args[k] = value
                        return True
                for kw in c.keywords:
                    if isinstance(kw.value, ast.Name) and kw.value.id == name and isinstance(kw.value.ctx, ast.Load):
                        kw.value = value
                        return True
    return False



@dataclass
class Module:
    name: str
    path: Path
    rel: str
    src: str
    tree: ast.Module
    funcs: dict[str, Func] = field(default_factory=dict)  # top-level functions
    classes: dict[str, ClassInfo] = field(default_factory=dict)
    imports: dict[str, str] = field(default_factory=dict)  # local alias -> dotted target

    def module_assigns(self) -> dict[str, ast.expr]:
        out: dict[str, ast.expr] = {}
        for st in self.tree.body:
            if isinstance(st, ast.Assign):
                for t in st.targets:
                    if isinstance(t, ast.Name):
                        out[t.id] = st.value
            elif isinstance(st, ast.AnnAssign) and isinstance(st.target, ast.Name) and st.value:
                out[st.target.id] = st.value
        return out


def _is_test_path(p: Path) -> bool:
    parts = p.parts
    return (
        "tests" in parts
        or "integration_tests" in parts
        or p.name.startswith("test_")
        or p.name == "conftest.py"
    )


class Repo:
    """All non-test modules of the compiler (compile.py + dsl_compiler/**)."""

    MIN_MODULES = 45  # 51 module files today (41 non-empty); floor below that count

    def __init__(self, root: Path | None = None) -> None:
        self.root = (root or REPO).resolve()
        self.modules: dict[str, Module] = {}
        self._consulted: set[str] = set()
        self._load()

    def _load(self) -> None:
        files: list[Path] = []
        top = self.root / "compile.py"
        if top.exists():
            files.append(top)
        pkg = self.root / "dsl_compiler"
        if not pkg.is_dir():
            raise AnalysisError(f"package directory missing: {pkg}")
        for p in sorted(pkg.rglob("*.py")):
            if _is_test_path(p.relative_to(self.root)):
                continue
            files.append(p)
        for p in files:
            rel = str(p.relative_to(self.root))
            name = rel[:-3].replace("/", ".")
            if name.endswith(".__init__"):
                name = name[: -len(".__init__")]
            src = p.read_text(encoding="utf-8")
            try:
                tree = ast.parse(src, filename=rel)
            except SyntaxError as e:
                raise AnalysisError(f"cannot parse {rel}: {e}") from e
            if os.environ.get("FV_NO_DETEMP") != "1":
                flatten_exit_else(tree)
                unroll_literal_loops(tree)
                inline_single_use_temporaries(tree)
                normalise_branches(tree)
            m = Module(name=name, path=p, rel=rel, src=src, tree=tree)
            self._index(m)
            self.modules[name] = m
        if len(self.modules) < self.MIN_MODULES:
            raise AnalysisError(
                f"only {len(self.modules)} modules found under {self.root}; floor {self.MIN_MODULES}"
            )

    def _index(self, m: Module) -> None:
        for st in m.tree.body:
            if isinstance(st, (ast.FunctionDef, ast.AsyncFunctionDef)):
                m.funcs[st.name] = Func(st.name, st, m)  # type: ignore[arg-type]
            elif isinstance(st, ast.ClassDef):
                ci = ClassInfo(st.name, st, m, bases=[_base_name(b) for b in st.bases])
                for s2 in st.body:
                    if isinstance(s2, (ast.FunctionDef, ast.AsyncFunctionDef)):
                        ci.methods[s2.name] = Func(s2.name, s2, m, ci)  # type: ignore[arg-type]
                m.classes[st.name] = ci
        for st in ast.walk(m.tree):
            if isinstance(st, ast.ImportFrom):
                base = st.module or ""
                if st.level:
                    pkg_parts = m.name.split(".")
                    if m.path.name != "__init__.py":
                        pkg_parts = pkg_parts[:-1]
                    anchor = pkg_parts[: len(pkg_parts) - (st.level - 1)]
                    base = ".".join(anchor + ([base] if base else []))
                for al in st.names:
                    m.imports[al.asname or al.name] = f"{base}.{al.name}" if base else al.name
            elif isinstance(st, ast.Import):
                for al in st.names:
                    m.imports[al.asname or al.name.split(".")[0]] = (
                        al.name if al.asname else al.name.split(".")[0]
                    )

    # ---- lookup ---------------------------------------------------------------------
    def all_classes(self) -> Iterator[ClassInfo]:
        for m in self.modules.values():
            yield from m.classes.values()

    def all_funcs(self) -> Iterator[Func]:
        for m in self.modules.values():
            yield from m.funcs.values()
            for c in m.classes.values():
                yield from c.methods.values()

    def cls(self, name: str, optional: bool = False) -> ClassInfo | None:
        idx = self.__dict__.get("_cls_index")
        if idx is None:
            idx = {}
            for c in self.all_classes():
                idx.setdefault(c.name, []).append(c)
            self.__dict__["_cls_index"] = idx
        hits = idx.get(name, [])
        if not hits:
            if optional:
                return None
            raise AnalysisError(f"anchor vanished: class {name} not found")
        if len(hits) > 1:
            raise AnalysisError(f"class name {name} ambiguous: {[c.module.name for c in hits]}")
        self._consulted.add(hits[0].module.rel)
        return hits[0]

    def func(self, short: str, module_hint: str | None = None, optional: bool = False) -> Func | None:
        """Look up 'Class.method' or 'function' (optionally restricted to a module suffix)."""
        hits: list[Func] = []
        if "." in short:
            cname, mname = short.split(".", 1)
            for c in self.all_classes():
                if c.name == cname and mname in c.methods:
                    hits.append(c.methods[mname])
        else:
            for m in self.modules.values():
                if short in m.funcs:
                    hits.append(m.funcs[short])
        if module_hint:
            hits = [h for h in hits if h.module.name.endswith(module_hint)]
        if not hits:
            if optional:
                return None
            raise AnalysisError(f"anchor vanished: function {short} not found")
        if len(hits) > 1:
            raise AnalysisError(f"function {short} ambiguous: {[h.qual for h in hits]}")
        self._consulted.add(hits[0].module.rel)
        return hits[0]

    def module(self, suffix: str) -> Module:
        hits = [m for n, m in self.modules.items() if n == suffix or n.endswith("." + suffix)]
        if len(hits) != 1:
            raise AnalysisError(f"anchor vanished: module {suffix} ({len(hits)} matches)")
        self._consulted.add(hits[0].rel)
        return hits[0]

    def mro(self, c: ClassInfo) -> list[ClassInfo]:
        cache = self.__dict__.setdefault("_mro_cache", {})
        if c in cache:
            return cache[c]
        cache[c] = self._mro(c)
        return cache[c]

    def _mro(self, c: ClassInfo) -> list[ClassInfo]:
        out, seen = [], set()
        work = [c]
        while work:
            k = work.pop(0)
            if k.name in seen:
                continue
            seen.add(k.name)
            out.append(k)
            for b in k.bases:
                bc = self.cls(b, optional=True) if self._class_exists_once(b) else None
                if bc:
                    work.append(bc)
        return out

    def _class_exists_once(self, name: str) -> bool:
        cnt = self.__dict__.get("_cls_count")
        if cnt is None:
            cnt = {}
            for c in self.all_classes():
                cnt[c.name] = cnt.get(c.name, 0) + 1
            self.__dict__["_cls_count"] = cnt
        return cnt.get(name, 0) == 1

    def method(self, c: ClassInfo, name: str) -> Func | None:
        for k in self.mro(c):
            if name in k.methods:
                return k.methods[name]
        return None

    def subclasses(self, base: str) -> list[ClassInfo]:
        cache = self.__dict__.setdefault("_sub_cache", {})
        if base not in cache:
            cache[base] = self._subclasses(base)
        return cache[base]

    def _subclasses(self, base: str) -> list[ClassInfo]:
        out = []
        for c in self.all_classes():
            if c.name != base and any(k.name == base for k in self.mro(c)):
                out.append(c)
        return out

    def digest(self) -> str:
        h = hashlib.sha256()
        for name in sorted(self.modules):
            h.update(name.encode())
            h.update(self.modules[name].src.encode())
        return h.hexdigest()[:16]

    def read_text(self, rel: str) -> str:
        p = self.root / rel
        if not p.exists():
            raise AnalysisError(f"anchor vanished: file {rel}")
        self._consulted.add(rel)
        return p.read_text(encoding="utf-8")


def _base_name(b: ast.expr) -> str:
    if isinstance(b, ast.Name):
        return b.id
    if isinstance(b, ast.Attribute):
        return b.attr
    if isinstance(b, ast.Subscript):
        return _base_name(b.value)
    return ast.unparse(b)


# --------------------------------------------------------------------------------------
# AST helpers
# --------------------------------------------------------------------------------------


def norm(node: ast.AST | None) -> str:
    """Normalised statement/expression text (stable under reformatting)."""
    if node is None:
        return ""
    try:
        return " ".join(ast.unparse(node).split())
    except Exception:  # pragma: no cover
        return ast.dump(node)


def walk_local(node: ast.AST, include_root: bool = True) -> Iterator[ast.AST]:
    """ast.walk that does not descend into nested function/class definitions (lambdas kept)."""
    stack = [node]
    first = True
    while stack:
        n = stack.pop()
        if not first and isinstance(n, (ast.FunctionDef, ast.AsyncFunctionDef, ast.ClassDef)):
            continue
        if not first or include_root:
            yield n
        first = False
        stack.extend(reversed(list(ast.iter_child_nodes(n))))


def chain(node: ast.AST) -> list[str] | None:
    """self.parent.ir_builder.const -> ['self','parent','ir_builder','const']; None if not a pure chain."""
    parts: list[str] = []
    while isinstance(node, ast.Attribute):
        parts.append(node.attr)
        node = node.value
    if isinstance(node, ast.Name):
        parts.append(node.id)
        return list(reversed(parts))
    return None


def chain_str(node: ast.AST) -> str:
    c = chain(node)
    return ".".join(c) if c else norm(node)


def call_name(call: ast.Call) -> str:
    """Last segment of the callee: f(...) -> 'f', a.b.m(...) -> 'm'."""
    f = call.func
    if isinstance(f, ast.Name):
        return f.id
    if isinstance(f, ast.Attribute):
        return f.attr
    return ""


def calls_in(node: ast.AST, name: str | None = None) -> list[ast.Call]:
    out = []
    for n in walk_local(node):
        if isinstance(n, ast.Call) and (name is None or call_name(n) == name):
            out.append(n)
    return out


def kwarg(call: ast.Call, name: str) -> ast.expr | None:
    for k in call.keywords:
        if k.arg == name:
            return k.value
    return None


def arg_of(call: ast.Call, pos: int, name: str | None = None) -> ast.expr | None:
    """Positional argument `pos` or keyword `name`."""
    if name:
        v = kwarg(call, name)
        if v is not None:
            return v
    if pos < len(call.args) and not any(isinstance(a, ast.Starred) for a in call.args[: pos + 1]):
        return call.args[pos]
    return None


def names_in(node: ast.AST) -> set[str]:
    return {n.id for n in walk_local(node) if isinstance(n, ast.Name)}


def attrs_in(node: ast.AST) -> set[str]:
    return {n.attr for n in walk_local(node) if isinstance(n, ast.Attribute)}


def str_consts_in(node: ast.AST) -> set[str]:
    return {
        n.value for n in walk_local(node) if isinstance(n, ast.Constant) and isinstance(n.value, str)
    }


def parents_map(root: ast.AST) -> dict[ast.AST, ast.AST]:
    pm: dict[ast.AST, ast.AST] = {}
    for n in ast.walk(root):
        for c in ast.iter_child_nodes(n):
            pm[c] = n
    return pm


def enclosing_stmt(pm: dict[ast.AST, ast.AST], node: ast.AST) -> ast.stmt | None:
    n: ast.AST | None = node
    while n is not None and not isinstance(n, ast.stmt):
        n = pm.get(n)
    return n  # type: ignore[return-value]


def isinstance_tests(test: ast.expr) -> list[tuple[str, list[str]]]:
    """All `isinstance(<expr>, <Class or tuple>)` in an expression -> [(expr_text, [class names])]."""
    out = []
    for n in walk_local(test):
        if isinstance(n, ast.Call) and call_name(n) == "isinstance" and len(n.args) == 2:
            tgt = n.args[1]
            names: list[str] = []
            elts = tgt.elts if isinstance(tgt, ast.Tuple) else [tgt]
            for e in elts:
                if isinstance(e, ast.Name):
                    names.append(e.id)
                elif isinstance(e, ast.Attribute):
                    names.append(e.attr)
            out.append((norm(n.args[0]), names))
    return out


# --------------------------------------------------------------------------------------
# Constant evaluation of literal data (refuses anything else)
# --------------------------------------------------------------------------------------


class NotConstant(Exception):
    pass


_BINOPS: dict[type, Callable[[Any, Any], Any]] = {
    ast.Add: lambda a, b: a + b,
    ast.Sub: lambda a, b: a - b,
    ast.Mult: lambda a, b: a * b,
    ast.Div: lambda a, b: a / b,
    ast.FloorDiv: lambda a, b: a // b,
    ast.Mod: lambda a, b: a % b,
    ast.Pow: lambda a, b: a**b,
    ast.LShift: lambda a, b: a << b,
    ast.RShift: lambda a, b: a >> b,
    ast.BitOr: lambda a, b: a | b,
    ast.BitAnd: lambda a, b: a & b,
    ast.BitXor: lambda a, b: a ^ b,
}


def const_eval(node: ast.AST, env: dict[str, Any] | None = None, lookup: Callable[[str], Any] | None = None) -> Any:
    """Evaluate a literal data expression. `env` maps names to values; `lookup` resolves other names."""
    env = env or {}

    def ev(n: ast.AST) -> Any:
        if isinstance(n, ast.Constant):
            return n.value
        if isinstance(n, ast.Tuple):
            return tuple(ev(e) for e in n.elts)
        if isinstance(n, ast.List):
            out: list[Any] = []
            for e in n.elts:
                if isinstance(e, ast.Starred):
                    out.extend(ev(e.value))
                else:
                    out.append(ev(e))
            return out
        if isinstance(n, ast.Set):
            return set(ev(e) for e in n.elts)
        if isinstance(n, ast.Dict):
            d: dict[Any, Any] = {}
            for k, v in zip(n.keys, n.values):
                if k is None:
                    d.update(ev(v))
                else:
                    d[ev(k)] = ev(v)
            return d
        if isinstance(n, ast.Name):
            if n.id in env:
                return env[n.id]
            if lookup is not None:
                return lookup(n.id)
            raise NotConstant(n.id)
        if isinstance(n, ast.UnaryOp):
            v = ev(n.operand)
            if isinstance(n.op, ast.USub):
                return -v
            if isinstance(n.op, ast.UAdd):
                return +v
            if isinstance(n.op, ast.Not):
                return not v
            if isinstance(n.op, ast.Invert):
                return ~v
        if isinstance(n, ast.BinOp) and type(n.op) in _BINOPS:
            return _BINOPS[type(n.op)](ev(n.left), ev(n.right))
        if isinstance(n, ast.Call):
            fn = call_name(n)
            if isinstance(n.func, ast.Name) and fn in ("frozenset", "set", "tuple", "list", "sorted", "dict"):
                if not n.args and not n.keywords:
                    return {"frozenset": frozenset, "set": set, "tuple": tuple, "list": list, "sorted": list, "dict": dict}[fn]()
                if len(n.args) == 1 and not n.keywords:
                    v = ev(n.args[0])
                    return {"frozenset": frozenset, "set": set, "tuple": tuple, "list": list, "sorted": sorted, "dict": dict}[fn](v)
            if isinstance(n.func, ast.Name) and fn in ("int", "float", "str", "len", "min", "max", "abs") and not n.keywords:
                return {"int": int, "float": float, "str": str, "len": len, "min": min, "max": max, "abs": abs}[fn](*[ev(a) for a in n.args])
            if isinstance(n.func, ast.Attribute) and fn == "union" and not n.keywords:
                base = ev(n.func.value)
                for a in n.args:
                    base = base | set(ev(a))
                return base
        if isinstance(n, ast.Subscript):
            return ev(n.value)[ev(n.slice)]
        if isinstance(n, ast.JoinedStr):
            parts = []
            for v in n.values:
                if isinstance(v, ast.Constant):
                    parts.append(str(v.value))
                elif isinstance(v, ast.FormattedValue) and v.format_spec is None and v.conversion == -1:
                    parts.append(str(ev(v.value)))
                else:
                    raise NotConstant(norm(n))
            return "".join(parts)
        if isinstance(n, (ast.ListComp, ast.SetComp, ast.GeneratorExp, ast.DictComp)):
            return _eval_comp(n, env, lookup)
        if isinstance(n, ast.IfExp):
            return ev(n.body) if ev(n.test) else ev(n.orelse)
        if isinstance(n, ast.Compare) and len(n.ops) == 1:
            a, b = ev(n.left), ev(n.comparators[0])
            op = n.ops[0]
            table = {ast.Eq: a == b, ast.NotEq: a != b}
            if type(op) in table:
                return table[type(op)]
            if isinstance(op, ast.In):
                return a in b
            if isinstance(op, ast.NotIn):
                return a not in b
            if isinstance(op, ast.Lt):
                return a < b
            if isinstance(op, ast.LtE):
                return a <= b
            if isinstance(op, ast.Gt):
                return a > b
            if isinstance(op, ast.GtE):
                return a >= b
        raise NotConstant(norm(n))

    return ev(node)


def _eval_comp(n: ast.AST, env: dict[str, Any], lookup: Callable[[str], Any] | None) -> Any:
    gens = n.generators  # type: ignore[attr-defined]
    results: list[Any] = []

    def rec(i: int, e: dict[str, Any]) -> None:
        if i == len(gens):
            if isinstance(n, ast.DictComp):
                results.append((const_eval(n.key, e, lookup), const_eval(n.value, e, lookup)))
            else:
                results.append(const_eval(n.elt, e, lookup))  # type: ignore[attr-defined]
            return
        g = gens[i]
        for item in const_eval(g.iter, e, lookup):
            e2 = dict(e)
            _bind(g.target, item, e2)
            if all(const_eval(c, e2, lookup) for c in g.ifs):
                rec(i + 1, e2)

    rec(0, dict(env))
    if isinstance(n, ast.ListComp):
        return results
    if isinstance(n, ast.SetComp):
        return set(results)
    if isinstance(n, ast.DictComp):
        return dict(results)
    return results


def _bind(target: ast.AST, value: Any, env: dict[str, Any]) -> None:
    if isinstance(target, ast.Name):
        env[target.id] = value
    elif isinstance(target, (ast.Tuple, ast.List)):
        vals = list(value)
        if len(vals) != len(target.elts):
            raise NotConstant("unpack")
        for t, v in zip(target.elts, vals):
            _bind(t, v, env)
    else:
        raise NotConstant(norm(target))


def module_const(repo: Repo, mod: Module, name: str, _depth: int = 0) -> Any:
    """Constant-evaluate a module-level name, following imports of other module-level names."""
    if _depth > 6:
        raise NotConstant(name)
    assigns = mod.module_assigns()
    if name in assigns:
        return const_eval(assigns[name], lookup=lambda n: module_const(repo, mod, n, _depth + 1))
    if name in mod.imports:
        target = mod.imports[name]
        modname, _, attr = target.rpartition(".")
        if modname in repo.modules:
            return module_const(repo, repo.modules[modname], attr, _depth + 1)
    raise NotConstant(name)


def class_const(repo: Repo, cls: ClassInfo, name: str) -> Any:
    assigns = cls.class_assigns()
    if name not in assigns:
        raise NotConstant(f"{cls.name}.{name}")
    return const_eval(
        assigns[name],
        lookup=lambda n: const_eval(assigns[n]) if n in assigns else module_const(repo, cls.module, n),
    )


# --------------------------------------------------------------------------------------
# Obligations, evidence, known findings
# --------------------------------------------------------------------------------------


@dataclass
class Obligation:
    rule: str  # e.g. "C10-R1"
    construct: str  # stable key: qualified construct + normalised text; no line numbers
    status: str  # "ok" | "violated" | "inconclusive"
    detail: str = ""
    loc: str = ""
    nontrivial: bool = True  # did this obligation actually constrain a code site?

    def key(self) -> str:
        return f"{self.rule}|{self.construct}"


class Report:
    def __init__(self, prop: str, tier: str = "quick") -> None:
        self.prop = prop
        self.tier = tier
        self.t0 = time.time()
        self.obs: list[Obligation] = []
        self.rules: dict[str, str] = {}
        self.analysed: dict[str, Any] = {}
        self.notes: list[str] = []
        self.assumptions: list[str] = []

    # -- recording ---------------------------------------------------------------------
    def rule(self, rid: str, text: str) -> None:
        self.rules[rid] = text

    def ok(self, rule: str, construct: str, detail: str = "", loc: str = "", nontrivial: bool = True) -> None:
        self.obs.append(Obligation(rule, construct, "ok", detail, loc, nontrivial))

    def bad(self, rule: str, construct: str, detail: str = "", loc: str = "") -> None:
        self.obs.append(Obligation(rule, construct, "violated", detail, loc))

    def unknown(self, rule: str, construct: str, detail: str = "", loc: str = "") -> None:
        self.obs.append(Obligation(rule, construct, "inconclusive", detail, loc))

    def check(self, cond: bool, rule: str, construct: str, detail: str = "", loc: str = "") -> bool:
        (self.ok if cond else self.bad)(rule, construct, detail, loc)
        return cond

    def floor(self, rule: str, what: str, count: int, minimum: int) -> None:
        """Vacuity floor: fewer instances than confirmed by hand = analysis broken."""
        self.analysed[f"{rule}:{what}"] = count
        if count < minimum:
            raise AnalysisError(
                f"{rule}: only {count} {what} found, floor is {minimum} (anchor moved or rule went vacuous)"
            )

    def note(self, text: str) -> None:
        self.notes.append(text)

    # -- finishing ---------------------------------------------------------------------
    def finish(self, repo: Repo | None = None) -> int:
        known, fixed = load_known(self.prop)
        violated = [o for o in self.obs if o.status == "violated"]
        inconclusive = [o for o in self.obs if o.status == "inconclusive"]
        known_hits: list[Obligation] = []
        new: list[Obligation] = []
        for o in violated:
            if o.key() in known:
                known_hits.append(o)
            else:
                new.append(o)
        stale = [k for k in known if k not in {o.key() for o in violated}]

        lines: list[str] = []
        for o in known_hits:
            lines.append(
                f"KNOWN-FINDING: property={self.prop} rule={o.rule} {o.construct} :: {o.detail} [{o.loc}] input: {known[o.key()].get('input', '')}"
            )
        replay_paths: list[str] = []
        if new:
            rdir = VERIF / "evidence" / "replay"
            rdir.mkdir(parents=True, exist_ok=True)
            for i, o in enumerate(new):
                h = hashlib.sha1(o.key().encode()).hexdigest()[:10]
                rp = rdir / f"{self.prop}-{h}.json"
                rp.write_text(
                    json.dumps(
                        {
                            "property": self.prop,
                            "rule": o.rule,
                            "rule_text": self.rules.get(o.rule, ""),
                            "construct": o.construct,
                            "detail": o.detail,
                            "loc": o.loc,
                            "was_fixed_before": o.key() in fixed,
                        },
                        indent=1,
                    )
                )
                replay_paths.append(str(rp))
                lines.append(f"  violated {o.rule} {o.construct} :: {o.detail} [{o.loc}]")
                lines.append(f"VIOLATION property={self.prop} replay={rp}")
        for o in inconclusive:
            lines.append(f"INCONCLUSIVE property={self.prop} rule={o.rule} {o.construct} :: {o.detail} [{o.loc}]")
        for k in stale:
            lines.append(f"NOTE: listed known finding not reproduced on this tree (repaired or moved?): {k}")

        n_ok = sum(1 for o in self.obs if o.status == "ok")
        distinct_nontrivial = len({o.key() for o in self.obs if o.nontrivial})
        samples = []
        seen_rules: set[str] = set()
        for o in self.obs:
            if o.rule not in seen_rules or o.status != "ok":
                seen_rules.add(o.rule)
                samples.append(
                    {"rule": o.rule, "construct": o.construct, "status": o.status, "detail": o.detail[:300], "loc": o.loc}
                )
            if len(samples) >= 40:
                break
        per_rule: dict[str, dict[str, int]] = {}
        for o in self.obs:
            d = per_rule.setdefault(o.rule, {"ok": 0, "violated": 0, "inconclusive": 0})
            d[o.status] += 1
        ev = {
            "property_id": self.prop,
            "tier": self.tier,
            "seed": int(os.environ.get("VERIF_SEED", "0") or 0),
            "level": "other",
            "coverage": {
                "explanation": "static analysis of /repo source (ast + statement CFG + call graph + constant-evaluated tables); "
                "rules applied: " + " || ".join(f"{k}: {v}" for k, v in sorted(self.rules.items())),
                "obligations": len(self.obs),
                "discharged": n_ok,
                "evaluations": len(self.obs),
                "distinct_nontrivial": distinct_nontrivial,
                "rule": "one obligation per (rule, code site/slot/table row); non-trivial = it matched and constrained at least one concrete construct of the current tree; distinct by (rule, construct key)",
                "samples": samples,
                "per_rule": per_rule,
                "analysed": self.analysed,
                "known_findings_reproduced": [o.key() for o in known_hits],
                "new_violations": [o.key() for o in new],
                "inconclusive": [o.key() for o in inconclusive],
                "repo_digest": repo.digest() if repo else "",
                "modules_parsed": len(repo.modules) if repo else 0,
                "files_consulted": sorted(repo._consulted) if repo else [],
                "notes": self.notes,
                "exhaustive": True,
            },
            "assumptions": self.assumptions
            or [
                "decides the named structural clauses (necessary conditions), not the run-time behaviour",
                "python semantics of the analysed constructs as modelled by the rule; draftsman/OR-tools not analysed",
            ],
            "wall_s": round(time.time() - self.t0, 3),
            "violations": len(new),
        }
        if not os.environ.get("FV_NO_EVIDENCE"):
            evdir = VERIF / "evidence"
            evdir.mkdir(exist_ok=True)
            (evdir / f"{self.prop}.json").write_text(json.dumps(ev, indent=1, default=str))

        for ln in lines:
            print(ln)
        print(
            f"{self.prop} [{self.tier}] obligations={len(self.obs)} discharged={n_ok} "
            f"known={len(known_hits)} new_violations={len(new)} inconclusive={len(inconclusive)} "
            f"wall={ev['wall_s']}s"
        )
        if new:
            return 1
        if inconclusive:
            return 2
        return 0


def load_known(prop: str) -> tuple[dict[str, dict[str, Any]], set[str]]:
    p = VERIF / "known_findings.json"
    known: dict[str, dict[str, Any]] = {}
    fixed: set[str] = set()
    if p.exists():
        data = json.loads(p.read_text())
        for e in data.get("findings", []):
            if e.get("property") != prop:
                continue
            k = f"{e['rule']}|{e['construct']}"
            if e.get("status") == "known":
                known[k] = e
            elif e.get("status") == "fixed":
                fixed.add(k)
    return known, fixed
