"""M8: arithmetic-semantics classifier.

Turns the return behaviour of a folding function, per DSL operator, into terms over the
two operands L and R, recognises the standard idioms of 32-bit wrap, truncating division
and C remainder, and classifies each (site, operator) as CONFORMS / DEVIATES(kind) /
UNRECOGNISED against Factorio's run-time table.  Nothing is evaluated on numbers except
constant sub-expressions (2**31 etc.).
"""

from __future__ import annotations

import ast
from dataclasses import dataclass
from typing import Any

from .core import Func, Repo, call_name, chain, norm

T31 = 2**31
T32 = 2**32
MASK = 0xFFFFFFFF

_BIN = {
    ast.Add: "add", ast.Sub: "sub", ast.Mult: "mul", ast.FloorDiv: "floordiv", ast.Mod: "mod",
    ast.Pow: "pow", ast.LShift: "shl", ast.RShift: "shr", ast.BitAnd: "and", ast.BitOr: "or",
    ast.BitXor: "xor", ast.Div: "div",
}
_CMP = {ast.Eq: "==", ast.NotEq: "!=", ast.Lt: "<", ast.LtE: "<=", ast.Gt: ">", ast.GtE: ">="}
_PYCONST = {"add": lambda a, b: a + b, "sub": lambda a, b: a - b, "mul": lambda a, b: a * b,
            "pow": lambda a, b: a**b if 0 <= b < 200 else None, "shl": lambda a, b: a << b if 0 <= b < 200 else None,
            "shr": lambda a, b: a >> b if 0 <= b < 200 else None, "and": lambda a, b: a & b,
            "or": lambda a, b: a | b, "xor": lambda a, b: a ^ b}

L = ("L",)
R = ("R",)
NONE = ("none",)


def c(v: int) -> tuple:
    return ("c", v)


class SymExec:
    """Path enumeration over a small statement language; expressions become terms."""

    def __init__(self, repo: Repo, f: Func, binding: dict[str, Any], op_name: str | None, op_value: str | None, depth: int = 0) -> None:
        self.repo = repo
        self.f = f
        self.binding = binding  # param name -> term
        self.op_name = op_name
        self.op_value = op_value
        self.depth = depth
        self.unknown: list[str] = []

    # ---- expressions -----------------------------------------------------------------
    def term(self, e: ast.AST, env: dict[str, Any]) -> Any:
        if isinstance(e, ast.Constant):
            if isinstance(e.value, bool):
                return c(int(e.value))
            if isinstance(e.value, int):
                return c(e.value)
            if e.value is None:
                return NONE
            if isinstance(e.value, str):
                return ("s", e.value)
            return ("unk", norm(e))
        if isinstance(e, ast.Name):
            if e.id in env:
                return env[e.id]
            if e.id == self.op_name and self.op_value is not None:
                return ("s", self.op_value)
            return ("var", e.id)
        if isinstance(e, ast.BinOp) and type(e.op) in _BIN:
            return simp(("bin", _BIN[type(e.op)], self.term(e.left, env), self.term(e.right, env)))
        if isinstance(e, ast.UnaryOp):
            v = self.term(e.operand, env)
            if isinstance(e.op, ast.USub):
                return simp(("neg", v))
            if isinstance(e.op, ast.UAdd):
                return v
            if isinstance(e.op, ast.Not):
                return simp(("not", v))
            if isinstance(e.op, ast.Invert):
                return simp(("bin", "xor", v, c(-1)))
        if isinstance(e, ast.Compare):
            if len(e.ops) == 1:
                a, b = self.term(e.left, env), self.term(e.comparators[0], env)
                op = e.ops[0]
                if isinstance(op, (ast.In, ast.NotIn)):
                    if a[0] == "s" and isinstance(e.comparators[0], (ast.Tuple, ast.List, ast.Set)):
                        vals = [x.value for x in e.comparators[0].elts if isinstance(x, ast.Constant)]
                        r = a[1] in vals
                        return c(int(r if isinstance(op, ast.In) else not r))
                    return ("unk", norm(e))
                if type(op) in _CMP:
                    return simp(("cmp", _CMP[type(op)], a, b))
            elif all(type(o) in _CMP for o in e.ops):  # a <= x < b
                parts = []
                left = self.term(e.left, env)
                for o, cmpn in zip(e.ops, e.comparators):
                    right = self.term(cmpn, env)
                    parts.append(simp(("cmp", _CMP[type(o)], left, right)))
                    left = right
                return simp(("and", tuple(parts)))
            return ("unk", norm(e))
        if isinstance(e, ast.BoolOp):
            vals = tuple(self.term(v, env) for v in e.values)
            return simp(("and" if isinstance(e.op, ast.And) else "or", vals))
        if isinstance(e, ast.IfExp):
            return simp(("ite", self.term(e.test, env), self.term(e.body, env), self.term(e.orelse, env)))
        if isinstance(e, ast.Attribute):
            # ctypes.c_int32(x).value
            if e.attr == "value" and isinstance(e.value, ast.Call) and call_name(e.value) == "c_int32" and e.value.args:
                return ("wrap32", self.term(e.value.args[0], env))
            if e.attr == "value" and isinstance(e.value, ast.Call) and call_name(e.value) == "c_uint32" and e.value.args:
                return ("mask32", self.term(e.value.args[0], env))
            return ("var", norm(e))
        if isinstance(e, ast.Call):
            return self.call(e, env)
        if isinstance(e, ast.Tuple):
            return ("tuple", tuple(self.term(x, env) for x in e.elts))
        return ("unk", norm(e))

    def call(self, e: ast.Call, env: dict[str, Any]) -> Any:
        fn = call_name(e)
        args = [self.term(a, env) for a in e.args]
        if isinstance(e.func, ast.Name):
            if fn == "int" and len(args) == 1:
                a = args[0]
                if a[0] == "bin" and a[1] == "div":
                    return ("truncdiv", a[2], a[3])
                if a[0] == "fmod":
                    return ("cmod", a[1], a[2])
                return a
            if fn == "abs" and len(args) == 1:
                return simp(("abs", args[0]))
            if fn == "isinstance":
                return ("isinst",)
            if fn == "bool" and len(args) == 1:
                return simp(("cmp", "!=", args[0], c(0)))
            if fn == "pow" and len(args) == 2:
                return simp(("bin", "pow", args[0], args[1]))
            if fn == "sum" and len(args) == 1:
                return ("sum", args[0])
            if fn == "divmod" and len(args) == 2:
                return ("tuple", (simp(("bin", "floordiv", args[0], args[1])), simp(("bin", "mod", args[0], args[1]))))
        if isinstance(e.func, ast.Attribute):
            base = norm(e.func.value)
            if base == "math" and fn == "trunc" and len(args) == 1:
                a = args[0]
                if a[0] == "bin" and a[1] == "div":
                    return ("truncdiv", a[2], a[3])
                return a
            if base == "math" and fn == "fmod" and len(args) == 2:
                return ("fmod", args[0], args[1])
            if base == "int" and fn == "from_bytes" and e.args:
                inner = e.args[0]
                signed = any(k.arg == "signed" and isinstance(k.value, ast.Constant) and k.value.value is True for k in e.keywords)
                if isinstance(inner, ast.Call) and call_name(inner) == "to_bytes" and isinstance(inner.func, ast.Attribute):
                    src = self.term(inner.func.value, env)
                    width = inner.args[0].value if inner.args and isinstance(inner.args[0], ast.Constant) else None
                    if signed and width == 4 and src[0] == "mask32":
                        return ("wrap32", src[1])
        # helper defined in the repository: inline its return term
        helper = self._resolve_helper(e)
        if helper is not None and self.depth < 3:
            params = [p for p in helper.params if p not in ("self", "cls")]
            binding = {p: a for p, a in zip(params, args)}
            for k in e.keywords:
                if k.arg:
                    binding[k.arg] = self.term(k.value, env)
            sub = SymExec(self.repo, helper, binding, None, None, self.depth + 1)
            paths = sub.run()
            merged = merge_paths(paths)
            if len(merged) == 1 and not merged[0][0]:
                return merged[0][1]
            # several return paths: the paths partition the argument space, so the value is a chain of conditional expressions
            def _guard_term(gs: tuple) -> Any:
                parts = tuple(g if pol else simp(("not", g)) for g, pol in gs)
                return parts[0] if len(parts) == 1 else ("and", parts)
            if merged and all(g for g, _t in merged[:-1]) and all(_t[0] not in ("raise",) for _g, _t in merged) and len(merged) <= 6:
                acc = merged[-1][1]
                for gs, t in reversed(merged[:-1]):
                    acc = ("ite", _guard_term(gs), t, acc)
                return acc
            return ("unk", f"helper {helper.short} has {len(merged)} paths")
        return ("unk", norm(e))

    def _resolve_helper(self, e: ast.Call) -> Func | None:
        fn = e.func
        if isinstance(fn, ast.Name):
            if fn.id in self.f.module.funcs:
                return self.f.module.funcs[fn.id]
            tgt = self.f.module.imports.get(fn.id)
            if tgt:
                modname, _, attr = tgt.rpartition(".")
                m = self.repo.modules.get(modname)
                if m and attr in m.funcs:
                    return m.funcs[attr]
            return None
        if isinstance(fn, ast.Attribute) and isinstance(fn.value, ast.Name):
            recv = fn.value.id
            if recv in ("self", "cls") and self.f.cls:
                return self.repo.method(self.f.cls, fn.attr)
            k = self.f.module.classes.get(recv)
            if k is None and recv in self.f.module.imports:
                modname, _, attr = self.f.module.imports[recv].rpartition(".")
                m = self.repo.modules.get(modname)
                if m and attr in m.classes:
                    k = m.classes[attr]
                elif self.f.module.imports[recv] in self.repo.modules:
                    m2 = self.repo.modules[self.f.module.imports[recv]]
                    return m2.funcs.get(fn.attr)
            if k is not None:
                return self.repo.method(k, fn.attr)
        return None

    # ---- statements ------------------------------------------------------------------
    def run(self) -> list[tuple[tuple, Any]]:
        env = dict(self.binding)
        out: list[tuple[tuple, Any]] = []
        self._block(list(self.f.node.body), env, (), out, [])
        return out

    def _block(self, stmts: list[ast.stmt], env: dict[str, Any], guards: tuple, out: list, cont: list[list[ast.stmt]]) -> None:
        """Execute stmts then the continuation stack `cont`."""
        i = 0
        while i < len(stmts):
            st = stmts[i]
            rest = stmts[i + 1:]
            if isinstance(st, ast.Return):
                out.append((guards, self.term(st.value, env) if st.value is not None else NONE))
                return
            if isinstance(st, ast.Raise):
                out.append((guards, ("raise",)))
                return
            if isinstance(st, ast.If):
                t = self.term(st.test, env)
                if t == c(1) or (t[0] == "c" and t[1]):
                    self._block(list(st.body) + rest, env, guards, out, cont)
                    return
                if t == c(0) or t == NONE:
                    self._block(list(st.orelse) + rest, env, guards, out, cont)
                    return
                self._block(list(st.body) + rest, dict(env), guards + ((t, True),), out, cont)
                self._block(list(st.orelse) + rest, dict(env), guards + ((t, False),), out, cont)
                return
            if isinstance(st, ast.Assign) and len(st.targets) == 1 and isinstance(st.targets[0], ast.Name):
                env[st.targets[0].id] = self.term(st.value, env)
            elif isinstance(st, ast.Assign) and len(st.targets) == 1 and isinstance(st.targets[0], ast.Tuple) and all(isinstance(x, ast.Name) for x in st.targets[0].elts):
                tv = self.term(st.value, env)
                for k_, x in enumerate(st.targets[0].elts):
                    env[x.id] = tv[1][k_] if tv[0] == "tuple" and len(tv[1]) == len(st.targets[0].elts) else ("unk", norm(st.value))
            elif isinstance(st, ast.AnnAssign) and isinstance(st.target, ast.Name) and st.value is not None:
                env[st.target.id] = self.term(st.value, env)
            elif isinstance(st, ast.AugAssign) and isinstance(st.target, ast.Name) and type(st.op) in _BIN:
                cur = env.get(st.target.id, ("var", st.target.id))
                env[st.target.id] = simp(("bin", _BIN[type(st.op)], cur, self.term(st.value, env)))
            elif isinstance(st, ast.Try):
                # normal path through the body; handler paths start from the state at entry
                for h in st.handlers:
                    self._block(list(h.body) + rest, dict(env), guards + ((("except", norm(h.type) if h.type else "*"), True),), out, cont)
                self._block(list(st.body) + list(st.orelse) + list(st.finalbody) + rest, env, guards, out, cont)
                return
            elif isinstance(st, (ast.Expr, ast.Pass, ast.Assert, ast.Import, ast.ImportFrom)):
                pass
            elif isinstance(st, (ast.For, ast.While, ast.With)):
                self.unknown.append(f"unsupported statement {type(st).__name__} at L{st.lineno}")
                out.append((guards, ("unk", f"{type(st).__name__} statement")))
                return
            else:
                self.unknown.append(f"unsupported statement {type(st).__name__} at L{st.lineno}")
            i += 1
        if cont:
            self._block(cont[0], env, guards, out, cont[1:])
        else:
            out.append((guards, NONE))


# ---- term simplification / idiom recognition ---------------------------------------------


def simp(t: Any) -> Any:
    if not isinstance(t, tuple) or not t:
        return t
    k = t[0]
    if k == "bin":
        _, op, a, b = t
        if a[0] == "c" and b[0] == "c" and op in _PYCONST:
            try:
                v = _PYCONST[op](a[1], b[1])
            except Exception:
                v = None
            if v is not None:
                return c(v)
        # mask32
        if op == "and" and b == c(MASK):
            return simp(("mask32", a))
        if op == "and" and a == c(MASK):
            return simp(("mask32", b))
        if op == "mod" and b == c(T32):
            return simp(("mask32", a))
        # ((X + 2^31) % 2^32) - 2^31
        if op == "sub" and b == c(T31) and a[0] == "mask32" and a[1][0] == "bin" and a[1][1] == "add" and c(T31) in (a[1][2], a[1][3]):
            x = a[1][2] if a[1][3] == c(T31) else a[1][3]
            return ("wrap32", x)
        # (mask32(X) ^ 2^31) - 2^31
        if op == "sub" and b == c(T31) and a[0] == "bin" and a[1] == "xor" and c(T31) in (a[2], a[3]):
            m = a[2] if a[3] == c(T31) else a[3]
            if m[0] == "mask32":
                return ("wrap32", m[1])
        # x + 0, x * 1
        if op in ("add", "sub") and b == c(0):
            return a
        if op == "mul" and b == c(1):
            return a
        # a - b*truncdiv(a,b)  -> cmod
        if op == "sub" and b[0] == "bin" and b[1] == "mul":
            for p, q in ((b[2], b[3]), (b[3], b[2])):
                if q[0] == "truncdiv" and q[1] == a and q[2] == p:
                    return ("cmod", a, p)
        return ("bin", op, a, b)
    if k == "mask32":
        inner = t[1]
        if inner[0] in ("mask32", "wrap32"):
            return ("mask32", inner[1])
        return t
    if k == "wrap32":
        inner = t[1]
        if inner[0] in ("mask32", "wrap32"):
            return ("wrap32", inner[1])
        return t
    if k == "neg":
        a = t[1]
        if a[0] == "c":
            return c(-a[1])
        if a[0] == "neg":
            return a[1]
        return t
    if k == "not":
        a = t[1]
        if a[0] == "c":
            return c(int(not a[1]))
        if a[0] == "cmp":
            inv = {"==": "!=", "!=": "==", "<": ">=", ">=": "<", ">": "<=", "<=": ">"}
            return ("cmp", inv[a[1]], a[2], a[3])
        return t
    if k == "cmp":
        _, op, a, b = t
        if a[0] == "s" and b[0] == "s":
            r = {"==": a[1] == b[1], "!=": a[1] != b[1]}.get(op)
            if r is not None:
                return c(int(r))
        if a[0] == "c" and b[0] == "c":
            r = {"==": a[1] == b[1], "!=": a[1] != b[1], "<": a[1] < b[1], "<=": a[1] <= b[1], ">": a[1] > b[1], ">=": a[1] >= b[1]}[op]
            return c(int(r))
        return t
    if k in ("and", "or"):
        vals = []
        for v in t[1]:
            if v[0] == "c":
                truth = bool(v[1])
                if k == "and" and not truth:
                    return c(0)
                if k == "or" and truth:
                    return c(1)
                continue
            if v[0] == k:
                vals.extend(v[1])
            else:
                vals.append(v)
        if not vals:
            return c(1 if k == "and" else 0)
        if len(vals) == 1:
            return vals[0]
        return (k, tuple(vals))
    if k == "ite":
        _, cond, a, b = t
        if cond[0] == "c":
            return a if cond[1] else b
        if cond == ("isinst",):
            return a
        if a == b:
            return a
        r = _recognise_ite(cond, a, b)
        return r if r is not None else t
    if k == "abs":
        if t[1][0] == "c":
            return c(abs(t[1][1]))
        return t
    return t


def _sign_differs(cond: Any, x: Any, y: Any) -> bool | None:
    """True if cond means sign(x) != sign(y), False if it means the signs agree, None otherwise."""
    if cond[0] == "cmp":
        _, op, a, b = cond
        neg = lambda v: ("cmp", "<", v, c(0))  # noqa: E731
        nonneg = lambda v: ("cmp", ">=", v, c(0))  # noqa: E731
        pairs = [(neg(x), neg(y)), (neg(y), neg(x)), (nonneg(x), nonneg(y)), (nonneg(y), nonneg(x))]
        if (a, b) in pairs:
            if op == "!=":
                return True
            if op == "==":
                return False
        for prod in (("bin", "mul", x, y), ("bin", "mul", y, x), ("bin", "xor", x, y), ("bin", "xor", y, x)):
            if a == prod and b == c(0):
                if op == "<":
                    return True
                if op == ">=" and prod[1] == "xor":
                    return False
    if cond[0] == "bin" and cond[1] == "xor":
        neg = lambda v: ("cmp", "<", v, c(0))  # noqa: E731
        if {cond[2], cond[3]} == {neg(x), neg(y)}:
            return True
    return None


def _recognise_ite(cond: Any, a: Any, b: Any) -> Any | None:
    # sign fix of a masked value: M - 2^32 if M >= 2^31 else M
    for cnd, hi, lo in ((cond, a, b), (simp(("not", cond)), b, a)):
        if cnd[0] == "cmp" and lo[0] == "mask32" and cnd[2] == lo:
            if (cnd[1] == ">=" and cnd[3] == c(T31)) or (cnd[1] == ">" and cnd[3] == c(T31 - 1)):
                if hi == ("bin", "sub", lo, c(T32)):
                    return ("wrap32", lo[1])
        if cnd[0] == "mask32" or (cnd[0] == "bin" and cnd[1] == "and"):
            pass
        if cnd[0] == "bin" and cnd[1] == "and" and c(T31) in (cnd[2], cnd[3]) and lo[0] == "mask32" and lo in (cnd[2], cnd[3]):
            if hi == ("bin", "sub", lo, c(T32)):
                return ("wrap32", lo[1])
    # truncating division via abs with sign correction
    def absdiv(t):
        return t[0] == "bin" and t[1] == "floordiv" and t[2][0] == "abs" and t[3][0] == "abs"

    for cnd, neg_branch, pos_branch in ((cond, a, b), (cond, b, a)):
        if absdiv(pos_branch) and neg_branch == ("neg", pos_branch):
            x, y = pos_branch[2][1], pos_branch[3][1]
            sd = _sign_differs(cnd, x, y)
            if sd is not None and ((sd and neg_branch is a) or (not sd and neg_branch is b)):
                return ("truncdiv", x, y)
    # ceil for mixed signs: -(-x // y) if signs differ else x // y
    for cnd, mixed, same in ((cond, a, b), (cond, b, a)):
        if same[0] == "bin" and same[1] == "floordiv":
            x, y = same[2], same[3]
            ceil_forms = [("neg", ("bin", "floordiv", ("neg", x), y)), ("neg", ("bin", "floordiv", x, ("neg", y)))]
            if mixed in ceil_forms:
                sd = _sign_differs(cnd, x, y)
                if sd is not None and ((sd and mixed is a) or (not sd and mixed is b)):
                    return ("truncdiv", x, y)
    # floor quotient corrected upwards: q + 1 if q < 0 and q*y != x else q
    if b[0] == "bin" and b[1] == "floordiv" and a == ("bin", "add", b, c(1)) and cond[0] == "and":
        x, y = b[2], b[3]
        cs = set(cond[1])
        inexact = {("cmp", "!=", ("bin", "mul", b, y), x), ("cmp", "!=", ("bin", "mul", y, b), x), ("cmp", "!=", ("bin", "mod", x, y), c(0))}
        negq = {("cmp", "<", b, c(0))}
        sd_terms = {t for t in cs if _sign_differs(t, x, y) is True}
        if cs & inexact and (cs & negq or sd_terms) and len(cs) == 2:
            return ("truncdiv", x, y)
    # C remainder via abs: -(abs x % abs y) if x < 0 else abs x % abs y
    def absmod(t):
        return t[0] == "bin" and t[1] == "mod" and t[2][0] == "abs" and t[3][0] == "abs"

    for cnd, neg_branch, pos_branch in ((cond, a, b), (simp(("not", cond)), b, a)):
        if absmod(pos_branch) and neg_branch == ("neg", pos_branch):
            x = pos_branch[2][1]
            if cnd == ("cmp", "<", x, c(0)):
                return ("cmod", x, pos_branch[3][1])
    # python modulo corrected: m - y if m != 0 and (m < 0) != (x < 0) else m
    if b[0] == "bin" and b[1] == "mod" and a == ("bin", "sub", b, b[3]) and cond[0] == "and":
        x, y = b[2], b[3]
        cs = set(cond[1])
        nz = ("cmp", "!=", b, c(0))
        sd = {t for t in cs if _sign_differs(t, b, x) is True or _sign_differs(t, x, y) is True}
        if nz in cs and sd and len(cs) == 2:
            return ("cmod", x, y)
    return None


def merge_paths(paths: list[tuple[tuple, Any]]) -> list[tuple[tuple, Any]]:
    """Merge pairs of paths that differ only in the polarity of their last guard into an ite term."""
    paths = [(g, t) for g, t in paths]
    changed = True
    while changed:
        changed = False
        for i in range(len(paths)):
            gi, ti = paths[i]
            if not gi:
                continue
            for j in range(len(paths)):
                if i == j:
                    continue
                gj, tj = paths[j]
                if len(gj) == len(gi) and gi[:-1] == gj[:-1] and gi[-1][0] == gj[-1][0] and gi[-1][1] is True and gj[-1][1] is False:
                    if gi[-1][0][0] == "except":
                        continue
                    merged = simp(("ite", gi[-1][0], ti, tj))
                    if merged[0] != "ite" or ti == tj:
                        new = [p for k, p in enumerate(paths) if k not in (i, j)]
                        new.append((gi[:-1], merged))
                        paths = new
                        changed = True
                        break
            if changed:
                break
    return paths


# ---- classification ----------------------------------------------------------------------

ARITH_ORACLE = {
    "+": "add", "-": "sub", "*": "mul", "**": "pow", "^": "pow", "<<": "shl", ">>": "shr",
    "AND": "and", "OR": "or", "XOR": "xor", "&": "and", "|": "or",
}
CMP_ORACLE = {"==": "==", "=": "==", "!=": "!=", "≠": "!=", "<": "<", "<=": "<=", ">": ">", ">=": ">="}


@dataclass
class Verdict:
    status: str  # CONFORMS | DEVIATES | UNRECOGNISED | ABSENT
    kind: str = ""
    detail: str = ""


def show(t: Any) -> str:
    if not isinstance(t, tuple):
        return str(t)
    k = t[0]
    if k == "L":
        return "L"
    if k == "R":
        return "R"
    if k == "c":
        return str(t[1])
    if k == "s":
        return repr(t[1])
    if k == "bin":
        sym = {"add": "+", "sub": "-", "mul": "*", "floordiv": "//", "mod": "%", "pow": "**", "shl": "<<", "shr": ">>", "and": "&", "or": "|", "xor": "^", "div": "/"}[t[1]]
        return f"({show(t[2])} {sym} {show(t[3])})"
    if k == "cmp":
        return f"({show(t[2])} {t[1]} {show(t[3])})"
    if k in ("and", "or"):
        return "(" + f" {k} ".join(show(x) for x in t[1]) + ")"
    if k == "ite":
        return f"({show(t[2])} if {show(t[1])} else {show(t[3])})"
    if k in ("wrap32", "mask32", "neg", "abs", "not", "sum"):
        return f"{k}({show(t[1])})"
    if k in ("truncdiv", "cmod", "fmod"):
        return f"{k}({show(t[1])}, {show(t[2])})"
    if k == "none":
        return "None"
    if k == "var":
        return t[1]
    return str(t)


def _mentions_only_operands(g: Any) -> bool:
    if not isinstance(g, tuple):
        return True
    if g[0] in ("L", "R", "c"):
        return True
    if g[0] in ("var", "unk", "s", "except", "isinst"):
        return False
    return all(_mentions_only_operands(x) if isinstance(x, tuple) and x and isinstance(x[0], str) else all(_mentions_only_operands(y) for y in x) if isinstance(x, tuple) else True for x in g[1:])


def _is_zero_guard(g: Any) -> bool:
    return g in (("cmp", "==", R, c(0)), ("not", R)) or g == ("cmp", "==", c(0), R)


def _atoms(g: Any) -> list[Any]:
    if isinstance(g, tuple) and g and g[0] in ("and", "or"):
        out = []
        for x in g[1]:
            out += _atoms(x)
        return out
    return [g]


def _undefined_region(op: str, pos: list[Any]) -> bool:
    """All positive guards only restrict R to a region where the property does not define the run-time result."""
    allowed = []
    if op in ("**", "^"):
        allowed = [("cmp", "<", R, c(0))]
    elif op in ("<<", ">>"):
        allowed = [("cmp", "<", R, c(0)), ("cmp", ">=", R, c(32)), ("cmp", ">", R, c(31))]
    if not allowed:
        return False
    for gd in pos:
        if gd[0] == "and":
            return False
        if not all(a in allowed for a in _atoms(gd)):
            return False
    return True


def _ev(t: Any, l: int, r: int) -> Any:
    k = t[0]
    if k == "L":
        return l
    if k == "R":
        return r
    if k == "c":
        return t[1]
    if k == "neg":
        return -_ev(t[1], l, r)
    if k == "abs":
        return abs(_ev(t[1], l, r))
    if k == "not":
        return not _ev(t[1], l, r)
    if k == "cmp":
        a, b = _ev(t[2], l, r), _ev(t[3], l, r)
        return {"==": a == b, "!=": a != b, "<": a < b, "<=": a <= b, ">": a > b, ">=": a >= b}[t[1]]
    if k == "and":
        return all(_ev(x, l, r) for x in t[1])
    if k == "or":
        return any(_ev(x, l, r) for x in t[1])
    if k == "ite":
        return _ev(t[2], l, r) if _ev(t[1], l, r) else _ev(t[3], l, r)
    if k == "wrap32":
        return _wrap(_ev(t[1], l, r))
    if k == "mask32":
        return _ev(t[1], l, r) & MASK
    if k in ("truncdiv", "cmod"):
        a, b = _ev(t[1], l, r), _ev(t[2], l, r)
        if b == 0:
            raise ValueError("div0")
        q = abs(a) // abs(b)
        q = -q if (a < 0) != (b < 0) else q
        return q if k == "truncdiv" else a - b * q
    if k == "bin" and t[1] in ("floordiv", "mod"):
        a, b = _ev(t[2], l, r), _ev(t[3], l, r)
        if b == 0:
            raise ValueError("div0")
        return a // b if t[1] == "floordiv" else a % b
    if k == "bin":
        a, b = _ev(t[2], l, r), _ev(t[3], l, r)
        f = _PYCONST.get(t[1])
        if f is None:
            raise ValueError(t[1])
        v = f(a, b)
        if v is None:
            raise ValueError("range")
        return v
    raise ValueError(k)


def _wrap(v: int) -> int:
    return ((v + T31) % T32) - T31


def _oracle(op: str, l: int, r: int) -> int | None:
    """Factorio's table from the property text (None where the property does not define the result)."""
    if op == "+":
        return _wrap(l + r)
    if op == "-":
        return _wrap(l - r)
    if op == "*":
        return _wrap(l * r)
    if op in ("**", "^"):
        return _wrap(l**r) if 0 <= r <= 64 else None
    if op == "<<":
        return _wrap(l << r) if 0 <= r < 32 else None
    if op == ">>":
        return l >> r if 0 <= r < 32 else None
    if op == "/":
        if r == 0:
            return 0
        q = abs(l) // abs(r)
        return _wrap(-q if (l < 0) != (r < 0) else q)
    if op == "%":
        if r == 0:
            return 0
        q = abs(l) // abs(r)
        return l - r * (-q if (l < 0) != (r < 0) else q)
    if op in ("AND", "&"):
        return l & r
    if op in ("OR", "|"):
        return l | r
    if op == "XOR":
        return l ^ r
    return None


_SAMPLE = [0, 1, -1, 2, -2, 3, -3, 5, 7, -7, 10, 16, 31, 32, 33, 40, 63, 64, 100, 101, 255, 1000, 1001, 65535, 65536, -65536, T31 - 1, -T31]


def _witness_against_oracle(op: str, guards: tuple, const: int):
    seen = False
    for l in _SAMPLE:
        for r in _SAMPLE:
            try:
                if not all(bool(_ev(x, l, r)) == pol for x, pol in guards if _mentions_only_operands(x)):
                    continue
            except Exception:
                continue
            want = _oracle(op, l, r)
            if want is None:
                continue
            seen = True
            if want != const:
                return (l, r, want)
    return None if seen else "no-sample"


def classify(op: str, paths: list[tuple[tuple, Any]]) -> Verdict:
    """paths: return paths of the folding function specialised to operator `op`."""
    paths = merge_paths(paths)
    # a conditional expression that no idiom recognised is two guarded paths
    expanded: list[tuple[tuple, Any]] = []
    work = list(paths)
    while work:
        g, t = work.pop(0)
        if isinstance(t, tuple) and t and t[0] == "ite" and _mentions_only_operands(t[1]) and (
            NONE in (t[2], t[3]) or (op not in CMP_ORACLE and op not in ("&&", "||"))
        ):
            work.insert(0, (g + ((t[1], True),), t[2]))
            work.insert(1, (g + ((t[1], False),), t[3]))
        else:
            expanded.append((g, t))
    paths = expanded
    live = [(g, t) for g, t in paths if not (g and any(x[0][0] == "except" for x in g))]
    exc = [(g, t) for g, t in paths if g and any(x[0][0] == "except" for x in g)]
    if not live or all(t == NONE for _, t in live):
        return Verdict("ABSENT", "", "no folding branch: declines to fold")
    for g, t in exc:
        if t not in (NONE, c(0)):
            return Verdict("UNRECOGNISED", "", f"exception handler returns {show(t)}")
    main: list[tuple[tuple, Any]] = []
    zero_guarded = False
    for g, t in live:
        pos = [x for x, pol in g if pol]
        neg = [x for x, pol in g if not pol]
        if any(not _mentions_only_operands(x) for x, _ in g):
            # guards on diagnostics objects etc. (`if diagnostics is not None`) do not affect the value
            g2 = tuple((x, pol) for x, pol in g if _mentions_only_operands(x))
            pos = [x for x, pol in g2 if pol]
            neg = [x for x, pol in g2 if not pol]
        if any(_is_zero_guard(x) for x in pos):
            zero_guarded = True
            if t not in (c(0), NONE):
                return Verdict("DEVIATES", "zero-divisor", f"divisor 0 yields {show(t)}; run time gives 0")
            continue
        if any(x == ("cmp", "!=", R, c(0)) for x in neg):
            zero_guarded = True
            if t not in (c(0), NONE):
                return Verdict("DEVIATES", "zero-divisor", f"divisor 0 yields {show(t)}; run time gives 0")
            continue
        if any(x == ("cmp", "!=", R, c(0)) for x in pos):
            zero_guarded = True
        if any(_is_zero_guard(x) for x in neg):
            zero_guarded = True
        if pos and t in (NONE,):
            continue  # a guard that declines to fold
        if pos and t[0] == "c":
            # a guarded constant result: accepted outright for the run-time-undefined regions (negative exponent, shift amount outside 0..31),
            # otherwise compared with the oracle on boundary witnesses of the guard region (the checker's own table, not repository code)
            if _undefined_region(op, pos):
                continue
            w = _witness_against_oracle(op, g, t[1])
            if w == "no-sample":
                return Verdict("UNRECOGNISED", "", f"guarded constant result {show(t)} under {[show(x) for x in pos]}")
            if w is not None:
                return Verdict("DEVIATES", "guarded-constant", f"returns {show(t)} under {[show(x) for x in pos]}, but e.g. L={w[0]}, R={w[1]} gives {w[2]} at run time")
            continue
        main.append((g, t))
    if not main:
        return Verdict("ABSENT", "", "every path declines")
    terms = {t for _, t in main}
    if len(terms) != 1:
        # several guarded result terms: evaluate the path whose operand-only guards hold on each boundary sample and compare
        # with the oracle table.  A disagreement is a deviation with a witness; agreement on the sample proves nothing.
        w = _paths_witness(op, main)
        if w is not None:
            return Verdict("DEVIATES", "witness", f"{show(w[4])[:120]}: L={w[0]}, R={w[1]} gives {w[3]} where run time gives {w[2]}")
        return Verdict("UNRECOGNISED", "", "several distinct result terms: " + " | ".join(sorted(show(t) for t in terms)))
    t = next(iter(terms))
    if t == NONE:
        return Verdict("ABSENT", "", "declines to fold")
    v = _classify_term(op, t, zero_guarded)
    if v.status == "UNRECOGNISED" and op in ("+", "-", "*", "/", "%", "**", "<<", ">>", "AND", "OR", "XOR"):
        # no idiom matched: interpret the extracted term (not repository code) on the boundary sample and compare with the oracle table.
        # A disagreement is a deviation with a witness; agreement on the sample proves nothing and stays UNRECOGNISED.
        w = _term_witness(op, t)
        if w is not None:
            return Verdict("DEVIATES", "witness", f"{show(t)[:120]}: L={w[0]}, R={w[1]} gives {w[3]} where run time gives {w[2]}")
    return v


def _paths_witness(op: str, paths: list[tuple[tuple, Any]]):
    """First boundary sample on which the guarded path that applies returns something else than the oracle table."""
    for l in _SAMPLE:
        for r in _SAMPLE:
            want = _oracle(op, l, r)
            if want is None or (op in ("/", "%") and r == 0):
                continue
            for g, t in paths:
                try:
                    if not all(bool(_ev(x, l, r)) == pol for x, pol in g if _mentions_only_operands(x)):
                        continue
                    got = _ev(t, l, r)
                except Exception:
                    break  # a guard or term the evaluator does not know: no statement about this sample
                if isinstance(got, bool):
                    got = int(got)
                if isinstance(got, int) and got != want:
                    return (l, r, want, got, t)
                break  # first applicable path is the one taken
    return None


def _term_witness(op: str, t: Any):
    for l in _SAMPLE:
        for r in _SAMPLE:
            want = _oracle(op, l, r)
            if want is None or (op in ("/", "%") and r == 0):
                continue
            try:
                got = _ev(t, l, r)
            except Exception:
                continue
            if isinstance(got, bool):
                got = int(got)
            if isinstance(got, int) and got != want:
                return (l, r, want, got)
    return None


def _strip_wrap(t: Any) -> tuple[Any, str]:
    if t[0] == "wrap32":
        return t[1], "wrap32"
    if t[0] == "mask32":
        return t[1], "mask32"
    return t, ""


def _classify_term(op: str, t: Any, zero_guarded: bool) -> Verdict:
    shown = show(t)
    if op in CMP_ORACLE:
        want = CMP_ORACLE[op]
        core = t
        if core[0] == "ite" and core[2] == c(1) and core[3] == c(0):
            core = core[1]
        if core[0] == "cmp" and core[2] == L and core[3] == R:
            if core[1] == want:
                return Verdict("CONFORMS", "", shown)
            return Verdict("DEVIATES", "comparator", f"{op} folded as {shown}")
        flip = {"<": ">", ">": "<", "<=": ">=", ">=": "<=", "==": "==", "!=": "!="}
        if core[0] == "cmp" and core[2] == R and core[3] == L:
            if flip[core[1]] == want:
                return Verdict("CONFORMS", "", shown)
            return Verdict("DEVIATES", "comparator", f"{op} folded as {shown}")
        return Verdict("UNRECOGNISED", "", shown)
    if op in ("&&", "||"):
        nz = lambda v: ("cmp", "!=", v, c(0))  # noqa: E731
        want = ("and" if op == "&&" else "or", (nz(L), nz(R)))
        core = t
        if core[0] == "ite" and core[2] == c(1) and core[3] == c(0):
            core = core[1]
        if core == want or core == (want[0], (nz(R), nz(L))):
            return Verdict("CONFORMS", "", shown)
        if core[0] in ("and", "or"):
            return Verdict("DEVIATES", "logic", f"{op} folded as {shown}")
        return Verdict("UNRECOGNISED", "", shown)
    if op == "/":
        core, w = _strip_wrap(t)
        if core == ("truncdiv", L, R) and w in ("", "wrap32"):
            return Verdict("CONFORMS", "", shown) if zero_guarded else Verdict("DEVIATES", "zero-divisor", "no zero-divisor guard")
        if core == ("bin", "floordiv", L, R):
            return Verdict("DEVIATES", "floor-division", f"{shown}: rounds toward -inf, run time truncates toward zero")
        return Verdict("UNRECOGNISED", "", shown)
    if op == "%":
        core, w = _strip_wrap(t)
        if core == ("cmod", L, R) and w in ("", "wrap32"):
            return Verdict("CONFORMS", "", shown) if zero_guarded else Verdict("DEVIATES", "zero-divisor", "no zero-divisor guard")
        if core == ("bin", "mod", L, R):
            return Verdict("DEVIATES", "python-modulo", f"{shown}: sign of the divisor, run time takes the sign of the dividend")
        return Verdict("UNRECOGNISED", "", shown)
    if op in ARITH_ORACLE:
        want = ARITH_ORACLE[op]
        core, w = _strip_wrap(t)
        if want in ("add", "sub", "mul", "pow", "shl"):
            ok_core = core == ("bin", want, L, R) or (want == "shl" and core[0] == "bin" and core[1] == "shl" and core[2] == L)
            if not ok_core:
                if core[0] == "bin" and core[2:] == (L, R):
                    return Verdict("DEVIATES", "operator", f"{op} folded as {shown}")
                if core[0] == "bin" and core[1] == want and core[2:] == (R, L) and want in ("sub", "pow", "shl"):
                    return Verdict("DEVIATES", "operand-order", f"{op} folded as {shown}")
                if core[0] == "bin" and core[1] == want and core[2:] == (R, L):
                    return Verdict("CONFORMS", "", shown) if w == "wrap32" else Verdict("DEVIATES", "no-wrap", shown)
                return Verdict("UNRECOGNISED", "", shown)
            if w == "wrap32":
                return Verdict("CONFORMS", "", shown)
            if w == "mask32":
                return Verdict("DEVIATES", "unsigned-mask", f"{shown}: masked to 32 bits but not sign-corrected (1 << 31 gives +2147483648)")
            return Verdict("DEVIATES", "no-wrap", f"{shown}: unbounded Python integer, run time wraps to signed 32 bits")
        if want == "shr":
            if core == ("bin", "shr", L, R) and w in ("", "wrap32"):
                return Verdict("CONFORMS", "", shown)
            if core[0] == "bin" and core[1] == "shr" and core[2] in (("mask32", L),):
                return Verdict("DEVIATES", "logical-shift", f"{shown}: logical shift, run time is arithmetic")
            if core[0] == "bin" and core[2:] == (L, R):
                return Verdict("DEVIATES", "operator", f"{op} folded as {shown}")
            return Verdict("UNRECOGNISED", "", shown)
        if want in ("and", "or", "xor"):
            if core in (("bin", want, L, R), ("bin", want, R, L)) and w in ("", "wrap32"):
                return Verdict("CONFORMS", "", shown)
            if core[0] == "bin" and core[2:] in ((L, R), (R, L)):
                return Verdict("DEVIATES", "operator", f"{op} folded as {shown}")
            return Verdict("UNRECOGNISED", "", shown)
    return Verdict("UNRECOGNISED", "", f"operator {op!r} not in the oracle table: {shown}")


def operator_literals(f: Func, op_name: str) -> list[str]:
    """String literals the parameter `op_name` is compared with inside f."""
    out: list[str] = []
    for n in ast.walk(f.node):
        if isinstance(n, ast.Compare) and isinstance(n.left, ast.Name) and n.left.id == op_name:
            for cmpn in n.comparators:
                for s in ast.walk(cmpn):
                    if isinstance(s, ast.Constant) and isinstance(s.value, str) and s.value not in out:
                        out.append(s.value)
    return out


def fold_paths(repo: Repo, f: Func, op_name: str, left: str, right: str, op_value: str) -> tuple[list[tuple[tuple, Any]], list[str]]:
    se = SymExec(repo, f, {left: L, right: R}, op_name, op_value)
    paths = se.run()
    return paths, se.unknown
