"""M6: the IR schema (which fields of which IR node class can hold a reference to another
node) read from ir/nodes.py, and the extraction of `isinstance` ladders from
consumer-enumerating functions."""

from __future__ import annotations

import ast
from dataclasses import dataclass

from .core import AnalysisError, ClassInfo, Func, Repo, chain, norm, walk_local

REF_NAMES = {"ValueRef", "SignalRef", "BundleRef"}


@dataclass(frozen=True)
class Slot:
    cls: str  # IR node class
    field: str  # attribute on the node
    sub: str = ""  # "" | "[]" (list of refs) | "[].attr" (list of records) | "[0]" (tuple head) | '["key"]'

    def __str__(self) -> str:
        return f"{self.cls}.{self.field}{self.sub}"


def _mentions_ref(ann: ast.AST | None) -> bool:
    if ann is None:
        return False
    if isinstance(ann, ast.Constant) and isinstance(ann.value, str):
        return any(r in ann.value for r in REF_NAMES)
    return any(isinstance(n, ast.Name) and n.id in REF_NAMES for n in ast.walk(ann))


def _ann_shape(ann: ast.AST | None) -> str:
    """'' scalar ref, '[]' list of refs, '[0]' tuple whose first element is a ref."""
    if ann is None:
        return ""
    for n in ast.walk(ann):
        if isinstance(n, ast.Subscript) and isinstance(n.value, ast.Name):
            if n.value.id in ("list", "List", "Sequence") and _mentions_ref(n.slice):
                return "[]"
            if n.value.id in ("tuple", "Tuple") and isinstance(n.slice, ast.Tuple) and n.slice.elts and _mentions_ref(n.slice.elts[0]):
                return "[0]"
    return ""


def ir_classes(repo: Repo) -> list[ClassInfo]:
    base = repo.cls("IRNode")
    out = [c for c in repo.subclasses("IRNode")]
    if len(out) < 10:
        raise AnalysisError(f"IR hierarchy: only {len(out)} subclasses of IRNode found (13 expected)")
    return out


def ir_schema(repo: Repo) -> list[Slot]:
    """Reference-holding slots per concrete IR node class, from annotations in ir/nodes.py."""
    slots: list[Slot] = []
    record_fields: dict[str, list[str]] = {}
    # record (dataclass) types whose fields hold refs: annotation mentions a ref type, or the
    # attribute docstring that follows the field says so (DeciderCondition uses `Any` + docstring)
    nodes_mod = repo.cls("IRNode").module
    for c in nodes_mod.classes.values():
        if any(isinstance(d, ast.Name) and d.id == "dataclass" or isinstance(d, ast.Call) and norm(d.func) == "dataclass" for d in c.node.decorator_list):
            fs = []
            body = c.node.body
            for i, st in enumerate(body):
                if isinstance(st, ast.AnnAssign) and isinstance(st.target, ast.Name):
                    doc = ""
                    if i + 1 < len(body) and isinstance(body[i + 1], ast.Expr) and isinstance(body[i + 1].value, ast.Constant) and isinstance(body[i + 1].value.value, str):
                        doc = body[i + 1].value.value
                    if _mentions_ref(st.annotation) or ("ValueRef" in doc and st.target.id.endswith("operand")):
                        fs.append(st.target.id)
            if fs:
                record_fields[c.name] = fs
    for c in ir_classes(repo):
        init = c.methods.get("__init__")
        if not init:
            continue
        param_ann = {a.arg: a.annotation for a in init.node.args.args + init.node.args.kwonlyargs}
        for n in walk_local(init.node):
            tgt = val = ann = None
            if isinstance(n, ast.AnnAssign):
                tgt, val, ann = n.target, n.value, n.annotation
            elif isinstance(n, ast.Assign) and len(n.targets) == 1:
                tgt, val = n.targets[0], n.value
            if not (isinstance(tgt, ast.Attribute) and isinstance(tgt.value, ast.Name) and tgt.value.id == "self"):
                continue
            fieldname = tgt.attr
            if ann is None and isinstance(val, ast.Name) and val.id in param_ann:
                ann = param_ann[val.id]
            if ann is None:
                continue
            if _mentions_ref(ann):
                slots.append(Slot(c.name, fieldname, _ann_shape(ann)))
                continue
            # list[Record] where Record has ref fields
            for sub in ast.walk(ann):
                if isinstance(sub, ast.Name) and sub.id in record_fields:
                    for rf in record_fields[sub.id]:
                        slots.append(Slot(c.name, fieldname, f"[].{rf}"))
    # documented dict slot: a dict assigned to IREntityPropWrite.inline_bundle_condition whose
    # literal key holds a lowered reference ("input_source"); discovered from the writer
    for f in repo.all_funcs():
        for n in walk_local(f.node):
            if isinstance(n, ast.Assign) and any(isinstance(t, ast.Attribute) and t.attr == "inline_bundle_condition" for t in n.targets):
                d = n.value
                if isinstance(d, ast.Name):
                    d = _local_dict(f, d.id)
                if isinstance(d, ast.Dict):
                    for k in d.keys:
                        if isinstance(k, ast.Constant) and k.value == "input_source":
                            s = Slot("IREntityPropWrite", "inline_bundle_condition", '["input_source"]')
                            if s not in slots:
                                slots.append(s)
    if len(slots) < 15:
        raise AnalysisError(f"IR schema: only {len(slots)} reference slots discovered (>= 15 expected)")
    return slots


def _local_dict(f: Func, name: str) -> ast.AST | None:
    for n in walk_local(f.node):
        if isinstance(n, ast.Assign) and any(isinstance(t, ast.Name) and t.id == name for t in n.targets):
            return n.value
        if isinstance(n, ast.AnnAssign) and isinstance(n.target, ast.Name) and n.target.id == name:
            return n.value
    return None


@dataclass
class Branch:
    classes: list[str]
    region: list[ast.AST]  # test + body statements
    node: ast.If


def ladder(f: Func, var: str) -> list[Branch]:
    """All `if isinstance(var, C...)` branches in f (any nesting depth), var given by name."""
    out = []
    for n in walk_local(f.node):
        if isinstance(n, ast.If):
            classes: list[str] = []
            for sub in ast.walk(n.test):
                if isinstance(sub, ast.Call) and isinstance(sub.func, ast.Name) and sub.func.id == "isinstance" and len(sub.args) == 2:
                    if isinstance(sub.args[0], ast.Name) and sub.args[0].id == var:
                        t = sub.args[1]
                        for e in t.elts if isinstance(t, ast.Tuple) else [t]:
                            if isinstance(e, ast.Name):
                                classes.append(e.id)
            if classes:
                out.append(Branch(classes, [n.test] + list(n.body), n))
    return out


def touched(branch: Branch, var: str) -> tuple[dict[str, set[str]], set[str]]:
    """Fields of `var` accessed in the branch: {field: {'load','store'}} and the names of all
    attributes accessed on anything (for nested record fields)."""
    fields: dict[str, set[str]] = {}
    any_attr_store: set[str] = set()
    for part in branch.region:
        for n in walk_local(part):
            if isinstance(n, ast.Attribute):
                if isinstance(n.value, ast.Name) and n.value.id == var:
                    kind = "store" if isinstance(n.ctx, ast.Store) else "load"
                    fields.setdefault(n.attr, set()).add(kind)
                if isinstance(n.ctx, ast.Store):
                    any_attr_store.add(n.attr)
            # var.f[...] = ...  /  var.f.append(...)
            if isinstance(n, ast.Subscript) and isinstance(n.ctx, ast.Store):
                base = n.value
                if isinstance(base, ast.Attribute) and isinstance(base.value, ast.Name) and base.value.id == var:
                    fields.setdefault(base.attr, set()).add("store")
    return fields, any_attr_store


def attrs_loaded_in(branch: Branch) -> set[str]:
    out: set[str] = set()
    for part in branch.region:
        for n in walk_local(part):
            if isinstance(n, ast.Attribute):
                out.add(n.attr)
    return out


def covers(repo: Repo, branch_classes: list[str], cls: str) -> bool:
    c = repo.cls(cls)
    names = {k.name for k in repo.mro(c)}
    return any(b in names for b in branch_classes)
