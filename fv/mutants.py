"""Checker self-test catalogue: (property, id, file, old text, new text, expected occurrences (0 = any >= 1), 'fire'|'silent', needle).

Breaking variants: one instance of a rule broken; the check must report a violation whose rule/construct/detail contains `needle`.
Benign twins: behaviour-preserving edits (renames on both sides, reordering, reformatting, helper extraction); the check must stay silent.
Variants are applied to a scratch copy of /repo (never to /repo) and never produce VIOLATION lines.
"""

OPT = "dsl_compiler/src/ir/optimizer.py"
CF = "dsl_compiler/src/lowering/constant_folder.py"
EL = "dsl_compiler/src/lowering/expression_lowerer.py"
SL = "dsl_compiler/src/lowering/statement_lowerer.py"
ML = "dsl_compiler/src/lowering/memory_lowerer.py"
AN = "dsl_compiler/src/semantic/analyzer.py"
MB = "dsl_compiler/src/layout/memory_builder.py"
CP = "dsl_compiler/src/layout/connection_planner.py"
PL = "dsl_compiler/src/layout/planner.py"
EP = "dsl_compiler/src/layout/entity_placer.py"
SA = "dsl_compiler/src/layout/signal_analyzer.py"
ILS = "dsl_compiler/src/layout/integer_layout_solver.py"
TG = "dsl_compiler/src/layout/tile_grid.py"
PP = "dsl_compiler/src/layout/power_planner.py"
WR = "dsl_compiler/src/layout/wire_router.py"
EE = "dsl_compiler/src/emission/entity_emitter.py"
EM = "dsl_compiler/src/emission/emitter.py"
TR = "dsl_compiler/src/parsing/transformer.py"
PRE = "dsl_compiler/src/parsing/preprocessor.py"
PAR = "dsl_compiler/src/parsing/parser.py"
GR = "dsl_compiler/grammar/facto.lark"
ST = "dsl_compiler/src/ast/statements.py"
SIG = "dsl_compiler/src/common/signals.py"
DIAG = "dsl_compiler/src/common/diagnostics.py"
CLI = "dsl_compiler/cli.py"
CMP = "compile.py"
LIB = "lib/math.facto"
BLD = "dsl_compiler/src/ir/builder.py"

CATALOGUE = [
    # ---- C01 ----
    ("C01", "c01-swap-levels", GR, "mul: power ( MUL_OP power )*", "mul: power ( ADD_OP power )*", 1, "fire", "C01-R1"),
    ("C01", "c01-mod-in-add", GR, 'MUL_OP: "*" | "/" | "%"\nADD_OP: "+" | "-"', 'MUL_OP: "*" | "/"\nADD_OP: "+" | "-" | "%"', 1, "fire", "'%'"),
    ("C01", "c01-swap-refs", EL, "result = self.ir_builder.arithmetic(expr.op, left_ref, right_ref, output_type, expr)", "result = self.ir_builder.arithmetic(expr.op, right_ref, left_ref, output_type, expr)", 1, "fire", "C01-R4"),
    ("C01", "c01-pow-map", EL, 'factorio_op = {"**": "^"}.get(expr.op, expr.op)\n\n        self.parent.ensure_signal_registered(output_type, left_signal_type)', 'factorio_op = {"**": "*"}.get(expr.op, expr.op)\n\n        self.parent.ensure_signal_registered(output_type, left_signal_type)', 1, "fire", "C01-R3"),
    ("C01", "c01-or-eq", EL, 'left_bool = self.ir_builder.decider("!=", left_ref, 0, 1, output_type, expr)\n        self._attach_expr_context(left_bool.source_id, expr)\n\n        if isinstance(right_ref, int):\n            right_ref = self.ir_builder.const(output_type, right_ref, expr)\n            # Force materialization - deciders can\'t compare inline integers\n            self.ir_builder.annotate_signal(right_ref, metadata={"name": f"__literal_{right_ref}"})\n\n        right_bool = self.ir_builder.decider("!=", right_ref, 0, 1, output_type, expr)\n        self._attach_expr_context(right_bool.source_id, expr)\n\n        sum_ref', 'left_bool = self.ir_builder.decider("==", left_ref, 0, 1, output_type, expr)\n        self._attach_expr_context(left_bool.source_id, expr)\n\n        if isinstance(right_ref, int):\n            right_ref = self.ir_builder.const(output_type, right_ref, expr)\n            # Force materialization - deciders can\'t compare inline integers\n            self.ir_builder.annotate_signal(right_ref, metadata={"name": f"__literal_{right_ref}"})\n\n        right_bool = self.ir_builder.decider("!=", right_ref, 0, 1, output_type, expr)\n        self._attach_expr_context(right_bool.source_id, expr)\n\n        sum_ref', 1, "fire", "_lower_logical_or"),
    ("C01", "c01-type-table", AN, "if isinstance(left_type, SignalValue) and isinstance(right_type, IntValue):\n            return left_type, None", "if isinstance(left_type, SignalValue) and isinstance(right_type, IntValue):\n            return right_type, None", 1, "fire", "C01-R6"),
    ("C01", "c01-benign-rule-rename", GR, "mul: power ( MUL_OP power )*\n", "mul: power ( MUL_OP power )*\n// comment only\n", 1, "silent", ""),
    # ---- C02 ----
    ("C02", "c02-any-everything", EL, 'return SignalRef("signal-anything", bundle_ref.source_id, source_ast=expr)', 'return SignalRef("signal-everything", bundle_ref.source_id, source_ast=expr)', 1, "fire", "lower_bundle_any"),
    ("C02", "c02-no-flag", BLD, "        if isinstance(operand, SignalRef):\n            arith_op.needs_wire_separation = True\n", "", 1, "fire", "bundle_arithmetic"),
    ("C02", "c02-lock-red", PL, 'locked[(source_id, right_operand)] = "green"', 'locked[(source_id, right_operand)] = "red"', 1, "fire", "non-default colour"),
    ("C02", "c02-const-twice", EL, "                            constant_signals[signal_name] = const_value\n                            continue\n", "                            constant_signals[signal_name] = const_value\n", 1, "fire", "C02-R3"),
    # ---- C03 ----
    ("C03", "c03-ge", MB, 'role="memory_write_gate",\n            debug_info=self._make_debug_info(op, "write_gate"),\n            operation=">",', 'role="memory_write_gate",\n            debug_info=self._make_debug_info(op, "write_gate"),\n            operation=">=",', 1, "fire", "complementary"),
    ("C03", "c03-green-wire", MB, 'signal_name=module.signal_type,  # Use ACTUAL signal, not internal ID\n            wire_color="red",  # ✅ RED for data/feedback\n            source_side="output",\n            sink_side="input",\n        )\n        self.layout_plan.add_wire_connection(hold_to_hold)', 'signal_name=module.signal_type,  # Use ACTUAL signal, not internal ID\n            wire_color="green",\n            source_side="output",\n            sink_side="input",\n        )\n        self.layout_plan.add_wire_connection(hold_to_hold)', 1, "fire", "C03-R3"),
    ("C03", "c03-no-hold-enable", MB, "            signal_graph.add_sink(op.write_enable.source_id, module.hold_gate.ir_node_id)\n", "", 1, "fire", "wired to both gates"),
    ("C03", "c03-benign-ge1", MB, 'role="memory_write_gate",\n            debug_info=self._make_debug_info(op, "write_gate"),\n            operation=">",\n            left_operand="signal-W",\n            right_operand=0,', 'role="memory_write_gate",\n            debug_info=self._make_debug_info(op, "write_gate"),\n            left_operand="signal-W",\n            operation=">",\n            right_operand=0,', 1, "silent", ""),
    # ---- C04 ----
    ("C04", "c04-no-always", MB, "if is_always_write and self._can_use_arithmetic_feedback(op, module):", "if self._can_use_arithmetic_feedback(op, module):", 1, "fire", "C04-R1"),
    ("C04", "c04-no-hold-flag", MB, "        module.write_gate_unused = True\n        module.hold_gate_unused = True\n", "        module.write_gate_unused = True\n", 1, "fire", "hold gate is flagged unused"),
    ("C04", "c04-left-only", MB, "            if isinstance(ir_node.right, SignalRef) and self._operation_depends_on_memory(\n                ir_node.right.source_id, memory_id, visited\n            ):\n                return True\n", "", 1, "fire", "_operation_depends_on_memory"),
    # ---- C05 ----
    ("C05", "c05-prio-swap", TR, "return (set_expr, reset_expr, True)  # set_priority=True (SR latch)", "return (set_expr, reset_expr, False)  # set_priority=True (SR latch)", 1, "fire", "priority constant"),
    ("C05", "c05-inv-table", MB, '"<=": ">",', '"<=": ">=",', 1, "fire", "inversion of '<='"),
    ("C05", "c05-fb-red", MB, 'wire_color="green",  # Green for feedback', 'wire_color="red",  # Green for feedback', 1, "fire", "C05-R4"),
    ("C05", "c05-benign-dict-order", MB, '            "<": ">=",\n            "<=": ">",', '            "<=": ">",\n            "<": ">=",', 1, "silent", ""),
    # ---- C06 ----
    ("C06", "c06-ge0", EE, 'entity.set_circuit_condition(signal_dict, ">", 0)', 'entity.set_circuit_condition(signal_dict, ">=", 0)', 0, "fire", "C06-R1"),
    ("C06", "c06-inline-any-output", EP, "        if not (isinstance(right, int) and output_value == 1):\n            return None\n", "        if not isinstance(right, int):\n            return None\n", 1, "fire", "C06-R2"),
    ("C06", "c06-wildcard-swap", SL, 'special_signal = "signal-everything" if func_name == "all" else "signal-anything"', 'special_signal = "signal-anything" if func_name == "all" else "signal-everything"', 1, "fire", "C06-R3"),
    # ---- C07 ----
    ("C07", "c07-sibling-drift", CMP, "        use_mst_optimization=optimize,\n", "        use_mst_optimization=True,\n", 1, "fire", "C07-R1"),
    ("C07", "c07-key-rename", EP, "            output_value=output_value,\n            output_value_signal_id=", "            out_value=output_value,\n            output_value_signal_id=", 0, "fire", "C07-R4"),
    ("C07", "c07-version", EM, "self.blueprint.version = (2, 0)", "self.blueprint.version = (1, 1)", 1, "fire", "version"),
    ("C07", "c07-benign-both-rename", EP, "PLACEHOLDER-NOT-PRESENT", "x", 0, "silent", ""),
    # ---- C08 ----
    ("C08", "c08-no-overlap", ILS, "        self._add_no_overlap_constraint(model, positions)\n", "", 1, "fire", "C08-R1"),
    ("C08", "c08-footprint", EP, 'entity_type="arithmetic-combinator",\n            position=pos,\n            footprint=(1, 2),', 'entity_type="arithmetic-combinator",\n            position=pos,\n            footprint=(1, 1),', 1, "fire", "C08-R2"),
    ("C08", "c08-span", PL, "max_wire_span: float = 9.0,", "max_wire_span: float = 10.0,", 1, "fire", "C08-R3"),
    # ---- C09 ----
    ("C09", "c09-xy-swap", EL, "        x_expr = expr.args[1]\n        y_expr = expr.args[2]", "        x_expr = expr.args[2]\n        y_expr = expr.args[1]", 1, "fire", "C09-R1"),
    ("C09", "c09-fallback-ignores-fixed", ILS, "            if entity_id in self.fixed_positions:\n                positions[entity_id] = self.fixed_positions[entity_id]\n            else:\n                row = idx // grid_size\n                col = idx % grid_size\n                positions[entity_id] = (col * spacing, row * spacing)\n                idx += 1", "            row = idx // grid_size\n            col = idx % grid_size\n            positions[entity_id] = (col * spacing, row * spacing)\n            idx += 1", 1, "fire", "_fallback_grid_layout"),
    ("C09", "c09-delete-user", EP, "        for entity_id in entities_to_remove:\n            removed = self.plan.entity_placements.pop(entity_id, None)", "        for entity_id in [k for k, v in self.plan.entity_placements.items() if v.position is None and v.role == \"user_entity\"] + entities_to_remove:\n            removed = self.plan.entity_placements.pop(entity_id, None)", 1, "fire", "C09-R4"),
    # ---- C10 ----
    ("C10", "c10-drop-rewrite", OPT, "        op.right = update(op.right)\n    elif isinstance(op, IRDecider):", "    elif isinstance(op, IRDecider):", 1, "fire", "IRArith.right"),
    ("C10", "c10-key-drop-type", OPT, 'return f"arith:{op.op}:{left_key}:{right_key}:{op.output_type}"', 'return f"arith:{op.op}:{left_key}:{right_key}"', 1, "fire", "IRArith.output_type"),
    ("C10", "c10-pass-order", CLI, "        constant_propagation = ConstantPropagationOptimizer()\n", "        constant_propagation = CSEOptimizer()\n", 1, "fire", "pass order"),
    ("C10", "c10-pass-order-swap", CLI, "        constant_propagation = ConstantPropagationOptimizer()\n        ir_operations = constant_propagation.optimize(ir_operations)\n        repoint_signal_refs(lowerer.signal_refs, constant_propagation.replacements)\n        # Second: common subexpression elimination\n        cse = CSEOptimizer()\n        ir_operations = cse.optimize(ir_operations)\n        repoint_signal_refs(lowerer.signal_refs, cse.replacements)\n",
     "        cse = CSEOptimizer()\n        ir_operations = cse.optimize(ir_operations)\n        repoint_signal_refs(lowerer.signal_refs, cse.replacements)\n        constant_propagation = ConstantPropagationOptimizer()\n        ir_operations = constant_propagation.optimize(ir_operations)\n        repoint_signal_refs(lowerer.signal_refs, constant_propagation.replacements)\n", 1, "fire", "pass order"),
    ("C10", "c10-benign-helper-rename", OPT, "_map_operand_refs", "_walk_operand_refs", 0, "silent", ""),
    # ---- C11 ----
    ("C11", "c11-no-wrap", CF, "return wrap_int32(left * right)", "return left * right", 1, "fire", "folds '*'"),
    ("C11", "c11-floor", CF, "return wrap_int32(trunc_div(left, right))", "return left // right", 1, "fire", "floor-division"),
    ("C11", "c11-logical-shift", CF, "            return left >> right\n\n        # Bitwise", "            return (left & 0xFFFFFFFF) >> right\n\n        # Bitwise", 1, "fire", "logical-shift"),
    ("C11", "c11-benign-wrap-form", "dsl_compiler/src/common/int32.py", "return ((value + 2**31) % 2**32) - 2**31", "masked = value & 0xFFFFFFFF\n    return masked - 2**32 if masked >= 2**31 else masked", 1, "silent", ""),
    # ---- C12 ----
    ("C12", "c12-key-no-colour", CP, "            source_color_key = (edge.source_entity_id, color)", "            source_color_key = (edge.source_entity_id, edge.source_entity_id)", 1, "fire", "C12-R1"),
    ("C12", "c12-reuse-any", CP, "        return len(networks) == 0 or network_id in networks", "        return True", 1, "fire", "C12-R2"),
    ("C12", "c12-same-merge", WR, "                if merge_a is not None and merge_a == merge_b:\n                    continue\n", "                if merge_a == merge_b:\n                    continue\n", 1, "fire", "C12-R3"),
    # ---- C13 ----
    ("C13", "c13-no-wildcards", SA, "        excluded.update(WILDCARD_SIGNALS)\n", "", 1, "silent", ""),  # AVAILABLE list contains no wildcard: removing the exclusion changes nothing
    ("C13", "c13-wildcard-in-list", SIG, '    "signal-A",\n    "signal-B",', '    "signal-A",\n    "signal-each",\n    "signal-B",', 1, "silent", ""),  # still excluded by the pool builder
    ("C13", "c13-both", SA, "        excluded.update(RESERVED_SIGNALS)\n", "", 1, "fire", "reserved signals cannot be allocated"),
    ("C13", "c13-mangle-explicit", SA, "            return signal_type\n\n        lookup_entry = entry", "            return signal_type.lower()\n\n        lookup_entry = entry", 1, "fire", "C13-R3"),
    # ---- C14 ----
    ("C14", "c14-downgrade", AN, '                self.diagnostics.error(\n                    f"Undefined variable \'{expr.name}\'", stage="semantic", node=expr\n                )', '                self.diagnostics.warning(\n                    f"Undefined variable \'{expr.name}\'", stage="semantic", node=expr\n                )', 1, "fire", "downgraded"),
    ("C14", "c14-no-recursion", AN, "        self._analyzing_functions.add(node.name)\n", "", 1, "fire", "being analysed"),
    ("C14", "c14-swallow", AN, "        for stmt in node.statements:\n            self.visit(stmt)", "        for stmt in node.statements:\n            try:\n                self.visit(stmt)\n            except Exception:\n                pass", 1, "fire", "swallow"),
    ("C14", "c14-no-raise", CLI, "raise_errors=True", "raise_errors=False", 1, "fire", "raise_errors"),
    ("C14", "c14-benign-msg", AN, "f\"Undefined variable '{expr.name}'\", stage=\"semantic\", node=expr", "f\"Unknown variable '{expr.name}'\", stage=\"semantic\", node=expr", 1, "silent", ""),
    # ---- C15 ----
    ("C15", "c15-no-restore", EL, "            self.parent.signal_refs = old_signal_refs\n", "", 1, "fire", "signal_refs"),
    ("C15", "c15-no-snapshot", EL, "        old_entity_refs = self.parent.entity_refs.copy()\n", "        old_entity_refs = {}\n", 1, "fire", "entity_refs"),
    ("C15", "c15-wildcard-type", EL, 'PURE_VIRTUAL_SIGNALS = {"signal-anything", "signal-everything", "signal-each"}', 'PURE_VIRTUAL_SIGNALS = {"signal-anything", "signal-everything"}', 1, "fire", "C15-R4"),
    # ---- C16 ----
    ("C16", "c16-le", ST, "            while i < stop:", "            while i <= stop:", 1, "fire", "strictly before"),
    ("C16", "c16-order", ST, "                result.append(i)\n                i += step\n        elif step < 0:", "                i += step\n                result.append(i)\n        elif step < 0:", 1, "fire", "appends the value, then advances"),
    ("C16", "c16-no-cutback", SL, "            self.parent.signal_refs = {\n                k: (saved_signal_refs[k] if k in iteration_locals else v)\n                for k, v in self.parent.signal_refs.items()\n                if k in saved_signal_refs\n            }\n", "", 1, "fire", "signal_refs"),
    ("C16", "c16-benign-range", ST, "PLACEHOLDER-NOT-PRESENT", "x", 0, "silent", ""),
    # ---- C17 ----
    ("C17", "c17-no-add", PRE, "                processed_files.add(file_path)\n", "", 1, "fire", "recorded as processed"),
    ("C17", "c17-fresh-set", PRE, "                    processed_files=processed_files,\n", "                    processed_files=set(),\n", 1, "fire", "shares the processed-files set"),
    ("C17", "c17-min", LIB, "return ((a <= b) : a) + ((a > b) : b);", "return ((a < b) : a) + ((a > b) : b);", 1, "fire", "min"),
    ("C17", "c17-clamp", LIB, "((x >= low) : x) + ((x < low) : low)", "((x > low) : x) + ((x < low) : low)", 1, "fire", "clamp"),
    ("C17", "c17-benign-abs", LIB, "return ((x >= 0) : x) + ((x < 0) : (0 - x));", "return ((x > 0) : x) + ((x < 0) : (0 - x));", 1, "silent", ""),  # abs(0) = 0 either way
    # ---- C18 ----
    ("C18", "c18-spacing", PP, "spacing = 2.0 * supply_radius", "spacing = 3.0 * supply_radius", 1, "fire", "C18-R2"),
    ("C18", "c18-no-gate", PL, "        if not self.power_pole_type:\n            return\n\n        # Update tile grid with user-specified positions BEFORE placing poles", "        # Update tile grid with user-specified positions BEFORE placing poles", 1, "fire", "C18-R3"),
    ("C18", "c18-reach", EM, "if dist <= min(pole.maximum_wire_distance, neighbor.maximum_wire_distance):", "if dist <= max(pole.maximum_wire_distance, neighbor.maximum_wire_distance):", 1, "fire", "C18-R4"),
    # ---- C19 ----
    ("C19", "c19-unsorted", CP, "                for sink in sorted(bidir_sinks):", "                for sink in bidir_sinks:", 1, "fire", "C19-R1 ConnectionPlanner._populate_wire_connections"),
    ("C19", "c19-unsorted-router", WR, "    for start_node in sorted(pending_nodes):", "    for start_node in pending_nodes:", 1, "fire", "C19-R1 plan_wire_colors"),
    ("C19", "c19-id-sort", CP, '            merge_list = sorted(\n                source_merge_edges.keys(),\n                key=lambda merge_id: [\n                    int(part) if part.isdigit() else part\n                    for part in re.split(r"(\\d+)", merge_id)\n                ],\n            )\n', '            merge_list = sorted(source_merge_edges.keys(), key=lambda k: id(k))\n', 1, "fire", "C19-R2"),
    # ---- C20 ----
    ("C20", "c20-mark-on-decl", SL, "            self.parent.signal_refs[stmt.name] = value_ref\n            self.parent.annotate_signal_ref(stmt.name, value_ref, stmt)\n            return\n\n        # Handle Bundle type declarations", "            self.parent.signal_refs[stmt.name] = value_ref\n            self.parent.referenced_signal_names.add(stmt.name)\n            self.parent.annotate_signal_ref(stmt.name, value_ref, stmt)\n            return\n\n        # Handle Bundle type declarations", 1, "fire", "C20-R1"),
    ("C20", "c20-no-wire", EP, "                self.signal_graph.add_sink(signal_id, anchor_id)\n", "", 1, "fire", "C20-R2"),
    ("C20", "c20-label-key", EP, 'debug_info["variable"] = declared_name', 'debug_info["var"] = declared_name', 1, "fire", "C20-R3"),
    # ---- rules added after the third wave of seeds ----
    ("C10", "c10-fold-or1", OPT, "                            output_val = self._get_const_value(op.output_value, const_map)\n                            if folded and output_val is None:\n",
     "                            output_val = self._get_const_value(op.output_value, const_map) or 1\n                            if folded and output_val is None:\n", 1, "fire", "C10-R9"),
    ("C10", "c10-fold-default1", OPT, "                            if folded and output_val is None:\n                                # The comparison holds but the forwarded value is only\n                                # known at run time: the decider has to stay\n                                continue\n",
     "                            if output_val is None:\n                                output_val = 1\n", 1, "fire", "C10-R9"),
    ("C10", "c10-fold-benign-ifexp", OPT, "                            final_value = output_val if folded else 0\n", "                            final_value = 0\n                            if folded:\n                                final_value = output_val\n", 1, "silent", ""),
    ("C18", "c18-bbox-inf", PP, "        user_min_x, user_min_y = 0.0, 0.0\n", "        user_min_x, user_min_y = math.inf, math.inf\n", 1, "fire", "min-accumulator"),
    ("C18", "c18-bbox-benign-int", PP, "        user_max_x, user_max_y = 0.0, 0.0\n", "        user_max_x, user_max_y = 0, 0\n", 1, "silent", ""),
    ("C20", "c20-override-cond", EP, "            if declared_name:\n                debug_info[\"variable\"] = declared_name", "            if declared_name and not getattr(op, \"debug_label\", None):\n                debug_info[\"variable\"] = declared_name", 1, "fire", "additionally conditioned"),
    ("C16", "c16-scope-rewrite", AN, "        source = proj_expr.expr\n        target_type = proj_expr.target_type\n", "        source = proj_expr.expr\n        target_type = proj_expr.target_type\n        if self.current_scope.lookup(getattr(source, \"name\", \"\")) is not None:\n            return None\n", 1, "fire", "C16-R6"),
    ("C16", "c16-restore-keys-only", SL, "                k: (saved_signal_refs[k] if k in iteration_locals else v)\n", "                k: v\n", 1, "fire", "outer ASTLowerer.signal_refs value back"),
    ("C01", "c01-literal-zero", EL, "            ref = self.ir_builder.const(output_type, const_value, expr)\n        else:\n            ref = self.ir_builder.arithmetic(\"+\", value_ref, 0, output_type, expr)", "            ref = self.ir_builder.const(output_type, const_value, expr)\n        else:\n            ref = self.ir_builder.const(output_type, 0, expr)", 1, "fire", "C01-R8"),
    ("C20", "c20-no-repoint-cse", "dsl_compiler/cli.py", "        repoint_signal_refs(lowerer.signal_refs, cse.replacements)\n", "", 1, "fire", "C20-R6"),
    ("C06", "c06-inline-output", EP, "        if (getattr(usage, \"debug_metadata\", None) or {}).get(\"is_output\"):\n            return None\n", "", 1, "fire", "is_output"),
    ("C13", "c13-raw-bundle-keys", EP, "                signals={\n                    self.signal_analyzer.get_signal_name(name): value\n                    for name, value in op.signals.items()\n                },\n", "                signals=op.signals,\n", 1, "fire", "C13-R4"),
    ("C13", "c13-builtin-not-registered", "dsl_compiler/src/lowering/lowerer.py", "            if self.ir_builder.signal_registry.resolve(signal_type) is None:\n                self.ir_builder.signal_registry.register(\n                    signal_type, signal_type, self._infer_signal_category(signal_type)\n                )\n            return\n", "            return\n", 1, "fire", "C13-R2"),
    ("C06", "c06-virtual-category", EE, "                        signal_category = _infer_signal_type(signal_name)\n", "                        signal_category = \"virtual\"\n", 1, "fire", "C06-R13"),
    ("C01", "c01-const-first", EE, "            condition_kwargs[\"first_signal\"] = right_operand\n            condition_kwargs[\"first_signal_networks\"] = right_operand_wires\n", "            condition_kwargs[\"first_signal\"] = \"signal-0\"\n            condition_kwargs[\"second_signal\"] = right_operand\n", 1, "fire", "C01-R12"),
    ("C01", "c01-mirror-table", EE, "_MIRRORED_COMPARATOR = {\"<\": \">\", \">\": \"<\", \"<=\": \">=\",", "_MIRRORED_COMPARATOR = {\"<\": \">\", \">\": \"<\", \"<=\": \">\",", 1, "fire", "mirror table"),
    ("C05", "c05-latch-value-not-exported", SA, "                record_export(op.value, f\"memory:{op.memory_id}.value\")\n", "", 1, "fire", "C05-R9"),
    ("C15", "c15-param-retype", EL, "        for ref in self.parent.param_values.values():\n            if isinstance(ref, SignalRef) and ref.source_id == source_ref.source_id:\n                return None\n", "", 1, "fire", "C15-R10"),
    ("C20", "c20-bundle-alias", SA, "            if isinstance(ref, (SignalRef, BundleRef)):\n                # Check if this source has suppress_materialization", "            if isinstance(ref, SignalRef):\n                # Check if this source has suppress_materialization", 1, "fire", "C20-R8"),
    ("C20", "c20-bundle-repoint", OPT, "        if isinstance(ref, (SignalRef, BundleRef)):\n            seen: set[str] = set()", "        if isinstance(ref, SignalRef):\n            seen: set[str] = set()", 1, "fire", "C20-R8"),
    ("C02", "c02-copycount-any-literal", EP, "inlined_literal = isinstance(op.output_value, SignalRef) and isinstance(output_value, int)", "inlined_literal = isinstance(output_value, int)", 2, "fire", "C02-R7"),
    ("C04", "c04-reverse-colour-unguarded", CP, "            if (sink_id, source_id, signal_name) not in self._edge_wire_colors:\n                self._edge_wire_colors[(sink_id, source_id, signal_name)] = wire_color\n", "            self._edge_wire_colors[(sink_id, source_id, signal_name)] = wire_color\n", 1, "fire", "C04-R7"),
    ("C13", "c13-label-candidate", SA, "        if entry.debug_label and not candidates:\n", "        if entry.debug_label and entry.debug_label not in candidates:\n", 1, "fire", "C13-R9"),
    ("C14", "c14-dynamic-select-unchecked", AN, "            self.validate_signal_type_with_error(expr.signal_type, expr, \"in bundle selection\")\n", "", 1, "fire", "BundleSelectExpr"),
    ("C15", "c15-memory-id-shared", ML, '            memory_id = self.ir_builder.next_id(f"mem_{stmt.name}")\n            while self.ir_builder.get_operation(f"mem_create_{memory_id}") is not None:\n                # mem_<name>_<n> can be the id of a memory the program called <name>_<n>\n                memory_id = self.ir_builder.next_id(f"mem_{stmt.name}")\n', '            pass\n', 1, "fire", "fresh per expansion"),
    ("C16", "c16-memory-refs-not-cut", SL, "            self.parent.memory_refs = {\n                k: (saved_memory_refs[k] if k in iteration_locals else v)\n                for k, v in self.parent.memory_refs.items()\n                if k in saved_memory_refs\n            }\n", "", 1, "fire", "memory_refs"),
    ("C01", "c01-placeholder-compares-operand", EE, "            condition_kwargs[\"comparator\"] = \"=\" if holds else \"!=\"\n            condition_kwargs[\"first_signal\"] = \"signal-0\"\n            condition_kwargs[\"constant\"] = 0\n", "            condition_kwargs[\"first_signal\"] = \"signal-0\"\n            condition_kwargs[\"constant\"] = right_operand\n", 1, "fire", "placeholder"),
    ("C02", "c02-filter-no-resolver", EL, "            output_const = ConstantFolder.extract_constant_int(\n                expr.output_value,\n                self.diagnostics,\n                symbol_resolver=self._resolve_constant_symbol,\n            )\n            if output_const is None:", "            output_const = ConstantFolder.extract_constant_int(expr.output_value, self.diagnostics)\n            if output_const is None:", 1, "fire", "C02-R8"),
    ("C02", "c02-nested-merge-one-level", CP, "                if inner_merge and ir_source_id not in expanded_merges:\n", "                if False:\n", 1, "fire", "C02-R10"),
    ("C10", "c10-fold-bundle-const", OPT, "            if isinstance(op, IRConst) and not op.signals:\n                const_map[op.node_id] = op", "            if isinstance(op, IRConst):\n                const_map[op.node_id] = op", 1, "fire", "C10-R14"),
    ("C20", "c20-strip-source", CLI, "program = parser.parse(source_code.rstrip(), source_name)", "program = parser.parse(source_code.strip(), source_name)", 1, "fire", "C20-R10"),
    ("C13", "c13-bundle-member-unregistered", EL, "                    # A member named in the literal is a signal the program uses explicitly\n                    self.parent.ensure_signal_registered(signal_name)\n", "", 1, "fire", "BundleLiteral member"),
    ("C02", "c02-gate-left-only", BLD, "        condition_signal = left if isinstance(left, SignalRef) else right\n        if isinstance(condition_signal, SignalRef):", "        condition_signal = left\n        if isinstance(left, SignalRef):", 1, "fire", "either side"),
    ("C02", "c02-filter-no-lock", PL, "                        locked[(right_signal_id.source_id, right_operand)] = \"green\"\n", "                        pass\n", 1, "fire", "filter form"),
    ("C01", "c01-no-condition-colours", PL, "                injected_count = self._inject_condition_wire_colors(placement, injected_count)\n", "", 1, "fire", "C01-R14"),
    ("C02", "c02-colour-default-red", CP, "        if len(colors) == 1:\n            return colors.pop()\n        return \"red\"", "        return \"red\"", 1, "fire", "C02-R11"),
    ("C15", "c15-params-merged", EL, "        self.parent.param_values = dict(param_values)\n", "        self.parent.param_values.update(param_values)\n", 1, "fire", "C15-R2"),
    ("C15", "c15-return-place-unbound", EL, "                        self.parent.returned_entity_id = entity_id\n                        break\n", "                        break\n", 1, "fire", "C15-R15"),
    ("C06", "c06-silent-skip", SL, "            else:\n                self._error(\n                    f\"Cannot set '{prop_name}': '{entity_name}' does not refer to a placed entity\",\n                    stmt,\n                )\n", "", 1, "fire", "C06-R15"),
    ("C19", "c19-dict-order-from-set", CP, '            merge_list = sorted(\n                source_merge_edges.keys(),\n                key=lambda merge_id: [\n                    int(part) if part.isdigit() else part\n                    for part in re.split(r"(\\d+)", merge_id)\n                ],\n            )\n', '            merge_list = list(source_merge_edges)\n', 1, "fire", "C19-R1"),
    ("C14", "c14-projection-drops-name", AN, "            if source.signal_type is not None:\n                # The inner type is dropped: report an unknown or reserved name first\n                self.get_expr_type(source)\n", "", 1, "fire", "C14-R14"),
    ("C14", "c14-second-write-from-loop", ML, "        if memory_id in self._written_memory_ids:\n", "        if False:\n", 1, "fire", "C14-R15"),
    ("C14", "c14-nested-literal-unwrapped", TR, "        if isinstance(value, SignalLiteral) and value.signal_type is None:", "        if isinstance(value, SignalLiteral):", 1, "fire", "C14-R14"),
    ("C14", "c14-empty-bundle-is-dynamic", AN, "        if isinstance(bundle_type, DynamicBundleValue):\n            # The members", "        if isinstance(bundle_type, DynamicBundleValue) or not bundle_type.signal_types:\n            # The members", 1, "fire", "C14-R16"),
    ("C13", "c13-duplicate-implicit-member", AN, "                    if signal_name in seen_signals:\n", "                    if signal_name in seen_signals and not element_type.signal_type.is_implicit:\n", 1, "fire", "C13-R10"),
    ("C13", "c13-pool-peek", SA, "        signal_name = self._available_signal_pool[self._signal_pool_index]\n", "        signal_name = self._available_signal_pool[(self._signal_pool_index + 1) % len(self._available_signal_pool)]\n", 1, "fire", "C13-R11"),
    ("C15", "c15-probe-wrong-key", ML, '        if self.ir_builder.get_operation(f"mem_create_{memory_id}") is not None:\n            # Declared again', '        if self.ir_builder.get_operation(f"mem_create_{stmt.name}") is not None:\n            # Declared again', 1, "fire", "C15-R17"),
    ("C16", "c16-step-name-ignored", TR, "                if i + 1 < len(items):\n                    step_value", "                if i + 1 < len(items) and isinstance(items[i + 1], int):\n                    step_value", 1, "fire", "number or a name"),
    ("C12", "c12-relay-helper-no-isolation", CP, "            if (\n                node_dist_to_source <= span_limit\n                and node_dist_to_ideal <= 3.0\n                and node.can_route_network(network_id, wire_color)\n            ):", "            if (\n                node_dist_to_source <= span_limit\n                and node_dist_to_ideal <= 3.0\n            ):", 1, "fire", "can_route_network"),
    ("C15", "c15-decl-typed-by-global", SL, "            if symbol is not None and symbol.defined_at is not stmt:\n                # Declared in a function or loop body: the name found is somebody else's\n                symbol = None\n", "", 1, "fire", "C15-R19"),
    ("C04", "c04-loop-input-shares-red", PL, "                                if source_id != entity_id:\n                                    locked[(source_id, feedback_signal)] = \"green\"\n", "                                pass\n", 1, "fire", "C04-R10"),
    ("C01", "c01-merge-operand-default-red", CP, "                if edge.originating_merge_id == source_entity_id\n", "                if False\n", 1, "fire", "C01-R16"),
    ("C15", "c15-nested-call-dynamic-scope", EL, "            self.parent.signal_refs = outer_signals.copy()\n", "", 1, "fire", "C15-R20"),
    ("C03", "c03-const-one-any-signal", ML, "                    and const_node.value == 1\n                    and write_enable.signal_type == \"signal-W\"\n", "                    and const_node.value == 1\n", 1, "fire", "exempt from retyping"),
    ("C01", "c01-compound-gate-placeholder-type", EL, "        if isinstance(output_value_ref, SignalRef):\n            # The gate copies the count of the signal it outputs: inside a function the\n            # analyzer only knows the parameter's placeholder type\n            output_type = output_value_ref.signal_type\n        elif result_signal:", "        if result_signal and not isinstance(output_value_ref, int):\n            output_type = result_signal\n        elif isinstance(output_value_ref, SignalRef):\n            output_type = output_value_ref.signal_type\n        elif result_signal:", 2, "fire", "C01-R17"),
    ("C01", "c01-projection-folded-into-gate", EL, "        if isinstance(source_op, IRDecider) and source_op.copy_count_from_input:\n            return None\n", "", 1, "fire", "declines for a pass-through"),
    ("C10", "c10-suppressed-despite-readers", SA, "            if producer.debug_metadata.get(\"suppress_materialization\"):\n                entry.should_materialize = self._has_live_consumer(entry)\n", "            if producer.debug_metadata.get(\"suppress_materialization\"):\n                entry.should_materialize = False\n", 1, "fire", "C10-R18"),
    ("C16", "c16-iterator-reads-parameter", SL, "        self.parent.param_values = {\n            k: v for k, v in saved_param_values.items() if k not in iteration_locals\n        }\n", "", 1, "fire", "C16-R11"),
    ("C02", "c02-wildcard-counts-scalar", EP, "        if left_operand in (\"signal-anything\", \"signal-everything\") and isinstance(\n            right_operand, str\n        ):", "        if False:", 1, "fire", "C02-R14"),
    ("C02", "c02-bundle-const-inlined", SA, "            if producer.signals:\n                # A bundle constant has no single literal that could be inlined\n                entry.should_materialize = True\n                return\n", "", 1, "fire", "C02-R15"),
    ("C12", "c12-no-fanout-conflicts", WR, "                        graph[joining].add(other)\n                        graph[other].add(joining)\n", "                        pass\n", 1, "fire", "C12-R10"),
    ("C02", "c02-gate-lock-by-merge-id", PL, "                        junction = self._wire_merge_junctions.get(node_id)\n", "                        junction = None\n", 1, "fire", "C02-R16"),
    ("C02", "c02-wildcard-row-uncoloured", PL, "                if source_entity and wired:\n", "                if source_entity and edge_key in self.connection_planner._edge_wire_colors:\n", 1, "fire", "C02-R17"),
    ("C04", "c04-cell-output-pinned-red", PL, "                if feedback_signal:\n                    # Whatever else arrives", "                if feedback_signal:\n                    locked[(entity_id, feedback_signal)] = \"red\"\n                    # Whatever else arrives", 1, "fire", "C04-R11"),
    ("C15", "c15-memory-entry-by-name", ML, "        if mem_info is not None and getattr(mem_info.symbol, \"defined_at\", None) is not stmt:\n            # The table keeps one entry per name: this one is another declaration's\n            mem_info = None\n", "", 1, "fire", "C15-R14"),
    ("C14", "c14-bundle-comparison-as-value", AN, "                self.diagnostics.error(\n                    \"A bundle comparison cannot be used as a value.\\n\"", "                self.diagnostics.info(\n                    \"A bundle comparison cannot be used as a value.\\n\"", 1, "fire", "bare bundle comparison"),
    ("C05", "c05-inlined-latch-ignores-priority", MB, "        if op.latch_type == MEMORY_TYPE_RS_LATCH:\n            # Reset priority: an active reset also keeps the SET row from firing,", "        if False:\n            # Reset priority: an active reset also keeps the SET row from firing,", 1, "fire", "op.latch_type"),
    ("C14", "c14-zero-trip-body-unchecked", AN, "        dry_run = not iteration_values and bool(node.body)\n", "        dry_run = False\n", 1, "fire", "C14-R4"),
    ("C16", "c16-iterator-without-value", AN, "value_type=IntValue(value=value),", "value_type=IntValue(),", 1, "fire", "C16-R12"),
    ("C10", "c10-suppressed-constant-materialised", SA, "        if isinstance(entry.producer, IRConst) and not entry.producer.signals:\n            # A plain constant needs no combinator for that: its readers take the literal\n            return False\n", "", 1, "fire", "plain constant"),
    ("C12", "c12-merge-ids-as-strings", CP, '            merge_list = sorted(\n                source_merge_edges.keys(),\n                key=lambda merge_id: [\n                    int(part) if part.isdigit() else part\n                    for part in re.split(r"(\\d+)", merge_id)\n                ],\n            )\n', '            merge_list = sorted(source_merge_edges.keys())\n', 1, "fire", "C12-R12"),
    ("C15", "c15-local-int-materialised", SL, "            if stmt.type_name == \"int\" or (symbol and isinstance(symbol.value_type, IntValue)):", "            if symbol and isinstance(symbol.value_type, IntValue):", 1, "fire", "C15-R27"),
    ("C15", "c15-counter-id-unprobed", ML, "            while self.ir_builder.get_operation(f\"mem_create_{memory_id}\") is not None:\n                # mem_<name>_<n> can be the id of a memory the program called <name>_<n>\n                memory_id = self.ir_builder.next_id(f\"mem_{stmt.name}\")\n", "", 1, "fire", "C15-R28"),
    ("C03", "c03-passthrough-enable-renamed", ML, "                if isinstance(source_node, IRDecider) and not source_node.copy_count_from_input:", "                if isinstance(source_node, IRDecider):", 1, "fire", "pass-through gate"),
    ("C02", "c02-projection-into-bundle-op", EL, "        if source_op.output_type in (\"signal-each\", \"signal-everything\", \"signal-anything\"):\n            return None\n", "", 1, "fire", "C02-R18"),
    ("C01", "c01-any-decider-is-boolean", EL, "                return op.output_value in (0, 1) and not op.copy_count_from_input", "                return True", 1, "fire", "C01-R23"),
    ("C05", "c05-rs-latch-single-test", MB, "                \"compare_type\": \"or\",\n                \"first_signal\": output_signal,\n                \"first_signal_wires\": {\"green\"},  # feedback\n                \"second_constant\": 0,\n            },\n            {\n                \"comparator\": \"=\",\n                \"compare_type\": \"and\",\n                \"first_signal\": reset_signal_name,\n                \"first_signal_wires\": {\"red\"},\n                \"second_constant\": 0,\n            },\n        ]", "                \"compare_type\": \"or\",\n                \"first_signal\": output_signal,\n                \"first_signal_wires\": {\"green\"},  # feedback\n                \"second_constant\": 0,\n            },\n        ]", 1, "fire", "C05-R12"),
    ("C20", "c20-callee-local-counts-as-read", EL, "            if outer is None or outer[0].get(name) is value:\n                self.parent.referenced_signal_names.add(name)", "            self.parent.referenced_signal_names.add(name)", 1, "fire", "C20-R12"),
    ("C02", "c02-named-condition-scalar-gate", EL, "        if isinstance(output_value_ref, BundleRef):\n            # cond : bundle - the whole bundle passes while the named condition is non-zero\n", "        if False:\n            # cond : bundle - the whole bundle passes while the named condition is non-zero\n", 1, "fire", "C02-R19"),
    ("C10", "c10-remainder-sign", "dsl_compiler/src/common/int32.py", "    return left - right * trunc_div(left, right)", "    remainder = abs(left) % abs(right)\n    return -remainder if (left < 0) != (right < 0) else remainder", 1, "fire", "C10-R17"),
    ("C11", "c11-remainder-sign", "dsl_compiler/src/common/int32.py", "    return left - right * trunc_div(left, right)", "    remainder = abs(left) % abs(right)\n    return -remainder if (left < 0) != (right < 0) else remainder", 1, "fire", "witness"),
    # ---- wave 8 ----
    ('C12', 'c12-fast-hop-no-isolation', CP, '        # Phase 1: Try to find a path through existing relays\n        existing_path = self._find_path_through_existing_relays(', '        hop = self.find_relay_near(((source_pos[0] + sink_pos[0]) / 2.0, (source_pos[1] + sink_pos[1]) / 2.0), self.relay_search_radius)\n        if hop is not None and math.dist(hop.position, source_pos) <= self.span_limit and math.dist(hop.position, sink_pos) <= self.span_limit:\n            hop.add_network(network_id, wire_color)\n            return [(hop.entity_id, wire_color)]\n\n        # Phase 1: Try to find a path through existing relays\n        existing_path = self._find_path_through_existing_relays(', 1, 'fire', 'recorded only on a pole'),
    ('C12', 'c12-fast-hop-tested-benign', CP, '        # Phase 1: Try to find a path through existing relays\n        existing_path = self._find_path_through_existing_relays(', '        hop = self.find_relay_near(((source_pos[0] + sink_pos[0]) / 2.0, (source_pos[1] + sink_pos[1]) / 2.0), self.relay_search_radius)\n        if hop is not None and hop.can_route_network(network_id, wire_color) and math.dist(hop.position, source_pos) <= self.span_limit and math.dist(hop.position, sink_pos) <= self.span_limit:\n            hop.add_network(network_id, wire_color)\n            return [(hop.entity_id, wire_color)]\n\n        # Phase 1: Try to find a path through existing relays\n        existing_path = self._find_path_through_existing_relays(', 1, 'silent', ''),
    ('C11', 'c11-octal-read-as-decimal', TR, '        elif text.startswith(("0o", "0O")):\n            return int(text, 8)\n', '        elif text.startswith(("0o", "0O")):\n            return int(text, 10)\n', 1, 'fire', 'prefix 0o'),
    ('C11', 'c11-binary-default-swapped', TR, '        elif text.startswith(("0b", "0B")):\n            return int(text, 2)\n        else:\n            return int(text, 10)\n', '        elif not text.startswith(("0b", "0B")):\n            return int(text, 2)\n        else:\n            return int(text, 10)\n', 1, 'fire', 'prefix 0b'),
    ('C11', 'c11-binary-negative-spelling-benign', TR, '        elif text.startswith(("0b", "0B")):\n            return int(text, 2)\n        else:\n            return int(text, 10)\n', '        elif not text.startswith(("0b", "0B")):\n            return int(text, 10)\n        return int(text, 2)\n', 1, 'silent', ''),
]

CATALOGUE = [m for m in CATALOGUE if m[3] != "PLACEHOLDER-NOT-PRESENT"]
