"""Set-typed expression inference (syntactic, conservative): which names/attributes hold a set."""

from __future__ import annotations

import ast

from .core import Func, Repo, call_name, chain, norm, walk_local

SET_ANN = ("set[", "Set[", "frozenset", "set |", "| set", "AbstractSet")


def _ann_is_set(ann: ast.AST | None) -> bool:
    if ann is None:
        return False
    t = norm(ann)
    return t in ("set", "frozenset") or t.startswith(("set[", "Set[", "frozenset[")) or t.endswith("| set") or " set[" in t and "dict" not in t.split("set[")[0][-6:]


def _ann_is_dict_of_set(ann: ast.AST | None) -> bool:
    if ann is None:
        return False
    t = norm(ann)
    if not (t.startswith("dict[") or t.startswith("Dict[") or t.startswith("defaultdict[") or t.startswith("Mapping[")):
        return False
    inner = t[t.index("[") + 1:]
    # value type = text after the first top-level comma
    depth = 0
    for i, ch in enumerate(inner):
        if ch == "[":
            depth += 1
        elif ch == "]":
            depth -= 1
        elif ch == "," and depth == 0:
            val = inner[i + 1:].strip()
            return val.startswith(("set", "Set", "frozenset"))
    return False


class SetTypes:
    def __init__(self, repo: Repo) -> None:
        self.repo = repo
        self.attr_sets: set[tuple[str, str]] = set()  # (class, attr)
        self.any_attr_sets: set[str] = set()  # attr names that are sets in some class (used when receiver class unknown)
        self.attr_dict_sets: set[tuple[str, str]] = set()  # (class, attr) holding dict[..., set[...]]
        for c in repo.all_classes():
            for st in c.node.body:
                if isinstance(st, ast.AnnAssign) and isinstance(st.target, ast.Name) and _ann_is_set(st.annotation):
                    self.attr_sets.add((c.name, st.target.id))
            for m in c.methods.values():
                pa = {p.arg for p in m.node.args.posonlyargs + m.node.args.args + m.node.args.kwonlyargs if _ann_is_set(p.annotation)}
                for n in walk_local(m.node):
                    if isinstance(n, ast.Assign) and len(n.targets) == 1 and isinstance(n.targets[0], ast.Attribute) and isinstance(n.targets[0].value, ast.Name) \
                            and n.targets[0].value.id == "self" and isinstance(n.value, ast.Name) and n.value.id in pa:
                        self.attr_sets.add((c.name, n.targets[0].attr))
                    t = v = ann = None
                    if isinstance(n, ast.Assign) and len(n.targets) == 1:
                        t, v = n.targets[0], n.value
                    elif isinstance(n, ast.AnnAssign):
                        t, v, ann = n.target, n.value, n.annotation
                    if isinstance(t, ast.Attribute) and isinstance(t.value, ast.Name) and t.value.id == "self":
                        if _ann_is_set(ann) or (v is not None and self._expr_is_set_literal(v)):
                            self.attr_sets.add((c.name, t.attr))
                        if _ann_is_dict_of_set(ann):
                            self.attr_dict_sets.add((c.name, t.attr))
        # module-level constants
        self.module_sets: set[str] = set()
        for m in repo.modules.values():
            for name, v in m.module_assigns().items():
                if self._expr_is_set_literal(v):
                    self.module_sets.add(name)
            for st in m.tree.body:
                if isinstance(st, ast.AnnAssign) and isinstance(st.target, ast.Name) and _ann_is_set(st.annotation):
                    self.module_sets.add(st.target.id)
        for c, a in self.attr_sets:
            self.any_attr_sets.add(a)

    @staticmethod
    def _expr_is_set_literal(v: ast.AST) -> bool:
        if isinstance(v, (ast.Set, ast.SetComp)):
            return True
        if isinstance(v, ast.Call) and isinstance(v.func, ast.Name) and v.func.id in ("set", "frozenset"):
            return True
        return False

    def local_sets(self, f: Func) -> set[str]:
        """Local names holding a set, plus (prefixed `dict:`) names holding a dict of sets and (prefixed `unordered:`) local dicts/lists
        whose insertion order comes from an unsorted iteration over a set."""
        names: set[str] = set()
        a = f.node.args
        for p in a.posonlyargs + a.args + a.kwonlyargs:
            if _ann_is_set(p.annotation):
                names.add(p.arg)
            if _ann_is_dict_of_set(p.annotation):
                names.add("dict:" + p.arg)
        for _ in range(3):
            for n in walk_local(f.node):
                t = v = ann = None
                if isinstance(n, ast.Assign) and len(n.targets) == 1:
                    t, v = n.targets[0], n.value
                elif isinstance(n, ast.AnnAssign):
                    t, v, ann = n.target, n.value, n.annotation
                if isinstance(t, ast.Name):
                    if _ann_is_set(ann) or (v is not None and self.is_set(f, v, names)):
                        names.add(t.id)
                    if _ann_is_dict_of_set(ann):
                        names.add("dict:" + t.id)
                # elements of a dict of sets
                if isinstance(n, (ast.For, ast.comprehension)) and isinstance(n.iter, ast.Call) and isinstance(n.iter.func, ast.Attribute) and self._is_dict_of_set(f, n.iter.func.value, names):
                    if n.iter.func.attr == "items" and isinstance(n.target, ast.Tuple) and len(n.target.elts) == 2 and isinstance(n.target.elts[1], ast.Name):
                        names.add(n.target.elts[1].id)
                    if n.iter.func.attr == "values" and isinstance(n.target, ast.Name):
                        names.add(n.target.id)
                # insertion order taken from an unsorted set iteration
                if isinstance(n, ast.For) and self.is_set(f, n.iter, names):
                    for x in ast.walk(n):
                        if isinstance(x, ast.Subscript) and isinstance(x.ctx, ast.Store) and isinstance(x.value, ast.Name):
                            names.add("unordered:" + x.value.id)
                        if isinstance(x, ast.Call) and isinstance(x.func, ast.Attribute) and x.func.attr in ("append", "setdefault", "extend", "insert") and isinstance(x.func.value, ast.Name):
                            names.add("unordered:" + x.func.value.id)
        return names

    def _is_dict_of_set(self, f: Func, e: ast.AST, local: set[str]) -> bool:
        if isinstance(e, ast.Name):
            return "dict:" + e.id in local
        if isinstance(e, ast.Attribute):
            ch = chain(e)
            if ch and ch[0] == "self" and len(ch) == 2 and f.cls:
                return any((k.name, ch[1]) in self.attr_dict_sets for k in self.repo.mro(f.cls))
        return False

    def is_set(self, f: Func, e: ast.AST, local: set[str]) -> bool:
        if self._expr_is_set_literal(e):
            return True
        if isinstance(e, ast.Name):
            return e.id in local or "unordered:" + e.id in local or (e.id in self.module_sets and e.id not in f.params)
        if isinstance(e, ast.Subscript) and self._is_dict_of_set(f, e.value, local):
            return True
        if isinstance(e, ast.Call) and isinstance(e.func, ast.Attribute) and e.func.attr == "get" and self._is_dict_of_set(f, e.func.value, local):
            return True
        if isinstance(e, ast.Call) and isinstance(e.func, ast.Attribute) and e.func.attr in ("keys", "items", "values") and isinstance(e.func.value, ast.Name) and "unordered:" + e.func.value.id in local:
            return True
        if isinstance(e, ast.Attribute):
            ch = chain(e)
            if ch and ch[0] == "self" and len(ch) == 2 and f.cls:
                return any((k.name, ch[1]) in self.attr_sets for k in self.repo.mro(f.cls))
            # x.attr where attr is a set field of some dataclass
            return e.attr in self.any_attr_sets and e.attr not in ("values", "items", "keys")
        if isinstance(e, ast.BinOp) and isinstance(e.op, (ast.BitOr, ast.BitAnd, ast.Sub, ast.BitXor)):
            return self.is_set(f, e.left, local) or self.is_set(f, e.right, local)
        if isinstance(e, ast.Call) and isinstance(e.func, ast.Attribute):
            if e.func.attr in ("union", "intersection", "difference", "symmetric_difference", "copy") and self.is_set(f, e.func.value, local):
                return True
            if e.func.attr == "keys":
                return False
        if isinstance(e, ast.IfExp):
            return self.is_set(f, e.body, local) or self.is_set(f, e.orelse, local)
        if isinstance(e, ast.BoolOp):
            return any(self.is_set(f, v, local) for v in e.values)
        return False
