"""fv — static-analysis engine for Snagnar/Factompiler properties C01..C20.

Every check re-reads /repo (or $FV_REPO) source on every run and decides rules over
the syntax tree, a hand-built statement CFG, a constructor-based resolver/call graph
and constant-evaluated data tables.  No repository code is executed.
"""
