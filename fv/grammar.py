"""M7: the Lark grammar read as data (lark is used as a parser *of the grammar file* only)."""

from __future__ import annotations

import re
from dataclasses import dataclass, field

from .core import AnalysisError, Repo

try:
    import lark
except ImportError:  # pragma: no cover
    lark = None


@dataclass
class GRule:
    origin: str
    expansion: list[str]
    alias: str | None
    is_helper: bool


@dataclass
class Grammar:
    rules: list[GRule]
    terminals: dict[str, list[str]]  # terminal name -> literal alternatives ([] if a real regex)
    term_patterns: dict[str, str]
    helpers: dict[str, list[list[str]]] = field(default_factory=dict)

    def expansions(self, origin: str) -> list[GRule]:
        return [r for r in self.rules if r.origin == origin]

    def literals(self, term: str) -> list[str]:
        return self.terminals.get(term, [])

    def inline(self, symbols: list[str], depth: int = 0) -> list[list[str]]:
        """Expand helper nonterminals (`__x_star_0`, `__x_plus_1`) into the flat symbol sequences they can produce (bounded)."""
        out: list[list[str]] = [[]]
        for s in symbols:
            if s.startswith("__") and s in self.helpers and depth < 3:
                alts: list[list[str]] = []
                for alt in self.helpers[s]:
                    alts.extend(self.inline([x for x in alt if x != s], depth + 1))
                out = [a + b for a in out for b in (alts or [[]])]
            else:
                out = [a + [s] for a in out]
        return out


def _literal_alternatives(pattern) -> list[str]:
    """['<<', '>>'] for a terminal defined as a choice of string literals; [] otherwise."""
    t = type(pattern).__name__
    if t == "PatternStr":
        return [pattern.value]
    if t == "PatternRE":
        src = pattern.value
        # lark compiles "a" | "b" into (?:a|b) with escapes
        m = re.fullmatch(r"\(\?:(.*)\)", src, re.S)
        body = m.group(1) if m else src
        parts = _split_top(body)
        lits = []
        for p in parts:
            u = _unescape(p)
            if u is None:
                return []
            lits.append(u)
        return lits
    return []


def _split_top(s: str) -> list[str]:
    parts, depth, cur, i = [], 0, "", 0
    while i < len(s):
        ch = s[i]
        if ch == "\\" and i + 1 < len(s):
            cur += s[i : i + 2]
            i += 2
            continue
        if ch in "([":
            depth += 1
        elif ch in ")]":
            depth -= 1
        if ch == "|" and depth == 0:
            parts.append(cur)
            cur = ""
        else:
            cur += ch
        i += 1
    parts.append(cur)
    return parts


def _unescape(p: str) -> str | None:
    out, i = "", 0
    while i < len(p):
        ch = p[i]
        if ch == "\\" and i + 1 < len(p):
            out += p[i + 1]
            i += 2
            continue
        if ch in ".^$*+?{}[]()|":
            return None
        out += ch
        i += 1
    return out


def load_grammar(repo: Repo, rel: str = "dsl_compiler/grammar/facto.lark") -> Grammar:
    if lark is None:
        raise AnalysisError("lark is not importable; grammar rules cannot be decided")
    text = repo.read_text(rel)
    try:
        g = lark.Lark(text, parser="lalr", start="start", maybe_placeholders=True)
    except Exception as e:  # noqa: BLE001
        raise AnalysisError(f"grammar does not load: {e}") from e
    rules = []
    helpers: dict[str, list[list[str]]] = {}
    for r in g.rules:
        origin = str(r.origin.name)
        exp = [s.name for s in r.expansion]
        is_helper = origin.startswith("__")
        rules.append(GRule(origin, exp, r.alias, is_helper))
        if is_helper:
            helpers.setdefault(origin, []).append(exp)
    terms: dict[str, list[str]] = {}
    pats: dict[str, str] = {}
    for t in g.terminals:
        terms[t.name] = _literal_alternatives(t.pattern)
        pats[t.name] = getattr(t.pattern, "value", "")
    return Grammar(rules, terms, pats, helpers)
