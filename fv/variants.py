"""Whole-tree, behaviour-preserving source transformations of the repository under analysis.  Each writes a transformed copy of the
tree to a scratch directory; every check must give the same obligations and verdicts on the copy as on the tree itself
(thorough tier, and tools/benign_rename.py / tools/benign_extract.py from the command line).

  rename   every function-local (not parameters, globals, nonlocals or names shared with nested scopes) gets a suffix
  extract  every non-trivial argument of a statement-level call is hoisted, in evaluation order, into a fresh temporary
  invert   early `continue`s become nested `if`s and if/else pairs are swapped under the negated test
  reorder  adjacent, independent, effect-free local assignments are swapped

Both variants of the compiler pass the repository's own unit tests (checked when the generators were written; the checks never
run the compiler)."""

from __future__ import annotations

import ast
import os
import shutil
from pathlib import Path

ITEMS = ("compile.py", "dsl_compiler", "lib", "doc", "example_programs", "README.md", "LANGUAGE_SPEC.md")


def copy_tree(src_root: Path | str, dst: Path | str, with_tests: bool = False) -> None:
    shutil.rmtree(dst, ignore_errors=True)
    os.makedirs(dst)
    ign = ("__pycache__", "*.pyc", "*.png", "*.gif") + (() if with_tests else ("tests",))
    items = ITEMS + (("tests", "pyproject.toml", "conftest.py") if with_tests else ())
    for item in items:
        src = os.path.join(str(src_root), item)
        if os.path.isdir(src):
            shutil.copytree(src, os.path.join(str(dst), item), ignore=shutil.ignore_patterns(*ign))
        elif os.path.exists(src):
            shutil.copy2(src, os.path.join(str(dst), item))


def _py_files(dst: Path | str):
    for dirpath, _dirs, fnames in os.walk(str(dst)):
        if os.sep + "tests" in dirpath:
            continue
        for fn in fnames:
            if fn.endswith(".py"):
                yield os.path.join(dirpath, fn)


# ---- rename ----------------------------------------------------------------------------------

def local_walk(fn):
    stack = list(fn.body)
    while stack:
        n = stack.pop()
        yield n
        for c in ast.iter_child_nodes(n):
            if isinstance(c, (ast.FunctionDef, ast.AsyncFunctionDef, ast.ClassDef, ast.Lambda)):
                continue
            stack.append(c)


def rename_function(fn, suffix: str = "_rn"):
    params = {a.arg for a in fn.args.posonlyargs + fn.args.args + fn.args.kwonlyargs}
    if fn.args.vararg:
        params.add(fn.args.vararg.arg)
    if fn.args.kwarg:
        params.add(fn.args.kwarg.arg)
    declared = set()
    nested_names = set()
    for n in ast.walk(fn):
        if isinstance(n, (ast.Global, ast.Nonlocal)):
            declared |= set(n.names)
        if n is not fn and isinstance(n, (ast.FunctionDef, ast.AsyncFunctionDef, ast.Lambda, ast.ClassDef)):
            for x in ast.walk(n):
                if isinstance(x, ast.Name):
                    nested_names.add(x.id)
                if isinstance(x, ast.arg):
                    nested_names.add(x.arg)
    stores = set()
    for n in local_walk(fn):
        if isinstance(n, ast.Name) and isinstance(n.ctx, ast.Store):
            stores.add(n.id)
        if isinstance(n, ast.ExceptHandler) and n.name:
            declared.add(n.name)
        if isinstance(n, (ast.Import, ast.ImportFrom)):
            for al in n.names:
                declared.add((al.asname or al.name).split(".")[0])
    targets = {s for s in stores if s not in params and s not in declared and s not in nested_names and not s.startswith("__") and s != "_"}
    count = 0
    for n in local_walk(fn):
        if isinstance(n, ast.Name) and n.id in targets:
            n.id = n.id + suffix
            count += 1
    return count



def make_rename(src_root: Path | str, dst: Path | str, suffix: str = "_rn", with_tests: bool = False) -> int:
    copy_tree(src_root, dst, with_tests)
    total = 0
    for p in _py_files(dst):
        tree = ast.parse(open(p).read())
        for n in ast.walk(tree):
            if isinstance(n, (ast.FunctionDef, ast.AsyncFunctionDef)):
                total += rename_function(n, suffix)
        open(p, "w").write(ast.unparse(tree) + "\n")
    return total


# ---- extract ---------------------------------------------------------------------------------

def plain_callee(e: ast.AST) -> bool:
    while isinstance(e, ast.Attribute):
        e = e.value
    return isinstance(e, ast.Name)


def hoistable(e: ast.AST) -> bool:
    if isinstance(e, (ast.Name, ast.Constant, ast.Starred)):
        return False
    for x in ast.walk(e):
        if isinstance(x, (ast.Lambda, ast.Yield, ast.YieldFrom, ast.Await, ast.NamedExpr, ast.GeneratorExp)):
            return False
    return True


class Hoist:
    def __init__(self) -> None:
        self.n = 0
        self.count = 0

    def call_of(self, st: ast.stmt) -> ast.Call | None:
        v = None
        if isinstance(st, ast.Expr):
            v = st.value
        elif isinstance(st, ast.Assign) and len(st.targets) == 1 and isinstance(st.targets[0], ast.Name):
            v = st.value
        elif isinstance(st, ast.Return):
            v = st.value
        if isinstance(v, ast.Call) and plain_callee(v.func) and not any(isinstance(a, ast.Starred) for a in v.args) and not any(k.arg is None for k in v.keywords):
            if isinstance(v.func, ast.Name) and v.func.id in ("super", "isinstance", "print", "len", "cast"):
                return None
            return v
        return None

    def block(self, stmts: list[ast.stmt]) -> list[ast.stmt]:
        out: list[ast.stmt] = []
        for st in stmts:
            for field in ("body", "orelse", "finalbody"):
                sub = getattr(st, field, None)
                if isinstance(sub, list) and sub and isinstance(sub[0], ast.stmt) and not isinstance(st, (ast.FunctionDef, ast.AsyncFunctionDef, ast.ClassDef)):
                    setattr(st, field, self.block(sub))
            if isinstance(st, ast.Try):
                for h in st.handlers:
                    h.body = self.block(h.body)
            c = self.call_of(st)
            if c is not None:
                slots = [("a", i) for i in range(len(c.args))] + [("k", i) for i in range(len(c.keywords))]
                exprs = [c.args[i] if kind == "a" else c.keywords[i].value for kind, i in slots]
                if any(hoistable(e) for e in exprs):
                    # hoist from the first hoistable argument on, so that nothing is evaluated before an earlier non-trivial argument
                    for (kind, i), e in zip(slots, exprs):
                        if not hoistable(e):
                            continue
                        self.n += 1
                        name = f"_t{self.n}"
                        asg = ast.Assign(targets=[ast.Name(id=name, ctx=ast.Store())], value=e)
                        ast.copy_location(asg, st)
                        out.append(asg)
                        ref = ast.Name(id=name, ctx=ast.Load())
                        if kind == "a":
                            c.args[i] = ref
                        else:
                            c.keywords[i].value = ref
                        self.count += 1
            out.append(st)
        return out



def make_extract(src_root: Path | str, dst: Path | str, with_tests: bool = False) -> int:
    copy_tree(src_root, dst, with_tests)
    total = 0
    for p in _py_files(dst):
        tree = ast.parse(open(p).read())
        h = Hoist()
        for node in ast.walk(tree):
            if isinstance(node, (ast.FunctionDef, ast.AsyncFunctionDef)):
                node.body = h.block(node.body)
        if h.count:
            ast.fix_missing_locations(tree)
            open(p, "w").write(ast.unparse(tree) + "\n")
            total += h.count
    return total


# ---- invert ----------------------------------------------------------------------------------


def _negate(test: ast.expr) -> ast.expr:
    if isinstance(test, ast.UnaryOp) and isinstance(test.op, ast.Not):
        return test.operand
    if isinstance(test, ast.Compare) and len(test.ops) == 1:
        flip = {ast.Is: ast.IsNot, ast.IsNot: ast.Is, ast.Eq: ast.NotEq, ast.NotEq: ast.Eq, ast.In: ast.NotIn, ast.NotIn: ast.In}
        if type(test.ops[0]) in flip:
            return ast.Compare(left=test.left, ops=[flip[type(test.ops[0])]()], comparators=test.comparators)
    return ast.UnaryOp(op=ast.Not(), operand=test)


class Invert:
    """(a) `if C: continue` followed by the rest of a loop body  ->  `if not C: <rest>`;
       (b) `if C: A else: B` (B not an elif chain)               ->  `if not C: B else: A`."""

    def __init__(self) -> None:
        self.count = 0

    def block(self, stmts: list[ast.stmt], in_loop_tail: bool) -> list[ast.stmt]:
        out: list[ast.stmt] = []
        i = 0
        while i < len(stmts):
            st = stmts[i]
            if isinstance(st, (ast.FunctionDef, ast.AsyncFunctionDef, ast.ClassDef)):
                out.append(st)
                i += 1
                continue
            is_tail = in_loop_tail and True
            if isinstance(st, ast.If) and not st.orelse and len(st.body) == 1 and isinstance(st.body[0], ast.Continue) and in_loop_tail and i + 1 < len(stmts):
                rest = self.block(stmts[i + 1:], True)
                new = ast.If(test=_negate(st.test), body=rest, orelse=[])
                ast.copy_location(new, st)
                out.append(new)
                self.count += 1
                return out
            if isinstance(st, ast.If):
                st.body = self.block(st.body, False)
                if st.orelse and not (len(st.orelse) == 1 and isinstance(st.orelse[0], ast.If)):
                    st.orelse = self.block(st.orelse, False)
                    st.test, st.body, st.orelse = _negate(st.test), st.orelse, st.body
                    self.count += 1
                elif st.orelse:
                    st.orelse = self.block(st.orelse, False)
            elif isinstance(st, (ast.For, ast.AsyncFor, ast.While)):
                st.body = self.block(st.body, True)
                st.orelse = self.block(st.orelse, False) if st.orelse else st.orelse
            elif isinstance(st, (ast.With, ast.AsyncWith)):
                st.body = self.block(st.body, False)
            elif isinstance(st, ast.Try):
                st.body = self.block(st.body, False)
                for h in st.handlers:
                    h.body = self.block(h.body, False)
                st.orelse = self.block(st.orelse, False) if st.orelse else st.orelse
                st.finalbody = self.block(st.finalbody, False) if st.finalbody else st.finalbody
            out.append(st)
            i += 1
        return out


def make_invert(src_root: Path | str, dst: Path | str, with_tests: bool = False) -> int:
    copy_tree(src_root, dst, with_tests)
    total = 0
    for p in _py_files(dst):
        tree = ast.parse(open(p).read())
        inv = Invert()
        for node in ast.walk(tree):
            if isinstance(node, (ast.FunctionDef, ast.AsyncFunctionDef)):
                node.body = inv.block(node.body, False)
        if inv.count:
            ast.fix_missing_locations(tree)
            open(p, "w").write(ast.unparse(tree) + "\n")
            total += inv.count
    return total


# ---- reorder ---------------------------------------------------------------------------------

def _pure_local_assign(st: ast.stmt) -> tuple[set[str], set[str]] | None:
    """(names written, names read) of a plain `name = expr` whose value has no call, no await, no walrus and no subscript store;
    None for anything else.  Attribute reads are pure in this code base (no properties with effects on the values involved are
    assumed: the value must not contain a Call at all)."""
    if not (isinstance(st, ast.Assign) and len(st.targets) == 1 and isinstance(st.targets[0], ast.Name)):
        return None
    PURE = {"get", "len", "isinstance", "str", "int", "float", "bool", "getattr", "hasattr", "set", "dict", "list", "tuple", "sorted", "min", "max", "abs", "frozenset"}
    for x in ast.walk(st.value):
        if isinstance(x, (ast.Await, ast.NamedExpr, ast.Yield, ast.YieldFrom, ast.Lambda, ast.ListComp, ast.SetComp, ast.DictComp, ast.GeneratorExp)):
            return None
        if isinstance(x, ast.Call):
            nm = x.func.attr if isinstance(x.func, ast.Attribute) else (x.func.id if isinstance(x.func, ast.Name) else None)
            if nm not in PURE:
                return None
    reads = {x.id for x in ast.walk(st.value) if isinstance(x, ast.Name)}
    return {st.targets[0].id}, reads


class Reorder(ast.NodeTransformer):
    """Swap adjacent, independent, call-free local assignments (`a = p.q; b = r.s` -> `b = r.s; a = p.q`)."""

    def __init__(self):
        self.n = 0

    def _block(self, body: list[ast.stmt]) -> list[ast.stmt]:
        out = list(body)
        i = 0
        while i + 1 < len(out):
            a, b = _pure_local_assign(out[i]), _pure_local_assign(out[i + 1])
            if a and b and not (a[0] & (b[0] | b[1])) and not (b[0] & a[1]):
                out[i], out[i + 1] = out[i + 1], out[i]
                self.n += 1
                i += 2
            else:
                i += 1
        return out

    def generic_visit(self, node):
        super().generic_visit(node)
        for fld in ("body", "orelse", "finalbody"):
            seq = getattr(node, fld, None)
            if isinstance(seq, list) and seq and all(isinstance(x, ast.stmt) for x in seq) and not isinstance(node, (ast.Module, ast.ClassDef)):
                setattr(node, fld, self._block(seq))
        return node


def make_reorder(src_root: Path | str, dst: Path | str, with_tests: bool = False) -> int:
    copy_tree(src_root, dst, with_tests)
    total = 0
    for path in _py_files(dst):
        src = open(path).read()
        try:
            tree = ast.parse(src)
        except SyntaxError:
            continue
        r = Reorder()
        tree = r.visit(tree)
        if r.n:
            ast.fix_missing_locations(tree)
            open(path, "w").write(ast.unparse(tree) + "\n")
            total += r.n
    return total


# ---- early exit -> else ----------------------------------------------------------------------

_EXITS = (ast.Return, ast.Raise, ast.Continue, ast.Break)


class Elsify:
    """`if C: ...; return X` followed by the rest of the block  ->  `if C: ...; return X` / `else: <rest>`
    (the arm ends in return/raise/continue/break, there is no else yet and the rest is not empty; a rest that is a lone `if` prints as an elif)."""

    def __init__(self) -> None:
        self.count = 0

    def block(self, stmts: list[ast.stmt]) -> list[ast.stmt]:
        out: list[ast.stmt] = []
        for i, st in enumerate(stmts):
            if isinstance(st, (ast.FunctionDef, ast.AsyncFunctionDef, ast.ClassDef)):
                out.append(st)
                continue
            for fld in ("body", "orelse", "finalbody"):
                seq = getattr(st, fld, None)
                if isinstance(seq, list) and seq and all(isinstance(x, ast.stmt) for x in seq):
                    setattr(st, fld, self.block(seq))
            for h in getattr(st, "handlers", []) or []:
                h.body = self.block(h.body)
            for c in getattr(st, "cases", []) or []:
                c.body = self.block(c.body)
            if isinstance(st, ast.If) and not st.orelse and isinstance(st.body[-1], _EXITS) and i + 1 < len(stmts):
                st.orelse = self.block(stmts[i + 1:])
                self.count += 1
                out.append(st)
                return out
            out.append(st)
        return out


def make_elsify(src_root: Path | str, dst: Path | str, with_tests: bool = False) -> int:
    copy_tree(src_root, dst, with_tests)
    total = 0
    for p in _py_files(dst):
        tree = ast.parse(open(p).read())
        e = Elsify()
        for node in ast.walk(tree):
            if isinstance(node, (ast.FunctionDef, ast.AsyncFunctionDef)):
                node.body = e.block(node.body)
        if e.count:
            ast.fix_missing_locations(tree)
            open(p, "w").write(ast.unparse(tree) + "\n")
            total += e.count
    return total
